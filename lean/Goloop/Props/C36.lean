/-
  Props/C36 — "Addresses have one canonical text and byte form".

  `Valid a` (21 bytes, type byte 0 or 1) is the constructor invariant of `common.Address`: every
  setter establishes it (`*_valid` theorems) and the printing theorems assume it explicitly; the
  `invariant_is_needed` witness shows that the assumption cannot be dropped, because `String()`
  prints every type byte other than 1 as `hx`.
-/
import Goloop.Proofs.C36
namespace Goloop.C36
open Goloop.C36.Proofs

/-- the canonical text form: `hx`/`cx` followed by exactly 40 lower-case hex digits -/
def Canonical (s : Bytes) : Prop :=
  ∃ p body, s = p :: 120 :: body ∧ (p = 104 ∨ p = 99) ∧ body.length = 40 ∧ ∀ c ∈ body, isLowerHexB c = true

/-! ## strict parser and printer are inverse -/

/-- strict-parse ∘ print = id on every address satisfying the constructor invariant. -/
theorem strict_print_parse (a : Address) (h : Valid a) : setStringStrict (toString a) = some a := by
  obtain ⟨t, id, rfl, hl, ht⟩ := h
  have hlen : (hexEncodeB id).length = 40 := by rw [hexEncodeB_length, hl]
  have hb : ∀ ic, strictBody ic (hexEncodeB id) = some (setTypeAndID ic id) := by
    intro ic; unfold strictBody; rw [lowerDiffers_encode, hexDecode_encode]; rfl
  rcases ht with rfl | rfl
  · have : toString (0 :: id) = 104 :: 120 :: hexEncodeB id := by simp [toString]
    rw [this]; unfold setStringStrict
    rw [if_neg (by simp [hlen])]
    simp only
    rw [if_neg (by decide), if_pos (by decide), hb, setTypeAndID_20 _ _ hl]; rfl
  · have : toString (1 :: id) = 99 :: 120 :: hexEncodeB id := by simp [toString]
    rw [this]; unfold setStringStrict
    rw [if_neg (by simp [hlen])]
    simp only
    rw [if_pos (by decide), hb, setTypeAndID_20 _ _ hl]; rfl

/-- print ∘ strict-parse = id on every accepted string, and the result satisfies the invariant. -/
theorem strict_parse_print (s : Bytes) (a : Address) (h : setStringStrict s = some a) :
    toString a = s ∧ Valid a := by
  unfold setStringStrict at h
  split at h
  · cases h
  · rename_i hlen
    have hlen : s.length = 42 := by omega
    match s, hlen, h with
    | p0 :: p1 :: body, hlen, h =>
      have hbl : body.length = 40 := by simpa using hlen
      have key : ∀ ic, strictBody ic body = some a →
          a = (if ic then 1 else 0) :: (a.drop 1) ∧ hexEncodeB (a.drop 1) = body ∧ Valid a := by
        intro ic hb
        unfold strictBody at hb
        split at hb
        · cases hb
        · rename_i hld
          split at hb
          · cases hb
          · rename_i b hdec
            have hb20 : b.length = 20 := by have := hexDecodeB_length _ _ hdec; omega
            have ha := (Option.some.inj hb).symm
            rw [setTypeAndID_20 _ _ hb20] at ha
            subst ha
            refine ⟨rfl, ?_, ⟨_, b, rfl, hb20, by cases ic <;> simp⟩⟩
            simpa using hexEncode_decode body b hdec (by simpa using hld)
      simp only at h
      split at h
      · rename_i hp
        obtain ⟨ha, he, hv⟩ := key true h
        refine ⟨?_, hv⟩
        rw [ha]; simp only [toString, if_true]
        rw [he, hp.1, hp.2]; rfl
      · split at h
        · rename_i hp
          obtain ⟨ha, he, hv⟩ := key false h
          refine ⟨?_, hv⟩
          rw [ha]; simp only [toString, Bool.false_eq_true, if_false]
          rw [if_neg (by decide), he, hp.1, hp.2]; rfl
        · cases h

/-- Two valid addresses that print the same are the same: the text form is injective. -/
theorem print_injective (a b : Address) (ha : Valid a) (hb : Valid b) (h : toString a = toString b) :
    a = b := by
  have h1 := strict_print_parse a ha
  rw [h, strict_print_parse b hb] at h1
  exact (Option.some.inj h1).symm

/-! ## the strict parser accepts exactly the canonical strings -/

theorem strict_accepts_iff_canonical (s : Bytes) : (∃ a, setStringStrict s = some a) ↔ Canonical s := by
  constructor
  · rintro ⟨a, h⟩
    -- s is the print of a valid address
    obtain ⟨hp, ⟨t, id, rfl, hl, ht⟩⟩ := strict_parse_print s a h
    subst hp
    refine ⟨if t = 1 then 99 else 104, hexEncodeB id, ?_, ?_, by rw [hexEncodeB_length, hl], ?_⟩
    · simp only [toString]; split <;> rfl
    · split <;> simp
    · intro c hc
      rw [isLowerHexB_iff]
      have hd := hexDecode_encode id
      have hlow := lowerDiffers_encode id
      refine ⟨((hexDecodeB_isSome_iff _).mp ⟨id, hd⟩).2 c hc, ?_⟩
      unfold lowerDiffers at hlow
      rw [Bool.eq_false_iff] at hlow
      intro hcc; apply hlow
      rw [List.any_eq_true]; exact ⟨c, hc, by simpa using hcc⟩
  · rintro ⟨p, body, rfl, hp, hl, hc⟩
    have hdec : ∃ bs, hexDecodeB body = some bs :=
      (hexDecodeB_isSome_iff body).mpr ⟨by omega, fun c hcm => ((isLowerHexB_iff c).mp (hc c hcm)).1⟩
    have hlow : lowerDiffers body = false := by
      unfold lowerDiffers
      rw [Bool.eq_false_iff]; intro hany
      rw [List.any_eq_true] at hany
      obtain ⟨c, hcm, hcp⟩ := hany
      exact ((isLowerHexB_iff c).mp (hc c hcm)).2 (by simpa using hcp)
    obtain ⟨bs, hbs⟩ := hdec
    unfold setStringStrict
    rw [if_neg (by simp [hl])]
    simp only [strictBody, hlow, hbs]
    rcases hp with rfl | rfl
    · exact ⟨_, by rw [if_neg (by decide), if_pos (by decide)]; rfl⟩
    · exact ⟨_, by rw [if_pos (by decide)]; rfl⟩

/-- canonical strings are exactly the prints of valid addresses -/
theorem canonical_iff_printed (s : Bytes) : Canonical s ↔ ∃ a, Valid a ∧ toString a = s := by
  rw [← strict_accepts_iff_canonical]
  constructor
  · rintro ⟨a, h⟩; exact ⟨a, (strict_parse_print s a h).2, (strict_parse_print s a h).1⟩
  · rintro ⟨a, hv, rfl⟩; exact ⟨a, strict_print_parse a hv⟩

theorem matchAddr_iff (p : UInt8) (s : Bytes) : matchAddr p s = true ↔
    ∃ body, s = p :: 120 :: body ∧ body.length = 40 ∧ ∀ c ∈ body, isLowerHexB c = true := by
  match s with
  | [] => simp [matchAddr]
  | [_] => simp [matchAddr]
  | q0 :: q1 :: body =>
    simp only [matchAddr, decide_eq_true_eq, List.all_eq_true]
    constructor
    · rintro ⟨rfl, rfl, hl, hc⟩; exact ⟨body, rfl, hl, hc⟩
    · rintro ⟨b, hb, hl, hc⟩
      injection hb with h0 hb; injection hb with h1 hb
      subst h0 h1 hb; exact ⟨rfl, rfl, hl, hc⟩

/-- the JSON-RPC `t_addr` validator (`^hx[0-9a-f]{40}$` | `^cx[0-9a-f]{40}$`) accepts exactly what the
    strict parser accepts. -/
theorem validator_iff_strict (s : Bytes) : isAddress s = true ↔ ∃ a, setStringStrict s = some a := by
  rw [strict_accepts_iff_canonical]
  unfold isAddress isEoaAddress isScoreAddress Canonical
  rw [Bool.or_eq_true, matchAddr_iff, matchAddr_iff]
  constructor
  · rintro (⟨body, rfl, hl, hc⟩ | ⟨body, rfl, hl, hc⟩)
    · exact ⟨104, body, rfl, Or.inl rfl, hl, hc⟩
    · exact ⟨99, body, rfl, Or.inr rfl, hl, hc⟩
  · rintro ⟨p, body, rfl, hp | hp, hl, hc⟩
    · subst hp; left; exact ⟨body, rfl, hl, hc⟩
    · subst hp; right; exact ⟨body, rfl, hl, hc⟩

/-! ## byte forms -/

/-- `SetBytes (Bytes a) = a` for every address satisfying the constructor invariant. -/
theorem bytes_roundtrip (a : Address) (h : Valid a) : setBytes (bytes a) = some a :=
  Proofs.setBytes_bytes a h

/-- 20-byte form: `SetBytes (ID a) = a` for account addresses. -/
theorem bytes20_roundtrip (id : Bytes) (h : id.length = 20) : setBytes id = some (0 :: id) := by
  unfold setBytes; simp [h]

/-- `SetBytes` accepts exactly the 21-byte strings with type byte 0/1 (returned unchanged) and the
    20-byte strings (as account); the result always satisfies the invariant. -/
theorem setBytes_some_iff (b : Bytes) (a : Address) :
    setBytes b = some a ↔
      (b.length = 21 ∧ Valid b ∧ a = b) ∨ (b.length = 20 ∧ a = 0 :: b) := by
  unfold setBytes
  constructor
  · intro h
    split at h
    · rename_i hl
      match b, hl, h with
      | t :: r, hl, h =>
        simp only at h
        split at h
        · rename_i ht
          left; exact ⟨hl, ⟨t, r, rfl, by simpa using hl, ht⟩, (Option.some.inj h).symm⟩
        · cases h
    · split at h
      · rename_i hl; right; exact ⟨hl, (Option.some.inj h).symm⟩
      · cases h
  · rintro (⟨hl, ⟨t, r, rfl, _, ht⟩, rfl⟩ | ⟨hl, rfl⟩)
    · rw [if_pos hl]; simp only; rw [if_pos ht]
    · rw [if_neg (by omega), if_pos hl]

theorem setBytes_valid (b : Bytes) (a : Address) (h : setBytes b = some a) : Valid a := by
  rcases (setBytes_some_iff b a).mp h with ⟨_, hv, rfl⟩ | ⟨hl, rfl⟩
  · exact hv
  · exact ⟨0, b, rfl, hl, Or.inl rfl⟩

/-- `Bytes (SetBytes b)` gives `b` back (21-byte form) or `0 :: b` (20-byte form): byte forms round-trip. -/
theorem setBytes_bytes_roundtrip (b : Bytes) (a : Address) (h : setBytes b = some a) :
    bytes a = b ∨ (b.length = 20 ∧ bytes a = 0 :: b) := by
  rcases (setBytes_some_iff b a).mp h with ⟨_, _, rfl⟩ | ⟨hl, rfl⟩
  · left; rfl
  · right; exact ⟨hl, rfl⟩

/-! ## lenient parser -/

/-- the lenient parser also inverts the printer … -/
theorem lenient_print_parse (a : Address) (h : Valid a) : setString (toString a) = some a := by
  obtain ⟨t, id, rfl, hl, ht⟩ := h
  have hlen : (hexEncodeB id).length = 40 := by rw [hexEncodeB_length, hl]
  have hb : ∀ ic, setStringBody ic (hexEncodeB id) = some ((if ic then 1 else 0) :: id) := by
    intro ic; unfold setStringBody
    simp only [hlen]
    rw [if_neg (by decide)]
    simp only [hexDecode_encode, setTypeAndID_20 _ _ hl]
  rcases ht with rfl | rfl
  · have : toString (0 :: id) = 104 :: 120 :: hexEncodeB id := by simp [toString]
    rw [this]; unfold setString
    simp only
    rw [if_neg (by decide), if_pos (by decide), hb]; rfl
  · have : toString (1 :: id) = 99 :: 120 :: hexEncodeB id := by simp [toString]
    rw [this]; unfold setString
    simp only
    rw [if_pos (by decide), hb]; rfl

/-- … agrees with the strict parser wherever the strict parser accepts … -/
theorem strict_implies_lenient (s : Bytes) (a : Address) (h : setStringStrict s = some a) :
    setString s = some a := by
  obtain ⟨hp, hv⟩ := strict_parse_print s a h
  rw [← hp]; exact lenient_print_parse a hv

/-- … and whatever it accepts satisfies the invariant. -/
theorem lenient_valid (s : Bytes) (a : Address) (h : setString s = some a) : Valid a := by
  have hb : ∀ ic s1, setStringBody ic s1 = some a → Valid a := by
    intro ic s1 hs
    unfold setStringBody at hs
    simp only at hs
    split at hs
    · cases hs
    · have := Option.some.inj hs; subst this; exact Proofs.setTypeAndID_valid _ _
  unfold setString at h
  split at h
  · split at h
    · exact hb _ _ h
    · split at h
      · exact hb _ _ h
      · split at h <;> exact hb _ _ h
  · exact hb _ _ h

theorem setTypeAndID_valid (ic : Bool) (id : Bytes) : Valid (setTypeAndID ic id) :=
  Proofs.setTypeAndID_valid ic id

/-! ## non-vacuity and the need for the invariant -/

def zeroId : Bytes := List.replicate 20 0

example : Valid (1 :: zeroId) := ⟨1, zeroId, rfl, by decide, Or.inr rfl⟩
example : setStringStrict (toString (1 :: zeroId)) = some (1 :: zeroId) := by decide
example : Canonical (toString (0 :: zeroId)) := (canonical_iff_printed _).mpr ⟨_, ⟨0, zeroId, rfl, by decide, Or.inl rfl⟩, rfl⟩
example : setBytes zeroId = some (0 :: zeroId) := by decide

/-- Without the invariant the text form is NOT injective: type byte 2 prints as `hx…` and parses back
    to the account address. (Such a value cannot be produced by any setter: `*_valid`.) -/
theorem invariant_is_needed :
    ¬ Valid (2 :: zeroId) ∧ toString (2 :: zeroId) = toString (0 :: zeroId) ∧
    setStringStrict (toString (2 :: zeroId)) = some (0 :: zeroId) := by
  refine ⟨?_, by decide, by decide⟩
  rintro ⟨t, id, h, _, ht⟩
  have : t = 2 := by injection h with h1 _; exact h1.symm
  subst this
  rcases ht with h | h <;> exact absurd h (by decide)

/-- the lenient parser is NOT canonical: many strings map to one address (this is why the property is
    about the strict parser). -/
theorem lenient_not_injective :
    setString [104, 120] = some (0 :: zeroId) ∧ setString [] = some (0 :: zeroId) ∧
    setString [48, 120, 48] = some (0 :: zeroId) := by decide

end Goloop.C36
