/-
  Props/C16 — "A failed transaction changes nothing but the fee".
  Same model as C15 (Model/C15.lean); helper lemmas in Proofs/C15.lean.
  "Any reason": out of step (in the base frame or any nested frame), out of
  balance (checkBalance, a transfer, or at fee time with rollback), scripted
  revert at any point of any program, invalid call (transfer to a contract
  address without contract), propagated or caught failures of nested calls.
-/
import Goloop.Model.C16
import Goloop.Proofs.C15
namespace Goloop.C16
open Goloop.C15 Goloop.C15.Proofs

/-- For every configuration, world, transaction, program and fuel: if the receipt
    says "failed", the world after the transaction is the world before it with the
    fee debited from the sender — all balances of other accounts and all storage
    are exactly as before (equality of whole worlds). -/
theorem failed_tx_only_fee {n} (cfg : Cfg n) (fuel : Nat) (wInit w : World n) (tx : Tx n)
    (hf : (execTx cfg fuel wInit w tx).1.status ≠ 0) :
    (execTx cfg fuel wInit w tx).2 =
      w.setBal tx.frm (w.bal tx.frm -
        ((execTx cfg fuel wInit w tx).1.stepUsed : Int) * (execTx cfg fuel wInit w tx).1.stepPrice) :=
  ((settle_spec cfg w tx.frm _ (good_doExecute cfg fuel wInit w tx)).2.2.1 hf).1

/-- pointwise reading of the same fact: storage, object graphs and other balances untouched -/
theorem failed_tx_pointwise {n} (cfg : Cfg n) (fuel : Nat) (wInit w : World n) (tx : Tx n)
    (hf : (execTx cfg fuel wInit w tx).1.status ≠ 0) :
    (∀ a k, (execTx cfg fuel wInit w tx).2.store a k = w.store a k) ∧
    (∀ a, (execTx cfg fuel wInit w tx).2.graph a = w.graph a) ∧
    (∀ a, a ≠ tx.frm → (execTx cfg fuel wInit w tx).2.bal a = w.bal a) := by
  rw [failed_tx_only_fee cfg fuel wInit w tx hf]
  refine ⟨fun a k => rfl, fun a => rfl, ?_⟩
  intro a ha; simp [World.setBal, updF, ha]

/-- A failed transaction's receipt carries no event logs and no BTP messages. -/
theorem failed_receipt_no_logs {n} (cfg : Cfg n) (fuel : Nat) (wInit w : World n) (tx : Tx n)
    (hf : (execTx cfg fuel wInit w tx).1.status ≠ 0) :
    (execTx cfg fuel wInit w tx).1.logs = [] ∧ (execTx cfg fuel wInit w tx).1.btp = 0 :=
  ((settle_spec cfg w tx.frm _ (good_doExecute cfg fuel wInit w tx)).2.2.1 hf).2

/-- The mechanism, at every nesting level: a call frame that fails (for any program,
    at any point) hands its caller the world as it was when the frame was entered,
    and none of its logs or BTP messages. -/
theorem failed_frame_rolls_back {n} (cfg : Cfg n) (fuel : Nat) (inter : Bool) (frm self : Fin n) (v : Int)
    (prog : List (Op n)) (w0 : World n) (limit : Nat)
    (hf : (scriptFrame cfg fuel inter frm self v prog w0 limit).status ≠ 0) :
    (scriptFrame cfg fuel inter frm self v prog w0 limit).w = w0 ∧
    (scriptFrame cfg fuel inter frm self v prog w0 limit).logs = [] ∧
    (scriptFrame cfg fuel inter frm self v prog w0 limit).btp = 0 :=
  (good_scriptFrame cfg fuel inter frm self v prog w0 limit).rollback hf

/-- same for an inter-call transfer frame (the sender is debited before the
    recipient check fails; the debit is rolled back) -/
theorem failed_transfer_frame_rolls_back {n} (cfg : Cfg n) (w0 : World n) (frm to : Fin n) (v : Int) (limit : Nat)
    (hf : (xferFrame cfg w0 frm to v limit).status ≠ 0) : (xferFrame cfg w0 frm to v limit).w = w0 :=
  ((good_xferFrame cfg w0 frm to v limit).rollback hf).1

/-! non-vacuity: a program that writes storage, emits a log, moves value in a nested
    call and then fails; and the partial mutation is real (without the frame's
    rollback the debit would be visible) -/
section Example
def exCfg : Cfg 4 :=
  { price := 2, dflt := 10, input := 1, call := 3, invoke := 1000, legacyFee := false, legacyBal := false,
    isContract := fun a => a.val = 1 || a.val = 2, hasContract := fun a => a.val = 1, treasury := 3 }
def exW : World 4 := ⟨fun a => if a.val = 0 then 1000 else 0, fun _ _ => 0, fun _ => none⟩
def exTx : Tx 4 := ⟨0, 1, 50, 200, 5, .call [.setv 0 7, .setg 2 9, .emit 1, .call 1 5 0 [.setv 1 9, .setg 3 1, .emit 2] true, .fail 3]⟩

example : (execTx exCfg 3 exW exW exTx).1.status = 35 := by decide
example : (execTx exCfg 3 exW exW exTx).1.status ≠ 0 := by decide
/-- the program really writes the object graph before it fails (the frame without the final `fail` succeeds and changes it): -/
example : ((scriptFrame exCfg 3 false 0 1 50 [.setg 2 9] exW 1000).w.graph 1) = some (2, 9) := by decide
/-- a Timeout two frames deep, after both outer frames have written storage and the object graph
    and the caught-call flag is set: the transaction fails with Timeout (12) and uses the whole limit -/
def exTxTimeout : Tx 4 :=
  ⟨0, 1, 50, 200, 5, .call [.setv 0 7, .setg 2 9, .call 1 5 0 [.setv 1 9, .call 1 0 0 [.timeout] false] false, .emit 1]⟩
example : (execTx exCfg 4 exW exW exTxTimeout).1.status = 12 ∧ (execTx exCfg 4 exW exW exTxTimeout).1.stepUsed = 200 := by decide
/-- the transfer really debits before it fails: -/
example : (doTransfer exCfg exW 0 2 5).1 ≠ 0 ∧ (doTransfer exCfg exW 0 2 5).2.bal 0 = 995 := by decide
end Example

end Goloop.C16
