/-
  Props/C27: the Merkle accumulator (common/trie/mta) works for every length.
  `H` is an arbitrary hash function with 32 byte output; nothing else is assumed about it
  for the completeness theorems (they hold even if `H` has collisions).
-/
import Goloop.Proofs.C27
namespace Goloop.C27

/-- what can be appended: `AddHash(hv)` or `AddData(d)` -/
inductive Item where
  | hash (hv : Bytes)
  | data (d : Bytes)

def Item.node (H : Bytes → Bytes) : Item → Node
  | .hash hv => .hash hv
  | .data d => mkData H d

/-- the value `Verify` is given for the item -/
def Item.leafHash (H : Bytes → Bytes) : Item → Bytes
  | .hash hv => hv
  | .data d => H d

/-- `AddHash` must be given a 32 byte hash -/
def Item.Valid : Item → Prop
  | .hash hv => hv.length = 32
  | .data _ => True

/-- the accumulator after appending `items` to `a` -/
def addAll (H : Bytes → Bytes) (a : Acc) (items : List Item) : Acc :=
  items.foldl (fun a it => (a.addNode H (it.node H)).1) a

theorem item_isTree (H : Bytes → Bytes) (it : Item) (hv : it.Valid) :
    IsTree H 0 (it.node H) [it.leafHash H] := by
  cases it with
  | hash hv' => exact IsTree.leafHash hv' hv
  | data d => exact IsTree.leafData d

theorem addAll_inv (H : Bytes → Bytes) (items : List Item) (hv : ∀ it ∈ items, it.Valid) :
    ∀ (a : Acc) (old : List Bytes), RootsInv H 0 a.roots old → a.length = old.length →
      RootsInv H 0 (addAll H a items).roots (old ++ items.map (Item.leafHash H)) ∧
      (addAll H a items).length = old.length + items.length := by
  induction items with
  | nil => intro a old h1 h2; simp [addAll, h1, h2]
  | cons it rest ih =>
    intro a old h1 h2
    have hit : it.Valid := hv it (by simp)
    have hrest : ∀ x ∈ rest, x.Valid := fun x hx => hv x (by simp [hx])
    have hstep := addNode_inv H a.roots 0 old (it.node H) [it.leafHash H] [] h1 (item_isTree H it hit)
    have := ih hrest (a.addNode H (it.node H)).1 (old ++ [it.leafHash H]) hstep (by simp [Acc.addNode, h2])
    simp only [addAll, List.foldl_cons] at *
    simpa [List.append_assoc, Nat.add_assoc, Nat.add_comm 1] using this

/-- **C27 (witness for every item, every length).** After appending any list of items to the
    empty accumulator, `WitnessFor(i)` succeeds for every index `i` (no error, no nil slot
    dereferenced — the repaired loop has no panic outcome), leaves the accumulator unchanged,
    and `Verify` accepts the returned witness for the item's hash against the current roots. -/
theorem witness_verifies (H : Bytes → Bytes) (hlen : ∀ x, (H x).length = 32) (db : DB)
    (items : List Item) (hv : ∀ it ∈ items, it.Valid) (i : Nat) (hi : i < items.length) :
    let a := addAll H {} items
    ∃ ws, a.witnessFor db i = (a, .ok ws) ∧
      a.verify H ws ((items.map (Item.leafHash H)).getD i []) = .ok := by
  intro a
  obtain ⟨hinv, hl⟩ := addAll_inv H items hv {} [] (by simp [RootsInv]) rfl
  simp only [List.nil_append, List.length_nil, Nat.zero_add] at hinv hl
  have hinv' : RootsInv H 0 (a.roots.take a.roots.length) (items.map (Item.leafHash H)) := by
    simpa using hinv
  obtain ⟨slot, t, ws, h1, h2, h3, h4, h5⟩ :=
    witnessLoop_inv H hlen db a.roots a.roots.length (Nat.le_refl _) _ i hinv' (by simpa using hi)
  refine ⟨ws, ?_, ?_⟩
  · have : ¬ i ≥ a.length := by show ¬ i ≥ (addAll H {} items).length; omega
    simp only [Acc.witnessFor, this, if_false, h1]
  · have hleaf : ((items.map (Item.leafHash H)).getD i []).length = 32 := by
      have : (items.map (Item.leafHash H)).getD i [] = (items[i]).leafHash H := by
        simp [List.getD_eq_getElem?_getD, hi]
      rw [this]
      have hvi := hv items[i] (List.getElem_mem hi)
      cases hit : items[i] with
      | hash x => rw [hit] at hvi; exact hvi
      | data d => simp [Item.leafHash, hlen]
    have hslot : slot < a.roots.length := by
      rcases Nat.lt_or_ge slot a.roots.length with h | h
      · exact h
      · rw [List.getElem?_eq_none h] at h2; cases h2
    simp only [Acc.verify, verifyFold_eq H hlen ws h4 _ hleaf, h3, h5]
    have : ¬ slot ≥ a.roots.length := by omega
    simp [this, h2]

/-- **C27 (the witness returned by `AddHash`/`AddData` verifies).** After any appends, the
    witness returned when one more item is appended is accepted by `Verify` for that item's
    hash against the new roots. -/
theorem add_witness_verifies (H : Bytes → Bytes) (hlen : ∀ x, (H x).length = 32)
    (items : List Item) (hv : ∀ it ∈ items, it.Valid) (it : Item) (hit : it.Valid) :
    let r := (addAll H {} items).addNode H (it.node H)
    r.1.verify H r.2 (it.leafHash H) = .ok := by
  intro r
  obtain ⟨hinv, _⟩ := addAll_inv H items hv {} [] (by simp [RootsInv]) rfl
  simp only [List.nil_append] at hinv
  obtain ⟨wk, t', e1, e2, e3, e4⟩ := addNode_witness H hlen (addAll H {} items).roots 0 _ (it.node H)
    [it.leafHash H] [] hinv (item_isTree H it hit)
  have hleafeq : (it.node H).hashOf = it.leafHash H := by cases it <;> rfl
  have hleaf : (it.leafHash H).length = 32 := by
    rw [← hleafeq]; exact (item_isTree H it hit).hashLen hlen
  simp only [List.nil_append] at e1
  have hw : r.2 = wk := e1
  have hroots : r.1.roots = (addNode H (addAll H {} items).roots (it.node H) []).1 := rfl
  simp only [Acc.verify, hw, verifyFold_eq H hlen wk e2 _ hleaf, hroots]
  have hslot : wk.length < (addNode H (addAll H {} items).roots (it.node H) []).1.length := by
    rcases Nat.lt_or_ge wk.length (addNode H (addAll H {} items).roots (it.node H) []).1.length with h | h
    · exact h
    · rw [List.getElem?_eq_none h] at e3; cases e3
  have : ¬ wk.length ≥ (addNode H (addAll H {} items).roots (it.node H) []).1.length := by omega
  rw [hleafeq] at e4
  simp [this, e3, e4]

/-- `AddHash`/`AddData` never decrease what can be proved: the length is the number of items. -/
theorem length_eq (H : Bytes → Bytes) (items : List Item) (hv : ∀ it ∈ items, it.Valid) :
    (addAll H {} items).length = items.length := by
  have := (addAll_inv H items hv {} [] (by simp [RootsInv]) rfl).2
  simpa using this

/-- `WitnessFor` beyond the length is the `ErrNotFound` error (and nothing else). -/
theorem witness_out_of_range (H : Bytes → Bytes) (db : DB) (items : List Item)
    (hv : ∀ it ∈ items, it.Valid) (i : Nat) (hi : items.length ≤ i) :
    ∃ a', (addAll H {} items).witnessFor db i = (a', .err .notFound) := by
  have hl := length_eq H items hv
  have : i ≥ (addAll H {} items).length := by omega
  exact ⟨addAll H {} items, by simp only [Acc.witnessFor, this, if_true]⟩

theorem addAll_shape (H : Bytes → Bytes) (items : List Item) :
    ∀ (a : Acc) (n : Nat), a.roots.map Option.isSome = bitsLE n →
      (addAll H a items).roots.map Option.isSome = bitsLE (n + items.length) := by
  induction items with
  | nil => intro a n h; simpa [addAll] using h
  | cons it rest ih =>
    intro a n h
    have hstep : (a.addNode H (it.node H)).1.roots.map Option.isSome = bitsLE (n + 1) := by
      simp only [Acc.addNode]
      rw [addNode_shape, h, incBits_bitsLE]
    have := ih (a.addNode H (it.node H)).1 (n + 1) hstep
    simp only [addAll, List.foldl_cons] at *
    rw [this]; congr 1; simp; omega

/-- **C27 (binary-counter roots).** After any `n` appends, root slot `h` is occupied exactly
    when bit `h` of `n` is set (slots beyond `len(roots)` count as empty). No hypothesis on `H`
    or on the items. -/
theorem roots_shape (H : Bytes → Bytes) (items : List Item) (h : Nat) :
    (((addAll H {} items).roots.getD h none).isSome) = items.length.testBit h := by
  have hs := addAll_shape H items {} 0 (by simp [bitsLE])
  rw [Nat.zero_add] at hs
  rw [← bitsLE_testBit, ← hs]
  simp only [List.getD_eq_getElem?_getD, List.getElem?_map]
  cases (addAll H {} items).roots[h]? <;> simp

theorem verify_hashRoots (H : Bytes → Bytes) (R : List (Option Node)) (n m : Nat) (ws : List Witness) (h : Bytes) :
    ({ roots := hashRoots R, length := n } : Acc).verify H ws h =
      ({ roots := R, length := m } : Acc).verify H ws h := by
  simp only [Acc.verify, hashRoots, List.length_map, List.getElem?_map]
  split
  · rfl
  · cases R[ws.length]? with
    | none => rfl
    | some o =>
      cases o with
      | none => rfl
      | some t => rfl

/-- **C27 (persist and recover with the same witnesses).** Append any items to the empty
    accumulator, `Flush` into any bucket `db0`, and `Recover` a fresh accumulator from what was
    stored. If `H` has no collision among the values `Flush` wrote (`allPreimages`: the item data
    and the 64 byte branch serialisations — an explicit finite list), then the recovered
    accumulator has the same length and, for every index, `WitnessFor` returns exactly the
    witness the in-memory accumulator returns, and `Verify` accepts it. Without a nil-slot
    panic for any length (the repaired `flushRoots` has no failure outcome). -/
theorem recover_same_witnesses (H : Bytes → Bytes) (hlen : ∀ x, (H x).length = 32) (db0 : DB)
    (items : List Item) (hv : ∀ it ∈ items, it.Valid)
    (hn : NoColl H (allPreimages (addAll H {} items).roots)) :
    let a := addAll H {} items
    let db := (a.flush db0).2.1
    let b := recover (some (a.flush db0).2.2)
    b.length = a.length ∧
    ∀ i, i < items.length → ∃ ws,
      (a.witnessFor db i).2 = .ok ws ∧ (b.witnessFor db i).2 = .ok ws ∧
      b.verify H ws ((items.map (Item.leafHash H)).getD i []) = .ok := by
  intro a db b
  obtain ⟨hinv, hl⟩ := addAll_inv H items hv {} [] (by simp [RootsInv]) rfl
  simp only [List.nil_append, List.length_nil, Nat.zero_add] at hinv hl
  obtain ⟨e1, e2, _⟩ := flushRoots_spec H _ hn a.roots 0 _ db0 hinv (fun x hx => hx)
  have hbroots : b.roots = hashRoots a.roots := by
    show (recover (some ⟨(flushRoots a.roots db0).2.1, a.length⟩)).roots = _
    rw [e1]; exact recover_roots H hlen a.roots 0 _ _ hinv
  have hblen : b.length = a.length := rfl
  have hdb : db = (flushRoots a.roots db0).2.2 := rfl
  refine ⟨hblen, ?_⟩
  intro i hi
  obtain ⟨ws, hw, hver⟩ := witness_verifies H hlen db items hv i hi
  refine ⟨ws, by rw [hw], ?_, ?_⟩
  · have hyp : ∀ k t idx, a.roots[k]? = some (some t) → idx < 2 ^ k →
        ∃ n' ws, witnessNode db k (.hash t.hashOf) idx [] = (n', .ok ws) ∧
          witnessNode db k t idx [] = (t, .ok ws) := by
      intro k t idx hk hidx
      obtain ⟨⟨ls, ht⟩, hp⟩ := rootsInv_slot H a.roots 0 _ k t hinv hk
      rw [Nat.zero_add] at ht
      have hst : StoredAll H db t.preimages := fun x hx => by rw [hdb]; exact e2 x (hp x hx)
      obtain ⟨n', ws', h1, h2⟩ := witnessNode_hash_stored H hlen db ht hst idx [] hidx
      exact ⟨n', ws', by simpa using h1, by simpa using h2⟩
    have hloop := witnessLoop_recovered db a.roots hyp a.roots.length i
    have hge : ¬ i ≥ a.length := by show ¬ i ≥ (addAll H {} items).length; omega
    have hge' : ¬ i ≥ b.length := by rw [hblen]; exact hge
    have hwa : (a.witnessFor db i).2 = (witnessLoop db a.roots a.roots.length i).2 := by
      simp only [Acc.witnessFor, hge, if_false]
    have hwb : (b.witnessFor db i).2 = (witnessLoop db (hashRoots a.roots) a.roots.length i).2 := by
      simp only [Acc.witnessFor, hge', if_false, hbroots, hashRoots, List.length_map]
    rw [hwb, hloop, ← hwa, hw]
  · have : b = { roots := hashRoots a.roots, length := b.length } := by
      cases hb : b with
      | mk r l => rw [hb] at hbroots; simp at hbroots; simp [hbroots]
    rw [this, verify_hashRoots H a.roots b.length a.length]
    exact hver

/-- non-vacuity of `NoColl`: a hash without collision on what two items make `Flush` write -/
example : ∃ (H : Bytes → Bytes), (∀ x, (H x).length = 32) ∧
    NoColl H (allPreimages (addAll H {} [.data [1], .data [2]]).roots) :=
  ⟨fun x => (x.reverse ++ List.replicate 32 0).take 32, by intro x; simp,
    by unfold NoColl; decide⟩

/-- **F6, code as found (`WitnessFor`)**: with 5 items, index 4 lies in the range the old loop
    attributes to the empty slot 1, which it dereferences: a nil-pointer panic, for every `H`. -/
theorem old_witnessFor_panics (H : Bytes → Bytes) (db : DB) :
    ((addAll H {} [.data [0], .data [1], .data [2], .data [3], .data [4]]).witnessForOld db 4).2
      matches .panic := by
  simp [addAll, Acc.addNode, addNode, Item.node, Acc.witnessForOld, witnessLoopOld]

/-- **F6, code as found (`Flush`)**: with 2 items slot 0 is empty and `Flush` dereferences it. -/
theorem old_flush_panics (H : Bytes → Bytes) (db : DB) :
    flushRootsOld (addAll H {} [.data [0], .data [1]]).roots db = none := by
  simp [addAll, Acc.addNode, addNode, Item.node, flushRootsOld]

/-- the repaired loop on the same input succeeds (instance of `witness_verifies`) -/
theorem new_witnessFor_ok_at_5_4 (H : Bytes → Bytes) (db : DB) :
    ((addAll H {} [.data [0], .data [1], .data [2], .data [3], .data [4]]).witnessFor db 4).2
      matches .ok [] := by
  simp [addAll, Acc.addNode, addNode, Item.node, Acc.witnessFor, witnessLoop, witnessNode, mkData]

/-- non-vacuity: a hash with 32 byte output, valid items -/
example : ∃ (H : Bytes → Bytes) (items : List Item),
    (∀ x, (H x).length = 32) ∧ (∀ it ∈ items, it.Valid) ∧ 0 < items.length :=
  ⟨fun _ => List.replicate 32 0, [.data [1], .hash (List.replicate 32 7)],
    by simp, by intro it h; simp at h; rcases h with h | h <;> simp [h, Item.Valid], by simp⟩

end Goloop.C27
