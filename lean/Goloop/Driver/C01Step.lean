/-
  Driver/C01Step — line protocol around the L-val model (shared by drv_C01 and drv_C02).

  ops:  init n me | start | prop signer h r b pol | part h b | vote signer h t r v
        | tmo st | crash k | die j k <event tokens…>
  output: `h r step lockedRound locked cur pol timer | effects of this event`
-/
import Goloop.Base.Proto
import Goloop.Model.C01
namespace Goloop.Driver.C01
open Goloop Goloop.C01

def showOB : Option Blk → String
  | none => "-"
  | some b => toString b

def showCur : Cur → String
  | .zero => "z"
  | .idOnly b => s!"i{b}"
  | .full b false => s!"f{b}"
  | .full b true => s!"F{b}"

def showT : VType → String
  | .prevote => "0"
  | .precommit => "1"

def showMsg : Msg → String
  | .proposal sg h r b pol => s!"P.{sg}.{h}.{r}.{b}.{pol}"
  | .vote v => s!"V.{v.signer}.{showT v.typ}.{v.height}.{v.round}.{showOB v.val}"

def showWal : Wal → String
  | .round => "r" | .lock => "l" | .commit => "c"

def insertSorted (x : Nat) : List Nat → List Nat
  | [] => [x]
  | y :: ys => if x ≤ y then x :: y :: ys else y :: insertSorted x ys

def showRec : Rec → String
  | .msg m => showMsg m
  | .voteList [] => "L.empty"
  | .voteList (v :: vs) =>
    let signers := ((v :: vs).map (·.signer)).foldr insertSorted []
    s!"L.{showT v.typ}.{v.height}.{v.round}." ++ String.intercalate "," (signers.map toString)
  | .blockPart h b => s!"B.{h}.{b}"

def showEff : Eff → String
  | .write w r => s!"w{showWal w}:{showRec r}"
  | .sync w => s!"s{showWal w}"
  | .send m => s!"!{showMsg m}"
  | .finalize h b => s!"F.{h}.{b}"
  | .crash k => s!"X.{k}"

def showState (s : S) (fromEff : Nat) : String :=
  if s.stuck then "panic" else
  let effs := (s.eff.drop fromEff).map showEff
  if !s.started then "down |" ++ String.join (effs.map (" " ++ ·)) else
  s!"{s.height} {s.round} {s.step} {s.lockedRound} {showOB (s.locked.map (·.1))} {showCur s.cur} {s.polRound} {if s.timer then 1 else 0} |"
    ++ String.join (effs.map (" " ++ ·))

/-- run outstanding BlockManager callbacks (the harness waits for them after every event) -/
def settle (s : S) : Nat → S
  | 0 => s
  | k+1 => if s.pend == .none then s else settle (async s) k

structure DS where
  s : S := {}
  inited : Bool := false
deriving Inhabited

def parseVal (t : String) : Option (Option Blk) :=
  if t == "-" then some none else (t.toNat?).map some

/-- labels the harness knows: two candidate blocks per other validator -/
def knownBlk (s : S) (b : Blk) : Bool := (b / 8 == 1 || b / 8 == 2) && b % 8 < s.n && b % 8 != s.me

def parseEvent (s : S) : List String → Option Event
  | ["start"] => if s.started then none else some .start
  | ["prop", sg, h, r, b, pol] => do
      let sg ← sg.toNat?
      let b ← b.toNat?
      if !s.started || sg ≥ s.n || !knownBlk s b then none
      some (.proposal sg (← h.toNat?) (← r.toNat?) b (← pol.toInt?))
  | ["part", h, b] => do
      let b ← b.toNat?
      if !s.started || !knownBlk s b then none
      some (.blockPart (← h.toNat?) b)
  | ["vote", sg, h, t, r, v] => do
      let ty ← (if t == "0" then some VType.prevote else if t == "1" then some VType.precommit else none)
      let sg ← sg.toNat?
      let v ← parseVal v
      if !s.started || sg ≥ s.n then none
      match v with
      | some b => if !knownBlk s b then none
      | none => pure ()
      some (.vote ⟨sg, ← h.toNat?, ty, ← r.toNat?, v⟩)
  | ["tmo", st] => do
      let st ← st.toNat?
      if !s.started || !(st == 3 || st == 5 || st == 7) then none
      some (.timeout st)
  | _ => none

/-- one engine entry point: an `Event`, or the block-sync callback -/
def applyOp (s : S) (toks : List String) : Option S :=
  match toks with
  | ["sync", h, r, b, sgs] =>
    let sg? := (sgs.splitOn ",").mapM (·.toNat?)
    match h.toNat?, r.toNat?, b.toNat?, sg? with
    | some h, some r, some b, some sgl =>
      if !s.started || !knownBlk s b || sgl.any (· ≥ s.n) || sgl.isEmpty then none
      else some (syncBlock s h r b sgl)
    | _, _, _, _ => none
  | _ => (parseEvent s toks).map (vstep s)

partial def step (d : DS) (toks : List String) : DS × String :=
  match toks with
  | ["reset"] => ({}, "ok")
  | ["end"] => (d, "ok")
  | ["init", n, me, "f"] => step d ["init", n, me]      -- file-WAL mode of the harness: same model
  | ["crash", k, t, c] =>                               -- byte-level tail (torn / corrupt record) = absent record
    match t.toNat?, c.toNat? with
    | some _, some c => if c ≤ 1 then step d ["crash", k] else (d, "bad-op")
    | _, _ => (d, "bad-op")
  | ["init", n, me] =>
    match n.toNat?, me.toNat? with
    | some n, some me =>
      if d.inited || n < 4 || n > 7 || me ≥ n then (d, "bad-op") else
      let s : S := { n := n, me := me }
      ({ s := s, inited := true }, "ok")
    | _, _ => (d, "bad-op")
  | ["crash", k] =>
    match k.toNat? with
    | some k =>
      if !d.inited || !d.s.started then (d, "bad-op") else
      let from_ := d.s.eff.length
      let s := crash d.s d.s.eff.length k
      ({ d with s := s }, showState s from_)
    | none => (d, "bad-op")
  | "die" :: j :: k :: rest =>
    match j.toNat?, k.toNat?, applyOp d.s rest with
    | some j, some k, some s1 =>
      if !d.inited then (d, "bad-op") else
      let from_ := d.s.eff.length
      let s := settle s1 8
      let s := crash s (from_ + j) k
      ({ d with s := s }, showState s from_)
    | _, _, _ => (d, "bad-op")
  | _ =>
    match applyOp d.s toks with
    | some s1 =>
      if !d.inited then (d, "bad-op") else
      let from_ := d.s.eff.length
      let s := settle s1 8
      ({ d with s := s }, showState s from_)
    | none => (d, "bad-op")

end Goloop.Driver.C01
