import Goloop.Base.Proto
import Goloop.Model.C37
namespace Goloop.Driver.C37
open Goloop Goloop.C37

def ints : List String → Option (List Int)
  | [] => some []
  | x :: xs => match x.toInt?, ints xs with
    | some v, some r => some (v :: r)
    | _, _ => none

def takeTxs : Nat → List Int → Option (List Tx × List Int)
  | 0, l => some ([], l)
  | n + 1, id :: ts :: f :: t :: v :: sl :: sz :: rest =>
    if id < 0 ∨ f < 0 ∨ t < 0 ∨ v < 0 ∨ sl < 0 ∨ sz < 0 then none
    else match takeTxs n rest with
      | some (txs, r) => some (⟨id.toNat, ts, f.toNat, t.toNat, v.toNat, sl.toNat, sz.toNat⟩ :: txs, r)
      | none => none
  | _ + 1, _ => none

def nAccounts : Nat := 6

def showBal (b : Bal) : String :=
  (List.range nAccounts).foldl (fun acc a => acc ++ s!" {balOf b a}") ""

def step (s : Unit) (toks : List String) : Unit × String :=
  match toks with
  | ["reset"] => (s, "ok")
  | "cand" :: rest =>
    match ints rest with
    | some (bts :: th :: price :: minStep :: maxB :: maxC :: b0 :: b1 :: b2 :: b3 :: b4 :: b5 :: nF :: more) =>
      if price < 0 ∨ minStep < 0 ∨ b0 < 0 ∨ b1 < 0 ∨ b2 < 0 ∨ b3 < 0 ∨ b4 < 0 ∨ b5 < 0 ∨ nF < 0 then (s, "bad-op")
      else if more.length < nF.toNat + 1 then (s, "bad-op")
      else
        let fin := more.take nF.toNat
        match more.drop nF.toNat with
        | nT :: txtoks =>
          if nT < 0 then (s, "bad-op") else
          match takeTxs nT.toNat txtoks with
          | some (txs, []) =>
            let e : Env := ⟨bts, th, price.toNat, minStep.toNat⟩
            let bal : Bal := [(0, b0.toNat), (1, b1.toNat), (2, b2.toNat), (3, b3.toNat), (4, b4.toNat), (5, b5.toNat)]
            let has := fun (id : Nat) (_ : Int) => fin.contains (Int.ofNat id)
            let pool := poolOf txs []
            let r := candidate e has maxB maxC pool bal
            let ids := r.1.foldl (fun acc t => acc ++ s!" {t.id}") ""
            (s, s!"sel {r.1.length}{ids} size {r.2.1} bal{showBal r.2.2}")
          | _ => (s, "bad-op")
        | [] => (s, "bad-op")
    | _ => (s, "bad-op")
  | _ => (s, "bad-op")

end Goloop.Driver.C37
def main : IO Unit := Goloop.Proto.run Goloop.Driver.C37.step ()
