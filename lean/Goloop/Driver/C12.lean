/-
  Driver/C12: line protocol around Model/C12.
  The standard-library glue (JSON, base64, number text) is in Model/C12Glue.lean.
-/
import Goloop.Base.Proto
import Goloop.Base.Sha3
import Goloop.Model.C12Glue
namespace Goloop.Driver.C12
open Goloop Goloop.C12 Goloop.C12.Glue

/-! ### output -/

def hexOr (o : Option Bytes) : String :=
  match o with
  | none => "nil"
  | some b => Hex.encodeWire b

def txt (b : Bytes) : String := String.ofList (b.map fun c => Char.ofNat c.toNat)

def optTxt (o : Option Bytes) : String :=
  match o with
  | none => "-"
  | some b => txt b

def showTx (tx : TxV3) : String :=
  let d := tx.d
  s!"ok id={Hex.encodeWire (txID env tx)} raw={if tx.raw then 1 else 0} bytes={hexOr (txBytes tx)}" ++
  s!" from={txt (addrStr d.from_)} to={txt (addrStr d.to)} value={optTxt (d.value.map hexStr)}" ++
  s!" step={txt (hexStr d.stepLimit)} ts={txt (hexStr d.timestamp)} nid={optTxt (d.nid.map hexStr)}" ++
  s!" nonce={optTxt (d.nonce.map hexStr)} dtype={hexOr d.dataType} data={hexOr d.data}" ++
  s!" sig={Hex.encodeWire d.signature}"

def step (s : Unit) (toks : List String) : Unit × String :=
  let out := match toks with
  | ["reset"] => "ok"
  | ["tx", h] | ["tx", h, _] =>
    match Hex.decodeWire h with
    | none => "bad-op"
    | some js =>
      match newTransactionFromJSON env js false with
      | none => "err"
      | some tx => showTx tx
  | ["bin", h] =>
    match Hex.decodeWire h with
    | none => "bad-op"
    | some bs =>
      match newTransaction env bs with
      | none => "err"
      | some tx => showTx tx
  | ["ser", h] =>
    match Hex.decodeWire h with
    | none => "bad-op"
    | some js =>
      match pj js with
      | none => "bad-op"
      | some v =>
        match serValue v with
        | some bs => Hex.encodeWire bs
        | none => "err"
  | ["mut", _, h1, h2] =>
    match Hex.decodeWire h1, Hex.decodeWire h2 with
    | some a, some b =>
      match newTransactionFromJSON env a false, newTransactionFromJSON env b false with
      | some x, some y => if txID env x == txID env y then "same" else "diff"
      | _, _ => "err"
    | _, _ => "bad-op"
  | _ => "bad-op"
  (s, out)

end Goloop.Driver.C12
def main : IO Unit := Goloop.Proto.run Goloop.Driver.C12.step ()
