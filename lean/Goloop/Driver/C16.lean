/- C16 shares the model and the line protocol of C15 (one model for both properties). -/
import Goloop.Driver.C15Step
def main : IO Unit := Goloop.Proto.run Goloop.Driver.C15.step Goloop.Driver.C15.St.init
