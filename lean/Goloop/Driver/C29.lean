import Goloop.Base.Proto
import Goloop.Model.C29
namespace Goloop.Driver.C29
open Goloop Goloop.C29

/-- symbolic signatures of the wire protocol -/
inductive Sig where
  | good (k j : Nat)     -- `s<k>m<j>`: key k signed message j
  | flip (k j : Nat)     -- `f<k>m<j>`: same with the recovery bit flipped
  | bad                  -- `xv`/`xr`/`xs`: unrecoverable

def b2 (n : Nat) : Bytes := [UInt8.ofNat (n / 256), UInt8.ofNat n]

def addrOf (k : Nat) : Bytes := 1 :: b2 k

/-- recovery for decision hash `dh`: the instance of the model's parameter used by the
    correspondence run (secp256k1: a signature over another message, or with the other
    recovery id, recovers to an unrelated key). -/
def recFor (dh : Nat) : Sig → Option Bytes
  | .good k j => if j = dh then some (addrOf k) else some (2 :: (b2 k ++ b2 j ++ b2 dh))
  | .flip k j => some (3 :: (b2 k ++ b2 j ++ b2 dh))
  | .bad => none

def splitList (s : String) : List String := if s = "_" then [] else s.splitOn ","

def parseKM (s : String) : Option (Nat × Nat) :=
  match s.splitOn "m" with
  | [a, b] => match a.toNat?, b.toNat? with
    | some k, some j => if k < 65536 ∧ j < 65536 then some (k, j) else none
    | _, _ => none
  | _ => none

def parseSig (s : String) : Option Sig :=
  if s = "xv" ∨ s = "xr" ∨ s = "xs" then some .bad
  else match s.toList with
    | 's' :: r => (parseKM (String.ofList r)).map (fun p => Sig.good p.1 p.2)
    | 'f' :: r => (parseKM (String.ofList r)).map (fun p => Sig.flip p.1 p.2)
    | _ => none

def parseSlot (s : String) : Option (Option Sig) :=
  if s = "-" then some none else (parseSig s).map some

def parseVal (s : String) : Option Bytes :=
  if s = "n" then some [] else match s.toNat? with
    | some k => if k < 65536 then some (addrOf k) else none
    | none => none

def mapAll {α β : Type} (f : α → Option β) : List α → Option (List β)
  | [] => some []
  | x :: xs => match f x, mapAll f xs with
    | some y, some ys => some (y :: ys)
    | _, _ => none

def errStr : Err → String
  | .index => "err-index"
  | .recover => "err-recover"
  | .wrongIndex => "err-wrong-index"
  | .notValidator => "err-not-validator"
  | .duplicated => "err-duplicated"
  | .notEnough => "err-not-enough"

def pathOk (p : String) : Bool :=
  match p.toList with
  | [m, c, q] => (m = 'e' ∨ m = 'i') ∧ (c = 'k' ∨ c = 'b') ∧ (q = 'b' ∨ q = 'a')
  | _ => false

def step (s : Unit) (toks : List String) : Unit × String :=
  let out := match toks with
  | ["reset"] => "ok"
  | ["verify", path, dh, vals, sigs] =>
    match dh.toNat?, mapAll parseVal (splitList vals), mapAll parseSlot (splitList sigs) with
    | some d, some vs, some ss =>
      if ¬ pathOk path ∨ d ≥ 65536 then "bad-op"
      else if path.toList.getLast? = some 'a' ∧ ss.length > vs.length then "bad-op"
      else match verify (recFor d) vs ss with
        | none => s!"ok {present ss}"
        | some e => errStr e
    | _, _, _ => "bad-op"
  | ["part", path, dh, vals, idx, sig] =>
    match dh.toNat?, mapAll parseVal (splitList vals), idx.toInt?, parseSig sig with
    | some d, some vs, some i, some sg =>
      if ¬ pathOk path ∨ d ≥ 65536 ∨ i < -(2:Int)^31 ∨ i ≥ (2:Int)^31 then "bad-op"
      else match verifyPart (recFor d) vs i sg with
        | .ok j => s!"ok {j}"
        | .error e => errStr e
    | _, _, _, _ => "bad-op"
  | _ => "bad-op"
  (s, out)
end Goloop.Driver.C29
def main : IO Unit := Goloop.Proto.run Goloop.Driver.C29.step ()
