import Goloop.Base.Proto
import Goloop.Model.C29
namespace Goloop.Driver.C29
open Goloop Goloop.C29

/-- symbolic signatures of the wire protocol -/
inductive Sig where
  | good (k j : Nat)     -- `s<k>m<j>`: key k signed message j
  | flip (k j : Nat)     -- `f<k>m<j>`: same with the recovery bit flipped
  | bad                  -- `xv`/`xr`/`xs`: unrecoverable

def b2 (n : Nat) : Bytes := [UInt8.ofNat (n / 256), UInt8.ofNat n]

def addrOf (k : Nat) : Bytes := 1 :: b2 k

/-- recovery for decision hash `dh`: the instance of the model's parameter used by the
    correspondence run (secp256k1: a signature over another message, or with the other
    recovery id, recovers to an unrelated key). -/
def recFor (dh : Nat) : Sig → Option Bytes
  | .good k j => if j = dh then some (addrOf k) else some (2 :: (b2 k ++ b2 j ++ b2 dh))
  | .flip k j => some (3 :: (b2 k ++ b2 j ++ b2 dh))
  | .bad => none

def splitList (s : String) : List String := if s = "_" then [] else s.splitOn ","

def parseKM (s : String) : Option (Nat × Nat) :=
  match s.splitOn "m" with
  | [a, b] => match a.toNat?, b.toNat? with
    | some k, some j => if k < 65536 ∧ j < 65536 then some (k, j) else none
    | _, _ => none
  | _ => none

def parseSig (s : String) : Option Sig :=
  if s = "xv" ∨ s = "xr" ∨ s = "xs" then some .bad
  else match s.toList with
    | 's' :: r => (parseKM (String.ofList r)).map (fun p => Sig.good p.1 p.2)
    | 'f' :: r => (parseKM (String.ofList r)).map (fun p => Sig.flip p.1 p.2)
    | _ => none

def parseSlot (s : String) : Option (Option Sig) :=
  if s = "-" then some none else (parseSig s).map some

def parseVal (s : String) : Option Bytes :=
  if s = "n" then some [] else match s.toNat? with
    | some k => if k < 65536 then some (addrOf k) else none
    | none => none

def mapAll {α β : Type} (f : α → Option β) : List α → Option (List β)
  | [] => some []
  | x :: xs => match f x, mapAll f xs with
    | some y, some ys => some (y :: ys)
    | _, _ => none

def errStr : Err → String
  | .index => "err-index"
  | .recover => "err-recover"
  | .wrongIndex => "err-wrong-index"
  | .notValidator => "err-not-validator"
  | .duplicated => "err-duplicated"
  | .notEnough => "err-not-enough"

def pathOk (p : String) : Bool :=
  match p.toList with
  | [m, c, q] => (m = 'e' ∨ m = 'i') ∧ (c = 'k' ∨ c = 'b') ∧ (q = 'b' ∨ q = 'a')
  | _ => false


/-! ### proofContextMap ops -/

/-- symbolic signature for the map ops: key `k` signed decision bytes `sb` hashed by module `us` -/
inductive MSig where
  | good (k : Nat) (sb : Bytes) (us : Nat)
  | bad

def addrU (u k : Nat) : Bytes := UInt8.ofNat (u + 1) :: b2 k

def mrec (u : Nat) (db : Bytes) : MSig → Option Bytes
  | .good k sb us => if sb = db ∧ us = u then some (addrU u k) else some (9 :: b2 k)
  | .bad => none

def parseUid (s : String) : Option Nat := if s = "e" then some 0 else if s = "i" then some 1 else none

def splitSemi (s : String) : List String := if s = "_" then [] else s.splitOn ";"

def parseEntry (s : String) : Option (Int × Ctx) :=
  match s.splitOn ":" with
  | [n, u, vs] =>
    match n.toInt?, parseUid u, mapAll (fun t => if t = "n" then some none else (t.toNat?).map some) (splitList vs) with
    | some ntid, some uid, some ks =>
      some (ntid, { uid := uid, vals := ks.map (fun k => match k with | none => [] | some k => addrU uid k) })
    | _, _, _ => none
  | _ => none

def lookup (es : List (Int × Ctx)) (n : Int) : Option Ctx :=
  match es.find? (fun e => e.1 == n) with
  | some e => some e.2
  | none => none

def hexOpt (s : String) : Option (Option Bytes) :=
  if s = "n" then some none else (Hex.decodeWire s).map some

def parseDigest (s : String) : Option (Int × Option Bytes) :=
  match s.splitOn ":" with
  | [n, h] => match n.toInt?, hexOpt h with
    | some ntid, some hh => some (ntid, hh)
    | _, _ => none
  | _ => none

/-- `s<k>d<j>` / `s<k>d<j>+` -/
def parseMSlot (es : List (Int × Ctx)) (ds : List (Int × Option Bytes)) (src : Option Bytes)
    (height round : Int) (s : String) : Option (Option MSig) :=
  if s = "-" then some none
  else if s = "xv" ∨ s = "xr" ∨ s = "xs" then some (some .bad)
  else match s.toList with
    | 's' :: r =>
      let plus := r.getLast? = some '+'
      let body := String.ofList (if plus then r.dropLast else r)
      match body.splitOn "d" with
      | [k, j] => match k.toNat?, j.toNat? with
        | some k, some j =>
          match ds[j]? with
          | some (ntid, h) =>
            let us := match lookup es ntid with | some c => c.uid | none => 0
            let d : Decision := { src := src, ntid := ntid, height := if plus then height + 1 else height,
                                  round := round, ntsHash := h }
            some (some (.good k d.bytes us))
          | none => none
        | _, _ => none
      | _ => none
    | _ => none

/-- a proof on the wire: `X` undecodable, `E` empty vector, else comma list of slots; the model's
    `decode` is the identity on an index into this table. -/
def parseMProof (es : List (Int × Ctx)) (ds : List (Int × Option Bytes)) (src : Option Bytes)
    (height round : Int) (s : String) : Option (Option (List (Option MSig))) :=
  if s = "X" then some none
  else if s = "E" then some (some [])
  else (mapAll (parseMSlot es ds src height round) (s.splitOn ",")).map some

def inI64 (v : Int) : Bool := -(2:Int)^63 ≤ v ∧ v < (2:Int)^63
def inI32 (v : Int) : Bool := -(2:Int)^31 ≤ v ∧ v < (2:Int)^31

def mapErrStr : MapErr → String
  | .invalidLen => "err-len"
  | .newProof i => s!"err-newproof {i}"
  | .verify i e => s!"err-verify {i} {errStr e}"

def distinctKeys (es : List (Int × Ctx)) : Bool :=
  (es.map (·.1)).eraseDups.length == es.length

def stepMap0 (toks : List String) : Option String :=
  match toks with
  | ["mv", pcm, src, height, round, digests, proofs] =>
    match mapAll parseEntry (splitSemi pcm), hexOpt src, height.toInt?, round.toInt?,
        mapAll parseDigest (splitSemi digests) with
    | some es, some sr, some hg, some rd, some ds =>
      if ¬ inI64 hg ∨ ¬ inI32 rd ∨ ¬ distinctKeys es ∨ ds.any (fun d => ¬ inI64 d.1) then some "bad-op" else
      match mapAll (parseMProof es ds sr hg rd) (splitSemi proofs) with
      | some ps =>
        -- proofs are passed to the model as one-byte indices into `ps`
        if ps.length ≥ 250 then some "bad-op" else
        let table : Bytes → Option (List (Option MSig)) := fun b =>
          match b with
          | [i] => (ps[i.toNat]?).getD none
          | _ => none
        let pbytes : List Bytes := (List.range ps.length).map (fun i => [UInt8.ofNat i])
        some (match verifyMap (lookup es) table mrec sr hg rd ds pbytes with
          | none => "ok"
          | some e => mapErrStr e)
      | none => some "bad-op"
    | _, _, _, _, _ => some "bad-op"
  | ["dec", src, ntid, height, round, h] =>
    match hexOpt src, ntid.toInt?, height.toInt?, round.toInt?, hexOpt h with
    | some sr, some nt, some hg, some rd, some hh =>
      if ¬ inI64 nt ∨ ¬ inI64 hg ∨ ¬ inI32 rd then some "bad-op"
      else some (Hex.encodeWire (Decision.bytes { src := sr, ntid := nt, height := hg, round := rd, ntsHash := hh }))
    | _, _, _, _, _ => some "bad-op"
  | ["pcfor", pcm, ntid] =>
    match mapAll parseEntry (splitSemi pcm), ntid.toInt? with
    | some es, some nt =>
      if ¬ distinctKeys es then some "bad-op" else
      some (match lookup es nt with
        | some c => s!"ok {c.uid}:{c.vals.length}"
        | none => "err-notfound")
    | _, _ => some "bad-op"
  | _ => none

def stepMap (toks : List String) : Option String :=
  match toks with
  | ["mvu", pcm, src, height, round, digests, proofs, upd] =>
    -- the vote verified, the map Updated (inactivated/changed network types), the SAME map
    -- verifies again: Update returns a new map and never changes the receiver
    match stepMap0 ["mv", pcm, src, height, round, digests, proofs], mapAll parseEntry (splitSemi pcm),
        upd.splitOn "/" with
    | some r, some es, [ina, chg] =>
      if r = "bad-op" then some "bad-op" else
      let ids := fun (t : String) => mapAll (fun (x : String) => x.toInt?) (splitList t)
      match ids ina, ids chg with
      | some inact, some changed =>
        let kept := es.filter (fun e => ¬ inact.contains e.1)
        let strs := kept.map (fun e => s!"{e.1}:{e.2.vals.length + (if changed.contains e.1 then 1 else 0)}")
        some (r ++ " | " ++ r ++ " | new " ++ (if strs.isEmpty then "-" else ",".intercalate strs))
      | _, _ => some "bad-op"
    | _, _, _ => some "bad-op"
  | _ => stepMap0 toks

def step (s : Unit) (toks : List String) : Unit × String :=
  let out := match stepMap toks with
  | some o => o
  | none => match toks with
  | ["reset"] => "ok"
  | ["verify", path, dh, vals, sigs] =>
    match dh.toNat?, mapAll parseVal (splitList vals), mapAll parseSlot (splitList sigs) with
    | some d, some vs, some ss =>
      if ¬ pathOk path ∨ d ≥ 65536 then "bad-op"
      else if path.toList.getLast? = some 'a' ∧ ss.length > vs.length then "bad-op"
      else match verify (recFor d) vs ss with
        | none => s!"ok {present ss}"
        | some e => errStr e
    | _, _, _ => "bad-op"
  | ["part", path, dh, vals, idx, sig] =>
    match dh.toNat?, mapAll parseVal (splitList vals), idx.toInt?, parseSig sig with
    | some d, some vs, some i, some sg =>
      if ¬ pathOk path ∨ d ≥ 65536 ∨ i < -(2:Int)^31 ∨ i ≥ (2:Int)^31 then "bad-op"
      else match verifyPart (recFor d) vs i sg with
        | .ok j => s!"ok {j}"
        | .error e => errStr e
    | _, _, _, _ => "bad-op"
  | _ => "bad-op"
  (s, out)
/-- stateful ops: ONE proof context object is kept (`ctx`) and used for many `cverify`/`cpart`
    with different decisions. The model's context is stateless: the answer depends only on the
    validators and the current proof. -/
def step2 (s : Option (String × String)) (toks : List String) : Option (String × String) × String :=
  match toks with
  | ["reset"] => (none, "ok")
  | ["ctx", p2, vals] =>
    if (p2 = "ek" ∨ p2 = "eb" ∨ p2 = "ik" ∨ p2 = "ib") ∧ (mapAll parseVal (splitList vals)).isSome
    then (some (p2, vals), "ok") else (s, "bad-op")
  | ["cverify", pm, dh, sigs] =>
    match s with
    | some (p2, vals) => if pm = "a" ∨ pm = "b" then (s, (step () ["verify", p2 ++ pm, dh, vals, sigs]).2) else (s, "bad-op")
    | none => (s, "bad-op")
  | ["cpart", pm, dh, idx, sig] =>
    match s with
    | some (p2, vals) => if pm = "a" ∨ pm = "b" then (s, (step () ["part", p2 ++ pm, dh, vals, idx, sig]).2) else (s, "bad-op")
    | none => (s, "bad-op")
  | _ => (s, (step () toks).2)

end Goloop.Driver.C29
def main : IO Unit := Goloop.Proto.run Goloop.Driver.C29.step2 none
