import Goloop.Base.Proto
import Goloop.Model.C04
namespace Goloop.Driver.C04
open Goloop Goloop.C04

def joinOr (xs : List String) (sep : String) : String :=
  if xs.isEmpty then "-" else sep.intercalate xs

def showMi : Option Nat → String
  | none => "-1"
  | some i => toString i

def showSlot : Option Vote → String
  | none => "_"
  | some v => s!"{v.h}/{v.r}/{v.t}/{v.d}/{v.ts}"

def dump (s : VS) : String :=
  let ctr := joinOr (s.counters.map (fun c => s!"{c.d}:{c.cnt}")) ","
  let mask := joinOr (s.mask.map (fun b => if b then "1" else "0")) ""
  let slots := joinOr (s.slots.map showSlot) ","
  s!"mi={showMi s.maxIndex} cnt={s.count} rnd={s.round} ctr={ctr} mask={mask} slots={slots}"

def step (s : VS) (toks : List String) : VS × String :=
  match toks with
  | ["reset"] => (C04.new 0, "ok")
  | ["new", n] => match n.toNat? with
    | some n => if n ≤ 64 then (C04.new n, "ok") else (s, "bad-op")
    | none => (s, "bad-op")
  | ["add", i, h, r, t, d, ts] =>
    match i.toNat?, h.toNat?, r.toInt?, t.toNat?, d.toNat?, ts.toInt? with
    | some i, some h, some r, some t, some d, some ts =>
      match add s i { h := h, r := r, t := t, d := d, ts := ts } with
      | none => (s, "panic")
      | some (s', b) => (s', (if b then "1 " else "0 ") ++ dump s')
    | _, _, _, _, _, _ => (s, "bad-op")
  | ["get"] =>
    let r := getDecision s
    let o := match r.2 with
      | Dec.decided d => s!"dec {d}"
      | Dec.no => "no"
      | Dec.panic => "panic"
    if r.2 = Dec.panic then (s, "panic") else (r.1, s!"{o} mi={showMi r.1.maxIndex}")
  | ["has"] => (s, if hasOverTwoThirds s then "1" else "0")
  | _ => (s, "bad-op")

end Goloop.Driver.C04
def main : IO Unit := Goloop.Proto.run Goloop.Driver.C04.step (Goloop.C04.new 0)
