import Goloop.Base.Proto
import Goloop.Model.C10
namespace Goloop.Driver.C10
open Goloop Goloop.C10

def attOf : Char → Option Att
  | 'o' => some .ok
  | 'e' => some .efail
  | 'c' => some .crerun
  | 'x' => some .fatal
  | 'T' => some .tendFatal
  | 'E' => some .tendRetry
  | 'h' => some .hfail
  | _ => none

def specOf (s : String) : Option Tx :=
  let cs := s.toList
  let (prep, rest) := match cs with
    | 'p' :: r => (true, r)
    | _ => (false, cs)
  if rest.isEmpty then none
  else (rest.mapM attOf).map (fun atts => { prep := prep, atts := atts })

def showErr (e : Err) : String :=
  if e.2 = prepCode then s!"err {e.1}:p" else s!"err {e.1}:{e.2}"

def showRes : Result → String
  | .ok buf => buf.foldl (fun acc r => acc ++ (match r with | some k => s!" {k}" | none => " -")) "ok"
  | .error e => showErr e
  | .stuck => "stuck"

def isErr : Result → Bool
  | .error _ => true
  | _ => false

def run (free : Bool) (level n : Nat) (rest : List String) : String :=
  if n > 64 ∨ level > 16 ∨ rest.length < n + 1 then "bad-op"
  else if rest.getD n "" ≠ "s" then "bad-op"
  else
    match (rest.take n).mapM specOf, (rest.drop (n + 1)).mapM String.toNat? with
    | some txs, some sched =>
      let r := execTxs txs level true sched
      let x := execCount txs level true sched
      if free && level > 1 && isErr r then "err x=0 | err"
      else s!"{showRes r} x={x} | {showRes r}"
    | _, _ => "bad-op"

def step (s : Unit) (toks : List String) : Unit × String :=
  let out := match toks with
  | ["reset"] => "ok"
  | op :: l :: n :: rest =>
    if op = "exec" ∨ op = "free" then
      match l.toNat?, n.toNat? with
      | some level, some n => run (op = "free") level n rest
      | _, _ => "bad-op"
    else "bad-op"
  | _ => "bad-op"
  (s, out)
end Goloop.Driver.C10
def main : IO Unit := Goloop.Proto.run Goloop.Driver.C10.step ()
