import Goloop.Base.Proto
import Goloop.Model.C34
namespace Goloop.Driver.C34
open Goloop Goloop.C34

def parseVote (s : String) : Option (Nat × Int) :=
  match s.splitOn ":" with
  | [k, a] => match k.toNat?, a.toInt? with
    | some k, some a => some (k, a)
    | _, _ => none
  | _ => none

def parseVotes (s : String) : Option Votes :=
  if s == "-" then some [] else (s.splitOn ",").mapM parseVote

def showVotes (vs : Votes) : String :=
  if vs.isEmpty then "-" else ",".intercalate (vs.map (fun v => s!"{v.1}:{v.2}"))

def insertBy (u : Nat × Int × Int) : List (Nat × Int × Int) → List (Nat × Int × Int)
  | [] => [u]
  | x :: xs => if u.1 < x.1 then u :: x :: xs else x :: insertBy u xs

def digestAcct (a : Account) : String :=
  let us := ",".intercalate (a.unstakes.map (fun u => s!"{u.1}@{u.2}"))
  let ub := ",".intercalate ((a.unbonds.foldr insertBy []).map (fun u => s!"{u.1}:{u.2.1}@{u.2.2}"))
  s!"{a.balance} {a.stake} [{us}] {showVotes a.delegs} {showVotes a.bonds} [{ub}]"

def okStr (oks : List Bool) : String :=
  if oks.isEmpty then "done" else ",".intercalate (oks.map (fun ok => if ok then "done" else "fail"))

def digest (w : World) (oks : List Bool) : String :=
  okStr oks ++ s!" h={w.height}" ++
  String.join (w.accts.map (fun a => " | " ++ digestAcct a)) ++
  s!" | TS={w.totalStake} TD={w.totalDeleg} TB={w.totalBond}"

/-- who may bond to whom in the harness environment (bonder lists are parameters of the model):
    actor 5 is in the bonder lists of P-Reps 0,1,2; actor 6 of P-Reps 1,0; actor 7 = P-Rep 0 itself -/
def mayBond (i : Nat) (bs : Votes) : Bool :=
  bs.all (fun b => (i == 5 && (b.1 == 0 || b.1 == 1 || b.1 == 2)) || (i == 6 && (b.1 == 1 || b.1 == 0)) ||
    (i == 7 && b.1 == 0))

structure St where
  w : World := {}
  ready : Bool := false

def runTxs (s : St) (txs : List Tx) : St × String :=
  let (w', oks) := block s.w txs
  ({ s with w := w' }, digest w' oks)

def runTx (s : St) (tx : Tx) : St × String := runTxs s [tx]

def idle : Nat → World → World
  | 0, w => w
  | n + 1, w => idle n (block w []).1

def step (s : St) (toks : List String) : St × String :=
  match toks with
  | ["reset"] => ({}, "ok")
  | ["init", h, lock, slot, ubp, ts, td, tb] =>
    match h.toInt?, lock.toInt?, slot.toNat?, ubp.toInt?, ts.toInt?, td.toInt?, tb.toInt? with
    | some h, some lock, some slot, some ubp, some ts, some td, some tb =>
      ({ w := { height := h, lock := lock, slotMax := slot, unbondPeriod := ubp, totalStake := ts, totalDeleg := td,
                totalBond := tb, registered := fun k => decide (k < 7), active := fun k => decide (k < 7) }, ready := true }, "ok")
    | _, _, _, _, _, _, _ => (s, "bad-op")
  | ["acct", i, bal, stake, ds, bs] =>
    if !s.ready then (s, "bad-op") else
    match i.toNat?, bal.toInt?, stake.toInt?, parseVotes ds, parseVotes bs with
    | some i, some bal, some stake, some ds, some bs =>
      if i != s.w.accts.length || i ≥ 8 then (s, "bad-op") else
      ({ s with w := { s.w with accts := s.w.accts ++ [{ balance := bal, stake := stake, delegs := ds, bonds := bs }] } }, "ok")
    | _, _, _, _, _ => (s, "bad-op")
  | ["idle", n] =>
    if !s.ready then (s, "bad-op") else
    match n.toNat? with
    | some n => if n > 1000 then (s, "bad-op") else
      let w' := idle n s.w
      ({ s with w := w' }, digest w' [])
    | none => (s, "bad-op")
  | ["stake", i, v] =>
    if !s.ready then (s, "bad-op") else
    match i.toNat?, v.toInt? with
    | some i, some v => if i ≥ s.w.accts.length then (s, "bad-op") else runTx s (Tx.stake i v)
    | _, _ => (s, "bad-op")
  | ["stake2", i, v1, v2] =>
    if !s.ready then (s, "bad-op") else
    match i.toNat?, v1.toInt?, v2.toInt? with
    | some i, some v1, some v2 =>
      if i ≥ s.w.accts.length then (s, "bad-op") else runTxs s [Tx.stake i v1, Tx.stake i v2]
    | _, _, _ => (s, "bad-op")
  | ["deleg", i, vs] =>
    if !s.ready then (s, "bad-op") else
    match i.toNat?, parseVotes vs with
    | some i, some vs =>
      if i ≥ s.w.accts.length || vs.any (fun v => v.1 ≥ 13) then (s, "bad-op") else runTx s (Tx.deleg i vs)
    | _, _ => (s, "bad-op")
  | ["bond", i, vs] =>
    if !s.ready then (s, "bad-op") else
    match i.toNat?, parseVotes vs with
    | some i, some vs =>
      if i ≥ s.w.accts.length || vs.any (fun v => v.1 ≥ 13) then (s, "bad-op") else runTx s (Tx.bond i vs (mayBond i vs))
    | _, _ => (s, "bad-op")
  | ["regprep", i, fee] =>
    -- actor i (one of the five fresh accounts, vote target 8+i) registers as a P-Rep
    if !s.ready then (s, "bad-op") else
    match i.toNat?, fee.toInt? with
    | some i, some fee => if i ≥ 5 || i ≥ s.w.accts.length then (s, "bad-op") else runTx s (Tx.regPRep i (8 + i) fee)
    | _, _ => (s, "bad-op")
  | ["slash", k, rate, applied] =>
    -- one block setting the slashing rate, one block with a double-sign penalty of P-Rep k (0 or 1)
    if !s.ready then (s, "bad-op") else
    match k.toNat?, rate.toInt? with
    | some k, some rate =>
      if k ≥ 2 || rate < 1 || rate ≥ 10000 then (s, "bad-op") else
      let w1 := (block s.w []).1
      let w2 := penaltyBlock w1 k rate (if k == 0 then [5, 7, 6] else [6, 5]) (applied == "1")
      ({ s with w := w2 }, digest w2 [true])
    | _, _ => (s, "bad-op")
  | ["xfer", i, j, v] =>
    if !s.ready then (s, "bad-op") else
    match i.toNat?, j.toNat?, v.toInt? with
    | some i, some j, some v =>
      if i ≥ s.w.accts.length || j ≥ s.w.accts.length then (s, "bad-op") else runTx s (Tx.xfer i j v)
    | _, _, _ => (s, "bad-op")
  | ["claim", i, icx, ok] =>
    if !s.ready then (s, "bad-op") else
    match i.toNat?, icx.toInt? with
    | some i, some icx => if i ≥ s.w.accts.length then (s, "bad-op") else runTx s (Tx.claim i icx (ok == "1"))
    | _, _ => (s, "bad-op")
  | _ => (s, "bad-op")

end Goloop.Driver.C34
def main : IO Unit := Goloop.Proto.run Goloop.Driver.C34.step {}
