import Goloop.Base.Proto
import Goloop.Base.Sha3
import Goloop.Model.C21
namespace Goloop.Driver.C21
open Goloop Goloop.C21

def H : Bytes → Bytes := Goloop.sha3_256

def inI64 (v : Int) : Bool := -(2:Int)^63 ≤ v ∧ v < (2:Int)^63

def parsePart (s : String) : Option Part :=
  match s.splitOn ":" with
  | ["b", "0"] => some (.bool false)
  | ["b", "1"] => some (.bool true)
  | ["i", x] => match x.toInt? with
    | some v => if inI64 v then some (.int v) else none
    | none => none
  | ["i64", x] => match x.toInt? with
    | some v => if inI64 v then some (.int v) else none
    | none => none
  | ["i32", x] => match x.toInt? with
    | some v => if -(2:Int)^31 ≤ v ∧ v < (2:Int)^31 then some (.int v) else none
    | none => none
  | ["i16", x] => match x.toInt? with
    | some v => if -(2:Int)^15 ≤ v ∧ v < (2:Int)^15 then some (.int v) else none
    | none => none
  | ["g", x] => x.toInt?.map .big
  | ["x", x] => x.toInt?.map .big
  | ["s", h] => (Hex.decodeWire h).map .str
  | ["B", h] => (Hex.decodeWire h).map .str
  | ["y", h] => match Hex.decodeWire h with
    | some [b] => some (.byte b)
    | _ => none
  | ["a", c, h] => match Hex.decodeWire h with
    | some id => if id.length = 20 ∧ (c == "0" || c == "1") then some (.addr (c == "1") id) else none
    | none => none
  | ["v", h] => (Hex.decodeWire h).map .value
  | _ => none

def parseParts (s : String) : Option (List Part) :=
  if s == "_" then some []
  else (s.splitOn ";").mapM parsePart

def slotKB (kbs : List (Nat × KB)) (n : Nat) : Option KB := (kbs.find? (fun p => p.1 == n)).map (·.2)

def parseKB (kbs : List (Nat × KB)) (s : String) : Option (Option KB) :=
  match s.splitOn "/" with
  | [] => none
  | t :: groups =>
    match groups.mapM parseParts with
    | none => none
    | some gs =>
      let gsb := gs.map (fun g => g.map toBytes)
      if t.startsWith "@" then
        -- a builder kept in a slot, followed by Append groups
        match (t.drop 1).toNat? with
        | none => none
        | some n =>
          match slotKB kbs n with
          | none => none
          | some kb => some (some (gsb.foldl (fun kb g => kb.append g) kb))
      else
      let base : Option (Option KB) :=
        match gsb with
        | [] => none
        | g0 :: _ =>
          if t == "H" then some (toKey .hash g0)
          else if t == "P" then some (toKey .phash g0)
          else if t == "R" then some (toKey .rlp g0)
          else if t == "W" then some (toKey .raw g0)
          else match t.splitOn ":" with
            | ["N", h] => (Hex.decodeWire h).map (fun pre => some (newHashKey pre g0))
            | _ => none
      match base with
      | none => none
      | some none => some none
      | some (some kb) => some (some ((gsb.drop 1).foldl (fun kb g => kb.append g) kb))

def showV : Option Bytes → String
  | none => "nil"
  | some b => Hex.encodeWire b

def insertSorted (e : String) : List String → List String
  | [] => [e]
  | x :: r => if e < x then e :: x :: r else x :: insertSorted e r

def dumpStore (s : Store) : String :=
  let es := s.foldl (fun acc e => insertSorted (Hex.encodeWire e.1 ++ "=" ++ Hex.encodeWire e.2) acc) []
  if es.isEmpty then "empty" else ",".intercalate es

/-- run `f` on a parsed key builder; a `ToKey` panic prints `panic` -/
def withKB (kbs : List (Nat × KB)) (s : Store) (spec : String) (f : KB → Store × String) : Store × String :=
  match parseKB kbs spec with
  | none => (s, "bad-op")
  | some none => (s, "panic")
  | some (some kb) => f kb

def stepCore (kbs : List (Nat × KB)) (s : Store) (toks : List String) : Store × String :=
  match toks with
  | ["reset"] => ([], "ok")
  | ["tobytes", p] => match parsePart p with
    | some p => (s, Hex.encodeWire (toBytes p))
    | none => (s, "bad-op")
  | ["append", pre, ps] => match Hex.decodeWire pre, parseParts ps with
    | some pre, some ps => (s, Hex.encodeWire (appendKeys pre ps))
    | _, _ => (s, "bad-op")
  | ["rawappend", pre, ps] => match Hex.decodeWire pre, parseParts ps with
    | some pre, some ps => (s, Hex.encodeWire (appendRawKeys pre ps))
    | _, _ => (s, "bad-op")
  | ["split", h] => match Hex.decodeWire h with
    | some b => match splitKeys b with
      | some ps => (s, "ok " ++ (if ps.isEmpty then "_" else ";".intercalate (ps.map Hex.encodeWire)))
      | none => (s, "err")
    | none => (s, "bad-op")
  | ["build", kb] => withKB kbs s kb (fun kb => (s, Hex.encodeWire (kb.build H)))
  | ["vget", kb] => withKB kbs s kb (fun kb => (s, showV (varGet H s kb)))
  | ["vset", kb, p] => match parsePart p with
    | some p => withKB kbs s kb (fun kb => (varSet H s kb (toBytes p), "ok"))
    | none => (s, "bad-op")
  | ["vdel", kb] => withKB kbs s kb (fun kb => let r := varDel H s kb; (r.1, showV r.2))
  | ["asize", kb] => withKB kbs s kb (fun kb => match arrSize H s kb with
    | some n => (s, s!"{n}")
    | none => (s, "panic"))
  | ["aget", kb, i] => match i.toInt? with
    | some i => if inI64 i then withKB kbs s kb (fun kb => (s, showV (arrGet H s kb i))) else (s, "bad-op")
    | none => (s, "bad-op")
  | ["aset", kb, i, p] => match i.toInt?, parsePart p with
    | some i, some p =>
      if inI64 i then withKB kbs s kb (fun kb => match arrSet H s kb i (toBytes p) with
        | some (s', ok) => (s', if ok then "ok" else "err")
        | none => (s, "panic"))
      else (s, "bad-op")
    | _, _ => (s, "bad-op")
  | ["aput", kb, p] => match parsePart p with
    | some p => withKB kbs s kb (fun kb => match arrPut H s kb (toBytes p) with
      | some s' => (s', "ok")
      | none => (s, "panic"))
    | none => (s, "bad-op")
  | ["apop", kb] => withKB kbs s kb (fun kb => match arrPop H s kb with
    | some (s', none) => (s', "none")
    | some (s', some ov) => (s', showV ov)
    | none => (s, "panic"))
  | ["dget", kb, d, ks] => match d.toInt?, parseParts ks with
    | some d, some ks => withKB kbs s kb (fun kb => (s, showV (dictGet H s ⟨kb, d⟩ (ks.map toBytes))))
    | _, _ => (s, "bad-op")
  | ["dset", kb, d, ks, p] => match d.toInt?, parseParts ks, parsePart p with
    | some d, some ks, some p => withKB kbs s kb (fun kb =>
        let r := dictSet H s ⟨kb, d⟩ (ks.map toBytes) (toBytes p); (r.1, if r.2 then "ok" else "err"))
    | _, _, _ => (s, "bad-op")
  | ["ddel", kb, d, ks] => match d.toInt?, parseParts ks with
    | some d, some ks => withKB kbs s kb (fun kb =>
        let r := dictDel H s ⟨kb, d⟩ (ks.map toBytes); (r.1, if r.2 then "ok" else "err"))
    | _, _ => (s, "bad-op")
  | ["dsub", kb, d, ks1, ks2] => match d.toInt?, parseParts ks1, parseParts ks2 with
    | some d, some ks1, some ks2 => withKB kbs s kb (fun kb =>
        match dictGetDB ⟨kb, d⟩ (ks1.map toBytes) with
        | none => (s, "nodb")
        | some d2 => (s, showV (dictGet H s d2 (ks2.map toBytes))))
    | _, _, _ => (s, "bad-op")
  | ["dump"] => (s, dumpStore s)
  | _ => (s, "bad-op")
structure St where
  store : Store
  kbs : List (Nat × KB)
  /-- kept `*DictDB` objects; `none` = a nil result of `GetDB` -/
  dicts : List (Nat × Option Dict)
  /-- kept `*ArrayDB` / `*VarDB` objects: in the model a handle is just its key builder -/
  handles : List (Nat × KB)
  snap : Option Store

def init : St := { store := [], kbs := [], dicts := [], handles := [], snap := none }

/-- handle operation → the stateless operation on the handle's builder -/
def handleOp (op : String) : Option String :=
  match op with
  | "hasize" => some "asize" | "haget" => some "aget" | "haset" => some "aset"
  | "haput" => some "aput" | "hapop" => some "apop"
  | "hvget" => some "vget" | "hvset" => some "vset" | "hvdel" => some "vdel"
  | _ => none

def slotDict (ds : List (Nat × Option Dict)) (n : Nat) : Option (Option Dict) :=
  (ds.find? (fun p => p.1 == n)).map (·.2)

def step (st : St) (toks : List String) : St × String :=
  match toks with
  | ["reset"] => (init, "ok")
  | ["kbnew", n, spec] =>
    match n.toNat? with
    | none => (st, "bad-op")
    | some n =>
      match parseKB st.kbs spec with
      | none => (st, "bad-op")
      | some none => (st, "panic")
      | some (some kb) =>
        ({ st with kbs := (n, kb) :: st.kbs.filter (fun p => p.1 != n) }, Hex.encodeWire (kb.build H))
  | ["dnew", n, spec, d] =>
    match n.toNat?, d.toInt? with
    | some n, some d =>
      match parseKB st.kbs spec with
      | none => (st, "bad-op")
      | some none => (st, "panic")
      | some (some kb) =>
        ({ st with dicts := (n, some ⟨kb, d⟩) :: st.dicts.filter (fun p => p.1 != n) }, "ok")
    | _, _ => (st, "bad-op")
  | ["dgetdb", n2, n, ks] =>
    match n2.toNat?, n.toNat?, parseParts ks with
    | some n2, some n, some ks =>
      match slotDict st.dicts n with
      | none => (st, "bad-op")
      | some none => (st, "nodb")
      | some (some d) =>
        let r := dictGetDB d (ks.map toBytes)
        ({ st with dicts := (n2, r) :: st.dicts.filter (fun p => p.1 != n2) }, if r.isSome then "ok" else "nodb")
    | _, _, _ => (st, "bad-op")
  | ["sdget", n, ks] =>
    match n.toNat?, parseParts ks with
    | some n, some ks =>
      match slotDict st.dicts n with
      | none => (st, "bad-op")
      | some none => (st, "nodb")
      | some (some d) => (st, showV (dictGet H st.store d (ks.map toBytes)))
    | _, _ => (st, "bad-op")
  | ["sdset", n, ks, p] =>
    match n.toNat?, parseParts ks, parsePart p with
    | some n, some ks, some p =>
      match slotDict st.dicts n with
      | none => (st, "bad-op")
      | some none => (st, "nodb")
      | some (some d) =>
        let r := dictSet H st.store d (ks.map toBytes) (toBytes p)
        ({ st with store := r.1 }, if r.2 then "ok" else "err")
    | _, _, _ => (st, "bad-op")
  | ["sddel", n, ks] =>
    match n.toNat?, parseParts ks with
    | some n, some ks =>
      match slotDict st.dicts n with
      | none => (st, "bad-op")
      | some none => (st, "nodb")
      | some (some d) =>
        let r := dictDel H st.store d (ks.map toBytes)
        ({ st with store := r.1 }, if r.2 then "ok" else "err")
    | _, _ => (st, "bad-op")
  | ["hnew", n, spec] =>
    match n.toNat? with
    | none => (st, "bad-op")
    | some n =>
      match parseKB st.kbs spec with
      | none => (st, "bad-op")
      | some none => (st, "panic")
      | some (some kb) => ({ st with handles := (n, kb) :: st.handles.filter (fun p => p.1 != n) }, "ok")
  | ["snap"] => ({ st with snap := some st.store }, "ok")
  | ["rollback"] =>
    match st.snap with
    | some s => ({ st with store := s }, "ok")
    | none => (st, "bad-op")
  | op :: n :: args =>
    match handleOp op, n.toNat? with
    | some core, some n =>
      match slotKB st.handles n with
      | none => (st, "bad-op")
      | some kb =>
        let r := stepCore [(0, kb)] st.store (core :: "@0" :: args)
        ({ st with store := r.1 }, r.2)
    | some _, none => (st, "bad-op")
    | none, _ =>
      let r := stepCore st.kbs st.store toks
      ({ st with store := r.1 }, r.2)
  | _ =>
    let r := stepCore st.kbs st.store toks
    ({ st with store := r.1 }, r.2)
end Goloop.Driver.C21
def main : IO Unit := Goloop.Proto.run Goloop.Driver.C21.step Goloop.Driver.C21.init
