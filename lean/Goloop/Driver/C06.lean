import Goloop.Base.Proto
import Goloop.Model.C06
namespace Goloop.Driver.C06
open Goloop Goloop.C06

/-- vote descriptor `s,h,r,t,kind,nid,blk,ps,ts,u` (kind `n` = nil vote, `b` = block vote;
    `u` = unsigned part: 0 none, k>0 one NTS vote base with section hash k; a block vote with
    u>0 states NTS vote count 1 in its signed app data) -/
def parseVote (s : String) : Option Vote :=
  match s.splitOn "," with
  | [sg, h, r, t, k, nid, blk, ps, ts, u] =>
    match sg.toNat?, h.toInt?, r.toInt?, t.toNat?, nid.toNat?, blk.toNat?, ps.toNat?, ts.toInt?, u.toNat? with
    | some sg, some h, some r, some t, some nid, some blk, some ps, some ts, some u =>
      if k == "n" then
        -- a nil vote signs only (h, r, t, BlockID = nid, ts): block / part set are absent
        if blk == 0 && ps == 0 then
          some { signer := sg, u := u, c := { h := h, r := r, t := t, isNil := true, nid := nid, blk := 0, ps := 0, ts := ts } }
        else none
      else if k == "b" then
        some { signer := sg, u := u, c := { h := h, r := r, t := t, isNil := false, nid := nid, blk := blk, ps := ps, ts := ts,
                                             ntsCnt := if u > 0 then 1 else 0 } }
      else none
    | _, _, _, _, _, _, _, _, _ => none
  | _ => none

/-- proposal descriptor `s,h,r,nid,ps,pol` -/
def parseProp (s : String) : Option Proposal :=
  match s.splitOn "," with
  | [sg, h, r, nid, ps, pol] =>
    match sg.toNat?, h.toInt?, r.toInt?, nid.toNat?, ps.toNat?, pol.toInt? with
    | some sg, some h, some r, some nid, some ps, some pol =>
      some { signer := sg, c := { h := h, r := r, nid := nid, ps := ps, pol := pol } }
    | _, _, _, _, _, _ => none
  | _ => none

def parseDS (kind s : String) : Option DS :=
  if kind == "v" then (parseVote s).map DS.vote
  else if kind == "p" then (parseProp s).map DS.prop
  else none

def showDS : DS → String
  | DS.vote v => s!"v {v.signer},{v.c.h},{v.c.r},{v.c.t},{if v.c.isNil then "n" else "b"},{v.c.nid},{v.c.blk},{v.c.ps},{v.c.ts},{v.u}"
  | DS.prop p => s!"p {p.signer},{p.c.h},{p.c.r},{p.c.nid},{p.c.ps},{p.c.pol}"

def b01 (b : Bool) : String := if b then "1" else "0"

def parseNatList (s : String) : Option (List Nat) :=
  if s == "-" then some [] else (s.splitOn ".").mapM (fun x => x.toNat?)

def parseCtx (s : String) : Option (Option (List Nat)) :=
  if s == "x" then some none else (parseNatList s).map some

def parseHist (s : String) : Option (List (Int × List Nat)) :=
  if s == "-" then some [] else
  (s.splitOn ";").mapM (fun e => match e.splitOn ":" with
    | [h, v] => match h.toInt?, parseNatList v with
      | some h, some v => some (h, v)
      | _, _ => none
    | _ => none)

def parseItems : List String → Option (List Item)
  | [] => some []
  | "g" :: j :: rest => match j.toNat?, parseItems rest with
    | some j, some r => some (Item.garbage j :: r)
    | _, _ => none
  | k :: a :: rest => match parseDS k a, parseItems rest with
    | some m, some r => some (Item.msg m :: r)
    | _, _ => none
  | _ => none

def showPre : Pre → String
  | Pre.ok => "ok" | Pre.disabled => "disabled" | Pre.fromSet => "from" | Pre.decode => "decode" | Pre.invalid => "invalid"

def showHnd : Hnd → String
  | Hnd.ok => "ok" | Hnd.noHandler => "none" | Hnd.format => "format" | Hnd.conflict => "conflict"
  | Hnd.future => "future" | Hnd.signer => "signer" | Hnd.context => "context" | Hnd.call => "call"

def parseReport (toks : List String) : Option (Report × Env) :=
  match toks with
  | rev :: bh :: call :: from_ :: hasData :: tag :: ord :: ctx :: hist :: items =>
    match rev.toNat?, bh.toInt?, call.toNat?, hasData.toNat?, parseCtx ctx, parseHist hist, parseItems items with
    | some rev, some bh, some call, some hasData, some ctx, some hist, some items =>
      let sender := if from_ == "n" then some From.none else if from_ == "s" then some From.signed
        else if from_ == "u" then some From.unsigned else none
      let tag := if tag == "v" then some Tag.vote else if tag == "p" then some Tag.proposal
        else if tag == "o" then some Tag.other else none
      let ord := if ord == "lt" then some 0 else if ord == "eq" then some 1 else if ord == "gt" then some 2
        else if ord == "na" then some 0 else none
      match sender, tag, ord with
      | some sender, some tag, some ord =>
        if rev > 1 ∨ call > 1 ∨ hasData > 1 then none else
        some ({ hasData := hasData == 1, tag := tag, items := items, ord := ord, ctx := ctx, sender := sender },
              { revOn := rev == 1, blockHeight := bh, history := hist, callOk := call == 1 })
      | _, _, _ => none
    | _, _, _, _, _, _, _ => none
  | _ => none

def step (l : Log) (toks : List String) : Log × String :=
  match toks with
  | ["reset"] => ([], "ok")
  -- how the harness constructs its message objects (fresh, or reused and signed again): no effect on the model
  | ["mode", m] => if m == "resign" || m == "fresh" then (l, "ok") else (l, "bad-op")
  | ["cf", k1, a, k2, b] =>
    match parseDS k1 a, parseDS k2 b with
    | some x, some y => (l, b01 (conflict x y))
    | _, _ => (l, "bad-op")
  | "rep" :: rest =>
    match parseReport rest with
    | some (r, e) =>
      -- without a report body Verify fails and nothing else can be asked of the transaction
      if !r.hasData then (l, "V=err P=- H=-") else
      (l, s!"V={if verifyTx r then "ok" else "err"} P={showPre (preValidate r e)} H={showHnd (handler r e)}")
    | none => (l, "bad-op")
  | ["mn", a, b] =>
    match a.toNat?, b.toNat? with
    | some a, some b => if a < 2^32 ∧ b < 2^32 then (l, b01 (matchNID a b)) else (l, "bad-op")
    | _, _ => (l, "bad-op")
  | ["log", k, a] =>
    match parseDS k a with
    | some m =>
      let r := logMsg l m
      match r.2 with
      | none => (r.1, "-")
      | some (o, _) => (r.1, "ds " ++ showDS o)
    | none => (l, "bad-op")
  | _ => (l, "bad-op")

end Goloop.Driver.C06
def main : IO Unit := Goloop.Proto.run Goloop.Driver.C06.step []
