import Goloop.Base.Proto
import Goloop.Model.C11
namespace Goloop.Driver.C11
open Goloop Goloop.C11

def cfg : Cfg := Cfg.tree

def parseTx (s : String) : Option (Id × Int) :=
  match s.splitOn ":" with
  | [a, b] => match a.toNat?, b.toInt? with
    | some i, some t => some (i, t)
    | _, _ => none
  | _ => none

def parseTxs : List String → Option (List (Id × Int))
  | [] => some []
  | x :: xs => match parseTx x, parseTxs xs with
    | some t, some r => some (t :: r)
    | _, _ => none

def parseGroup (s : String) : Option Bool :=
  if s == "0" then some false else if s == "1" then some true else none

def boolStr (b : Bool) : String := if b then "true" else "false"

def insertSorted (x : Nat) : List Nat → List Nat
  | [] => [x]
  | y :: ys => if x < y then x :: y :: ys else if x = y then y :: ys else y :: insertSorted x ys

def sortDedup (l : List Nat) : List Nat := l.foldl (fun acc x => insertSorted x acc) []

def dump (m : Manager) : String :=
  let ids := (sortDedup m.locators).foldl (fun acc x => acc ++ s!" {x}") ""
  s!"max {m.cacheP.maxTS} {m.cacheN.maxTS} cached {m.cacheP.lists.length} {m.cacheN.lists.length} loc{ids}"

def stepS (s : State) (toks : List String) : State × String :=
  match toks with
  | ["reset"] => (State.init, "ok")
  | ["root", g, ts, th] =>
    match parseGroup g, ts.toInt?, th.toInt? with
    | some g, some ts, some th => (s.newRoot g ts th, "ok")
    | _, _, _ => (s, "bad-op")
  | ["new", p, ts, th] =>
    match p.toNat?, ts.toInt?, th.toInt? with
    | some p, some ts, some th =>
      match s.newChild p ts th with
      | some s' => (s', "ok")
      | none => (s, "bad-op")
    | _, _, _ => (s, "bad-op")
  | "add" :: i :: f :: txs =>
    match i.toNat?, parseGroup f, parseTxs txs with
    | some i, some f, some txs =>
      match s.add cfg i txs f with
      | (s', .ok n) => (s', s!"ok {n}")
      | (s', .dup n) => (s', s!"dup {n}")
      | (s', .alreadyAdded) => (s', "added")
      | (s', .alreadyCommitted) => (s', "committed")
      | (_, .noTracker) => (s, "bad-op")
    | _, _, _ => (s, "bad-op")
  | ["commit", i] =>
    match i.toNat? with
    | some i =>
      if i < s.trackers.length then
        let s1 := s.commit i
        -- the harness waits for the flush worker to drain its queue
        ({ s1 with mgr := Manager.flushAll s1.mgr.pending.length s1.mgr }, "ok")
      else (s, "bad-op")
    | none => (s, "bad-op")
  | ["has", i, id, ts] =>
    match i.toNat?, id.toNat?, ts.toInt? with
    | some i, some id, some ts =>
      if i < s.trackers.length then (s, boolStr (trackerHas cfg s i id ts)) else (s, "bad-op")
    | _, _, _ => (s, "bad-op")
  | ["mhas", g, id, ts] =>
    match parseGroup g, id.toNat?, ts.toInt? with
    | some g, some id, some ts => (s, boolStr (s.mgr.has cfg g id ts))
    | _, _, _ => (s, "bad-op")
  | ["dump"] => (s, dump s.mgr)
  | ["win", bts, th, ts] =>
    match bts.toInt?, th.toInt?, ts.toInt? with
    | some bts, some th, some ts =>
      (s, match windowCheck bts th ts with
          | .ok => "in" | .expired => "expired" | .future => "future")
    | _, _, _ => (s, "bad-op")
  | _ => (s, "bad-op")

/-- driver state: the model state and the number of handles given out before the last restart
    (handles keep counting across restarts; trackers of an earlier manager are dead) -/
structure DState where
  s : State := State.init
  offset : Nat := 0

def rel (d : DState) (h : String) : Option String :=
  match h.toNat? with
  | some n => if n < d.offset then none else some (toString (n - d.offset))
  | none => some h

def step (d : DState) (toks : List String) : DState × String :=
  match toks with
  | ["reset"] => ({}, "ok")
  | ["restart"] => ({ s := d.s.restart, offset := d.offset + d.s.trackers.length }, "ok")
  | op :: h :: rest =>
    if op == "new" || op == "add" || op == "commit" || op == "has" then
      match rel d h with
      | none => (d, "bad-op")
      | some h' =>
        let r := stepS d.s (op :: h' :: rest)
        ({ d with s := r.1 }, r.2)
    else
      let r := stepS d.s toks
      ({ d with s := r.1 }, r.2)
  | _ =>
    let r := stepS d.s toks
    ({ d with s := r.1 }, r.2)

end Goloop.Driver.C11
def main : IO Unit := Goloop.Proto.run Goloop.Driver.C11.step {}
