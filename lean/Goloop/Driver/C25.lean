import Goloop.Base.Proto
import Goloop.Model.C25
namespace Goloop.Driver.C25
open Goloop Goloop.C25

/-- ops:
    `c <hex>`  → `<compressed hex> rt|nort <first code>`   (model compress, model decompress of it)
    `d <hex>`  → `<decompressed hex>`                        (arbitrary, possibly invalid, streams) -/
def step (s : Unit) (toks : List String) : Unit × String :=
  let out := match toks with
  | ["c", h] => match Hex.decodeWire h with
      | some bs =>
        let z := compress bs
        let back := decompress z
        let first := match encCodes bs with
          | [] => "none"
          | (c, _) :: _ => toString c
        s!"{Hex.encodeWire z} {if back == bs then "rt" else "nort"} {first}"
      | none => "bad-op"
  | ["d", h] => match Hex.decodeWire h with
      | some bs => Hex.encodeWire (decompress bs)
      | none => "bad-op"
  | ["reset"] => "ok"
  | _ => "bad-op"
  (s, out)
end Goloop.Driver.C25
def main : IO Unit := Goloop.Proto.run Goloop.Driver.C25.step ()
