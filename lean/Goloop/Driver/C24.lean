import Goloop.Base.Proto
import Goloop.Model.C24
namespace Goloop.Driver.C24
open Goloop Goloop.C24

def optInt : Option Int → String
  | some v => s!"ok {v}"
  | none => "err"
def optNat : Option Nat → String
  | some v => s!"ok {v}"
  | none => "err"

def inI64 (v : Int) : Bool := -(2:Int)^63 ≤ v ∧ v < (2:Int)^63
def inU64 (v : Nat) : Bool := v < 2^64

def step (s : Unit) (toks : List String) : Unit × String :=
  let out := match toks with
  | ["i64", x] => match x.toInt? with
      | some v => if inI64 v then Hex.encodeWire (int64ToBytes v) else "bad-op"
      | none => "bad-op"
  | ["u64", x] => match x.toNat? with
      | some v => if inU64 v then Hex.encodeWire (uint64ToBytes v) else "bad-op"
      | none => "bad-op"
  | ["size", x] => match x.toNat? with
      | some v => if inU64 v then Hex.encodeWire (sizeToBytes v) else "bad-op"
      | none => "bad-op"
  | ["big", x] => match x.toInt? with
      | some v => Hex.encodeWire (bigIntToBytes v)
      | none => "bad-op"
  | ["d_i64", h] => match Hex.decodeWire h with
      | some bs => optInt (safeBytesToInt64 bs)
      | none => "bad-op"
  | ["d_u64", h] => match Hex.decodeWire h with
      | some bs => optNat (safeBytesToUint64 bs)
      | none => "bad-op"
  | ["d_size", h] => match Hex.decodeWire h with
      | some bs => optNat (safeBytesToSize64 bs)
      | none => "bad-op"
  | ["d_big", h] => match Hex.decodeWire h with
      | some bs => s!"ok {bigIntSetBytes bs}"
      | none => "bad-op"
  | ["fmt_big", x] => match x.toInt? with
      | some v => formatBigInt v
      | none => "bad-op"
  | ["fmt_i64", x] => match x.toInt? with
      | some v => if inI64 v then formatInt v else "bad-op"
      | none => "bad-op"
  | ["fmt_u64", x] => match x.toNat? with
      | some v => if inU64 v then formatUint v else "bad-op"
      | none => "bad-op"
  | ["parse_big", x] => optInt (parseBigInt x)
  | ["parse_int", b, x] => match b.toNat? with
      | some bits => if bits = 16 ∨ bits = 32 ∨ bits = 64 then optInt (parseInt x bits) else "bad-op"
      | none => "bad-op"
  | ["parse_uint", b, x] => match b.toNat? with
      | some bits => if bits = 16 ∨ bits = 32 ∨ bits = 64 then optNat (parseUint x bits) else "bad-op"
      | none => "bad-op"
  | _ => "bad-op"
  (s, out)
end Goloop.Driver.C24
def main : IO Unit := Goloop.Proto.run Goloop.Driver.C24.step ()
