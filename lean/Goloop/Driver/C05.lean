import Goloop.Base.Proto
import Goloop.Model.C05
namespace Goloop.Driver.C05
open Goloop Goloop.C05

/-- item descriptors of the line protocol: `v<k>` = signature of key k over the exact target;
    everything else (`wb<k>`, `wr<k>`, `wp<k>`, `wa<k>`, `wt<k>`, `wh<k>`, `wy<k>`, `f<j>`) is a
    signature that is not one of a validator over the target. Keys 0..n-1 are the validators. -/
def signerOf (n : Nat) (tok : String) : Option Nat :=
  match tok.toList with
  | 'v' :: rest => match (String.ofList rest).toNat? with
    | some k => if k < n then some k else none
    | none => none
  | _ => none

def validTok (tok : String) : Bool :=
  match tok.toList with
  | 'v' :: rest => (String.ofList rest).toNat?.isSome
  | 'w' :: c :: rest => (c ∈ ['b', 'r', 'p', 'a', 't', 'h', 'y']) && (String.ofList rest).toNat?.isSome
  | 'f' :: rest => (String.ofList rest).toNat?.isSome
  | _ => false

def showRes : Res → String
  | Res.okNil => "ok nil"
  | Res.ok v => "ok " ++ (if v.isEmpty then "-" else String.ofList (v.map (fun b => if b then '1' else '0')))
  | Res.reject => "reject"
  | Res.panic => "panic"

/-- `pb` items: `v<k>:<ts>` (valid precommit signature of key k for the list's target with timestamp ts),
    `w<k>:<ts>` (key k signed another block), `f<j>:<ts>` (junk signature) -/
def parsePbItem (n : Nat) (tok : String) : Option (Option Nat × Int) :=
  match tok.splitOn ":" with
  | [a, ts] =>
    match ts.toInt?, a.toList with
    | some ts, c :: rest =>
      match (String.ofList rest).toNat? with
      | some k =>
        if c = 'v' then some (if k < n then some k else none, ts)
        else if c = 'w' ∨ c = 'f' then some (none, ts)
        else none
      | none => none
    | _, _ => none
  | _ => none

/-- `pb` pre-existing precommits: `<k>:<d>:<ts>` -/
def parsePre (n : Nat) (round : Int) (tok : String) : Option (Nat × C04.Vote) :=
  match tok.splitOn ":" with
  | [k, d, ts] =>
    match k.toNat?, d.toNat?, ts.toInt? with
    | some k, some d, some ts => if k < n ∧ d ≤ 2 then some (k, { h := 5, r := round, t := 1, d := d, ts := ts }) else none
    | _, _, _ => none
  | _ => none

def parseList {α : Type} (f : String → Option α) (tok : String) : Option (List α) :=
  if tok == "-" then some [] else (tok.splitOn ",").mapM f

def showPB : PB → String
  | PB.accept => "accept"
  | PB.rejectToVoteList => "reject-tovotelist"
  | PB.rejectNoQuorum => "reject-noquorum"
  | PB.rejectPartSet => "reject-partset"
  | PB.panic => "panic"

/-- `imp` items: `k<key>` (precommit of key for the right target), `k<key>h` (signed height+1),
    `k<key>b` (signed the id of the block before), `k<key>r` (signed round+1) -/
def parseImpItem (h round : Nat) (tok : String) : Option Sig :=
  match tok.toList with
  | 'k' :: rest =>
    let digits := rest.takeWhile Char.isDigit
    let suffix := rest.dropWhile Char.isDigit
    match (String.ofList digits).toNat? with
    | some k =>
      if suffix = [] then some { key := k, height := h, blockId := h, round := round }
      else if suffix = ['h'] then some { key := k, height := h + 1, blockId := h, round := round }
      else if suffix = ['b'] then some { key := k, height := h, blockId := h - 1, round := round }
      else if suffix = ['r'] then some { key := k, height := h, blockId := h, round := round + 1 }
      else none
    | none => none
  | _ => none

def parseSet (s : String) : Option (List Nat) :=
  if s == "-" then some [] else (s.splitOn ".").mapM (fun x => x.toNat?)

/-- driver state: the chain of the import ops, the validator snapshots (values) and the current
    validator state of the snapshot-history ops -/
structure DState where
  chain : List (List Nat) := []
  snaps : List (List Nat) := []
  cur : Option (List Nat) := none

def showSet (l : List Nat) : String :=
  if l.isEmpty then "-" else ".".intercalate (l.map toString)

def showIdx (vals : List Nat) (k : Nat) : String :=
  match vals.findIdx? (· == k) with
  | some i => toString i
  | none => "-1"

def step (s : DState) (toks : List String) : DState × String :=
  match toks with
  | ["reset"] => ({}, "ok")
  -- validator snapshot histories
  | ["vnew", ks] =>
    match parseSet ks with
    | some l => if l.Nodup then ({ s with snaps := s.snaps ++ [l] }, s!"snap {s.snaps.length} {showSet l}") else (s, "bad-op")
    | none => (s, "bad-op")
  | ["vwarm", j] =>
    match j.toNat? with
    | some j => match s.snaps[j]? with
      | some l => (s, " ".intercalate ((List.range 8).map (showIdx l)))
      | none => (s, "bad-op")
    | none => (s, "bad-op")
  | ["vder", j] =>
    match j.toNat? with
    | some j => match s.snaps[j]? with
      | some l => ({ s with cur := some l }, "ok")
      | none => (s, "bad-op")
    | none => (s, "bad-op")
  | ["vrep", o, n] =>
    match o.toNat?, n.toNat?, s.cur with
    | some o, some n, some l => match vsReplace l o n with
      | some l' => ({ s with cur := some l' }, "ok")
      | none => (s, "err")
    | _, _, _ => (s, "bad-op")
  | ["vset", i, n] =>
    match i.toNat?, n.toNat?, s.cur with
    | some i, some n, some l => match vsSetAt l i n with
      | some l' => ({ s with cur := some l' }, "ok")
      | none => (s, "err")
    | _, _, _ => (s, "bad-op")
  | ["vadd", n] =>
    match n.toNat?, s.cur with
    | some n, some l => ({ s with cur := some (vsAdd l n) }, "ok")
    | _, _ => (s, "bad-op")
  | ["vrem", n] =>
    match n.toNat?, s.cur with
    | some n, some l => ({ s with cur := some (vsRemove l n).1 }, if (vsRemove l n).2 then "1" else "0")
    | _, _ => (s, "bad-op")
  | ["vsnap"] =>
    match s.cur with
    | some l => ({ s with snaps := s.snaps ++ [l] }, s!"snap {s.snaps.length} {showSet l}")
    | none => (s, "bad-op")
  | "vver" :: j :: keys =>
    match j.toNat?, keys.mapM (fun k => k.toNat?) with
    | some j, some keys => match s.snaps[j]? with
      | some l => (s, showRes (verifyAgainst l keys))
      | none => (s, "bad-op")
    | _, _ => (s, "bad-op")
  | ["chain", a, b, c, d] =>
    match parseSet a, parseSet b, parseSet c, parseSet d with
    | some a, some b, some c, some d =>
      -- the change requested in block k shows in NextValidators(block k+1): heights 0..3 have A, A, B, C
      if a.isEmpty ∨ b.isEmpty ∨ c.isEmpty ∨ d.isEmpty then (s, "bad-op") else ({ s with chain := [a, a, b, c] }, "ok")
    | _, _, _, _ => (s, "bad-op")
  | "imp" :: round :: items =>
    match round.toNat?, items.mapM (parseImpItem 3 ((round.toNat?).getD 0)) with
    | some round, some sigs =>
      if s.chain.length ≠ 4 then (s, "bad-op") else
      -- candidate block 4 on parent 3: NextValidators of heights 0..3 are the four sets
      match verifyProofForLast (fun k => s.chain.getD k []) id 3 round sigs with
      | Res.ok _ => (s, "accept")
      | Res.okNil => (s, "accept")
      | Res.reject => (s, "reject:cert")
      | Res.panic => (s, "panic")
    | _, _ => (s, "bad-op")
  | "vb" :: mode :: n :: _r :: items =>
    match n.toNat? with
    | some n =>
      if n > 64 ∨ !(items.all validTok) ∨ _r.toNat?.isNone then (s, "bad-op") else
      match mode with
      | "std" => (s, showRes (verifyBlock (signerOf n) false n items))
      | "h0" => (s, showRes (verifyBlock (signerOf n) true n items))
      | "nilv" => (s, showRes (verifyBlock (signerOf n) true n items))
      | _ => (s, "bad-op")
    | none => (s, "bad-op")
  | ["pb", n, round, pseq, pre, items] =>
    match n.toNat?, round.toNat?, pseq.toNat? with
    | some n, some round, some pseq =>
      if n > 64 ∨ pseq > 1 then (s, "bad-op") else
      match parseList (parsePre n round) pre, parseList (parsePbItem n) items with
      | some pre, some items =>
        let s0 := C04.addAll (C04.new n) pre
        let r := processBlock (fun (it : Option Nat × Int) => it.1)
          (fun it => { h := 5, r := round, t := 1, d := 1, ts := it.2 }) s0 items id (if pseq = 1 then 1 else 3)
        (s, showPB r)
      | _, _ => (s, "bad-op")
    | _, _, _ => (s, "bad-op")
  | ["enough", a, b] =>
    match a.toNat?, b.toNat? with
    | some a, some b => (s, if enoughVote a b then "1" else "0")
    | _, _ => (s, "bad-op")
  | _ => (s, "bad-op")

end Goloop.Driver.C05
def main : IO Unit := Goloop.Proto.run Goloop.Driver.C05.step {}
