import Goloop.Base.Proto
import Goloop.Model.C05
namespace Goloop.Driver.C05
open Goloop Goloop.C05

/-- item descriptors of the line protocol: `v<k>` = signature of key k over the exact target;
    everything else (`wb<k>`, `wr<k>`, `wp<k>`, `wa<k>`, `wt<k>`, `wh<k>`, `wy<k>`, `f<j>`) is a
    signature that is not one of a validator over the target. Keys 0..n-1 are the validators. -/
def signerOf (n : Nat) (tok : String) : Option Nat :=
  match tok.toList with
  | 'v' :: rest => match (String.ofList rest).toNat? with
    | some k => if k < n then some k else none
    | none => none
  | _ => none

def validTok (tok : String) : Bool :=
  match tok.toList with
  | 'v' :: rest => (String.ofList rest).toNat?.isSome
  | 'w' :: c :: rest => (c ∈ ['b', 'r', 'p', 'a', 't', 'h', 'y']) && (String.ofList rest).toNat?.isSome
  | 'f' :: rest => (String.ofList rest).toNat?.isSome
  | _ => false

def showRes : Res → String
  | Res.okNil => "ok nil"
  | Res.ok v => "ok " ++ (if v.isEmpty then "-" else String.ofList (v.map (fun b => if b then '1' else '0')))
  | Res.reject => "reject"
  | Res.panic => "panic"

def step (s : Unit) (toks : List String) : Unit × String :=
  match toks with
  | ["reset"] => (s, "ok")
  | "vb" :: mode :: n :: _r :: items =>
    match n.toNat? with
    | some n =>
      if n > 64 ∨ !(items.all validTok) ∨ _r.toNat?.isNone then (s, "bad-op") else
      match mode with
      | "std" => (s, showRes (verifyBlock (signerOf n) false n items))
      | "h0" => (s, showRes (verifyBlock (signerOf n) true n items))
      | "nilv" => (s, showRes (verifyBlock (signerOf n) true n items))
      | _ => (s, "bad-op")
    | none => (s, "bad-op")
  | ["enough", a, b] =>
    match a.toNat?, b.toNat? with
    | some a, some b => (s, if enoughVote a b then "1" else "0")
    | _, _ => (s, "bad-op")
  | _ => (s, "bad-op")

end Goloop.Driver.C05
def main : IO Unit := Goloop.Proto.run Goloop.Driver.C05.step ()
