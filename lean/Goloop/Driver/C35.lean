import Goloop.Base.Proto
import Goloop.Model.C35
namespace Goloop.Driver.C35
open Goloop Goloop.C35

def parseVote (s : String) : Option (Nat × Int) :=
  match s.splitOn ":" with
  | [k, a] => match k.toNat?, a.toInt? with
    | some k, some a => some (k, a)
    | _, _ => none
  | _ => none

def parseVotes (s : String) : Option Votes :=
  if s == "-" then some [] else (s.splitOn ",").mapM parseVote

def setAssoc (m : List (Nat × Votes)) (k : Nat) (v : Votes) : List (Nat × Votes) :=
  m.filter (fun e => e.1 != k) ++ [(k, v)]

def render (r : Result) (n : Nat) : String :=
  let parts := (List.range n).map (fun k => s!"{k}={r.iscoreOf k}")
  s!"ok total={r.totalCredited} " ++ " ".intercalate parts

def doCalc (s : Input) (n : String) : String :=
  match n.toNat? with
  | some n =>
    match calculate s with
    | none => "err"
    | some r => if wouldPanic s then "panic" else render r n
  | none => "bad-op"

def step (s : Input) (toks : List String) : Input × String :=
  match toks with
  | ["reset"] => ({}, "ok")
  | ["global", e, l, br, ig, ip, iw, mb] =>
    match e.toNat?, l.toNat?, br.toInt?, ig.toInt?, ip.toInt?, iw.toInt?, mb.toInt? with
    | some e, some l, some br, some ig, some ip, some iw, some mb =>
      ({ s with elected := e, offsetLimit := l, br := br, iglobal := ig, iprepRate := ip, iwageRate := iw, minBond := mb }, "ok")
    | _, _, _, _, _, _, _ => (s, "bad-op")
  | ["prep", id, st, d, b, r, pk] =>
    match id.toNat?, st.toNat?, d.toInt?, b.toInt?, r.toInt?, pk.toNat? with
    | some id, some st, some d, some b, some r, some pk =>
      let p : PRep := { owner := id, status := st, delegated := d, bonded := b, rate := r, pubkey := pk != 0 }
      ({ s with voteds := s.voteds.filter (fun q => q.owner != id) ++ [p] }, "ok")
    | _, _, _, _, _, _ => (s, "bad-op")
  | ["deleg", id, vs] =>
    match id.toNat?, parseVotes vs with
    | some id, some vs => ({ s with delegating := setAssoc s.delegating id vs }, "ok")
    | _, _ => (s, "bad-op")
  | ["bond", id, vs] =>
    match id.toNat?, parseVotes vs with
    | some id, some vs => ({ s with bonding := setAssoc s.bonding id vs }, "ok")
    | _, _ => (s, "bad-op")
  | ["ev_enable", o, t, st] =>
    match o.toNat?, t.toNat?, st.toNat? with
    | some o, some t, some st => ({ s with events := s.events ++ [Event.enable o t st] }, "ok")
    | _, _, _ => (s, "bad-op")
  | ["ev_deleg", o, f, vs] =>
    match o.toNat?, f.toNat?, parseVotes vs with
    | some o, some f, some vs => ({ s with events := s.events ++ [Event.vote false o f vs] }, "ok")
    | _, _, _ => (s, "bad-op")
  | ["ev_bond", o, f, vs] =>
    match o.toNat?, f.toNat?, parseVotes vs with
    | some o, some f, some vs => ({ s with events := s.events ++ [Event.vote true o f vs] }, "ok")
    | _, _, _ => (s, "bad-op")
  | ["calc", n] => (s, doCalc s n)
  | ["calc", n, _] => (s, doCalc s n)
  | _ => (s, "bad-op")

end Goloop.Driver.C35
def main : IO Unit := Goloop.Proto.run Goloop.Driver.C35.step {}
