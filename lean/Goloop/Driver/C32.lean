import Goloop.Base.Proto
import Goloop.Model.C32
namespace Goloop.Driver.C32
open Goloop Goloop.C32

def b2 (n : Nat) : Bytes := [UInt8.ofNat (n / 256), UInt8.ofNat n]
def pad64 (b : Bytes) : Bytes := b ++ List.replicate (64 - b.length) 0

/-- symbolic instance of the crypto parameters used by the correspondence run:
    key `i` is the number `i`; the signature of key `i` over hash `h` is `pad64 (1 :: b2 i ++ h)`;
    sha3 is injective (identity on the short symbolic contents). -/
def sym : Crypto Nat :=
  { parsePub := fun b => match b with
      | [t, hi, lo] => if t = 2 ∨ t = 4 ∨ t = 6 then some (hi.toNat * 256 + lo.toNat) else none
      | _ => none
    verify := fun rs h pk => rs == pad64 (1 :: (b2 pk ++ h))
    sha3 := id
    idOf := fun k => b2 k }

structure St where
  sess : Nat
  peer : Option PeerSt
  secure : Bool          -- connection switched to SecureConn (ecdhe): later sends are opaque
  parked : List (Nat × PeerSt × Bool) := []   -- the other sessions of this case (number, state, secure)
  total : Nat := 0                              -- sessions created in this case

def secretOf (n : Nat) : Bytes := 1 :: b2 n

def cfgOf (n : Nat) : Config :=
  { self := b2 0, suites := [1, 3], aeads := [1, 2, 3]
    kdf := fun p _ => if p = [1] then some (secretOf n) else none }

def keyNum (s : String) : Option Nat :=
  match s.toNat? with
  | some k => if k < 65536 then some k else none
  | none => none

def parsePubTok (s : String) : Option Bytes :=
  match s.toList with
  | 'k' :: r =>
    match r.reverse with
    | f :: dr =>
      let t : Option UInt8 := if f = 'c' then some 2 else if f = 'u' then some 4 else if f = 'h' then some 6 else none
      match t, keyNum (String.ofList dr.reverse) with
      | some t, some k => some (t :: b2 k)
      | _, _ => none
    | [] => none
  | 'b' :: 'x' :: _ => some [0]
  | _ => none

/-- content token: `t` this session's secret, `o` another session's secret, `m<j>` -/
def parseContent (sessSecret : Bytes) (s : String) : Option Bytes :=
  if s = "t" then some sessSecret
  else if s = "p" then          -- the secret of the previous session of this case (replay)
    (match sessSecret with
      | [1, hi, lo] => some (4 :: b2 (hi.toNat * 256 + lo.toNat - 1))
      | _ => some [4])
  else if s = "o" then some [2]
  else if s.startsWith "x" then          -- the secret of session index j of this case
    ((s.drop 1).toNat?).bind (fun j => if j < 65535 then some (1 :: b2 (j + 1)) else none)
  else match s.toList with
    | 'm' :: r => (keyNum (String.ofList r)).map (fun j => 3 :: b2 j)
    | _ => none

def parseSigTok (sessSecret : Bytes) (s : String) : Option Bytes :=
  if s = "z" then some (List.replicate 65 0)
  else match s.toList with
    | 'b' :: r => match (String.ofList r).toNat? with
        | some n => if n ≤ 200 then some (List.replicate n 0xEE) else none
        | none => none
    | 'g' :: r =>
      match (String.ofList r).splitOn "." with
      | [k, ct, form] =>
        match keyNum k, parseContent sessSecret ct with
        | some k, some h =>
          let rs := pad64 (1 :: (b2 k ++ h))
          if form = "r" then some (rs ++ [0])
          else if form = "v" then some (rs ++ [9])
          else if form = "s" then some rs
          else none
        | _, _ => none
      | _ => none
    | _ => none

/-- SecureParam tokens: `ok` = the remote's ephemeral key; everything else is rejected by
    `secureKey.setup` (`bad` junk; well-sized but invalid points: `z0` (0,0), `oc` off curve,
    `xp` x = P, `yp` y ≥ P; `sm` 64 bytes; `c2` compressed form) -/
def paramOk (s : String) : Bool :=
  s = "ok" ∨ s = "bad" ∨ s = "z0" ∨ s = "oc" ∨ s = "xp" ∨ s = "yp" ∨ s = "sm" ∨ s = "c2"

def natList (s : String) : Option (List Nat) :=
  if s = "_" then some []
  else (s.splitOn ",").foldr (fun t acc => match t.toNat?, acc with
    | some n, some l => if n < 256 then some (n :: l) else none
    | _, _ => none) (some [])

def idStr : Option Bytes → String
  | none => "nil"
  | some [hi, lo] => s!"k{hi.toNat * 256 + lo.toNat}"
  | some _ => "?"

def subStr : Sub → String
  | .secReq => "secreq" | .secResp => "secresp" | .sigReq => "sigreq" | .sigResp => "sigresp"

def parseSub (s : String) : Option Sub :=
  if s = "secreq" then some .secReq else if s = "secresp" then some .secResp
  else if s = "sigreq" then some .sigReq else if s = "sigresp" then some .sigResp else none

def b01 (b : Bool) : String := if b then "1" else "0"

def outStr : Out → String
  | .secureRequest => "secreq"
  | .secureResponse s a e => s!"secresp({s},{a},{b01 e})"
  | .signatureRequest => "sigreq"
  | .signatureResponse .ok => "sigresp(ok)"
  | .signatureResponse .errKey => "sigresp(key)"
  | .signatureResponse .errSig => "sigresp(sig)"
  | .signatureResponse .errInvalid => "sigresp(invalid)"
  | .signatureResponse .selfAddress => "sigresp(self)"

def stateStr (p : PeerSt) : String :=
  let st := if p.handed then "next"
    else if p.closed then "closed"
    else match p.wait with
      | none => "wait=none"
      | some (w, pr) => s!"wait={subStr w}{if pr then "*" else ""}"
  s!"{st} id={idStr p.id}"

/-- render one step; `opaqueFrom` = index of the first sent message that goes through the
    SecureConn (printed as `enc`). -/
def render (outs : List Out) (plain : Nat) (p : PeerSt) : String :=
  let shown := (outs.take plain).map outStr ++ (if outs.length > plain then ["enc"] else [])
  let sent := if shown.isEmpty then "-" else ",".intercalate shown
  s!"{sent}|{stateStr p}"

def deliver (s : St) (m : Msg) : St × String :=
  match s.peer with
  | none => (s, "bad-op")
  | some p =>
    if p.closed ∨ p.handed then (s, "done")
    else
      let r := onPacket sym (cfgOf s.sess) p m
      -- does this step switch the connection to ecdhe?  (suite 3 and the secret got set)
      let switched := !s.secure && r.1.extra.isSome && p.extra.isNone && !r.1.closed &&
        (match m with
          | .secureRequest suites _ _ => resolve [1, 3] suites == 3
          | .secureResponse suite _ _ _ => suite == 3
          | _ => false)
      let plain : Nat :=
        if s.secure then 0
        else if switched then (match m with | .secureRequest .. => r.2.length | _ => 0)
        else r.2.length
      ({ s with peer := some r.1, secure := s.secure || switched }, render r.2 plain r.1)

def step (s : St) (toks : List String) : St × String :=
  match toks with
  | ["reset"] => ({ sess := 0, peer := none, secure := false, parked := [], total := 0 }, "ok")
  | ["use", k] =>
    match k.toNat? with
    | some k =>
      let parked := match s.peer with
        | some p => s.parked ++ [(s.sess, p, s.secure)]
        | none => s.parked
      match parked.find? (fun e => e.1 == k + 1) with
      | some (no, p, sec) =>
        ({ s with sess := no, peer := some p, secure := sec, parked := parked.filter (fun e => e.1 != no) }, "ok")
      | none => (s, "bad-op")
    | none => (s, "bad-op")
  | ["idfill", a, n] =>
    -- n further distinct peer ids go through NewPeerIDFromPublicKey: identities are values,
    -- nothing a peer was given can change
    match a.toNat?, n.toNat? with
    | some a, some n => if a < 1000 ∨ a + n ≥ 65536 ∨ n > 1000 then (s, "bad-op") else (s, "ok")
    | _, _ => (s, "bad-op")
  | ["ids"] =>
    let curL := match s.peer with
      | some p => [(s.sess, p, s.secure)]
      | none => []
    let every := s.parked ++ curL
    -- in creation order
    let ordered := (List.range (s.total + 1)).flatMap (fun n => every.filter (fun e => e.1 == n))
    let all := (ordered.filter (fun e => e.2.1.handed ∧ ¬ e.2.1.closed)).map (fun e => e.2.1.id)
    (s, if all.isEmpty then "ids -" else "ids " ++ ",".intercalate (all.map idStr))
  | ["vs", pub, sig, ct] =>
    match parsePubTok pub, parseSigTok [9] sig, parseContent [9] ct with
    | some pb, some sg, some c =>
      (s, match verifySignature sym pb sg c with
        | .badKey => "err-key"
        | .badSig => "err-sig"
        | .invalid id => s!"err-invalid {idStr (some id)}"
        | .ok id => s!"ok {idStr (some id)}")
    | _, _, _ => (s, "bad-op")
  | ["sess", inb] =>
    if inb = "1" ∨ inb = "0" then
      let r := onPeer (inb = "1")
      let parked := match s.peer with
        | some p => s.parked ++ [(s.sess, p, s.secure)]
        | none => s.parked
      ({ sess := s.total + 1, peer := some r.1, secure := false, parked := parked, total := s.total + 1 },
        render r.2 r.2.length r.1)
    else (s, "bad-op")
  | ["secreq", suites, aeads, param] =>
    match natList suites, natList aeads with
    | some ss, some as =>
      if paramOk param then
        deliver s (.secureRequest ss as (if param = "ok" then [1] else [0]))
      else (s, "bad-op")
    | _, _ => (s, "bad-op")
  | ["secresp", suite, aead, param, err] =>
    match suite.toNat?, aead.toNat? with
    | some su, some ae =>
      if su < 256 ∧ ae < 256 ∧ paramOk param ∧ (err = "0" ∨ err = "1") then
        deliver s (.secureResponse su ae (if param = "ok" then [1] else [0]) (err = "1"))
      else (s, "bad-op")
    | _, _ => (s, "bad-op")
  | ["sigreq", pub, sig] =>
    match parsePubTok pub, parseSigTok (secretOf s.sess) sig with
    | some pb, some sg => deliver s (.signatureRequest pb sg)
    | _, _ => (s, "bad-op")
  | ["sigresp", pub, sig, err] =>
    match parsePubTok pub, parseSigTok (secretOf s.sess) sig with
    | some pb, some sg =>
      if err = "0" ∨ err = "1" then deliver s (.signatureResponse pb sg (err = "1")) else (s, "bad-op")
    | _, _ => (s, "bad-op")
  | ["garbage", sub] =>
    match parseSub sub with
    | some sb => deliver s (.garbage sb)
    | none => (s, "bad-op")
  | ["unk"] => deliver s .unknownSub
  | _ => (s, "bad-op")

end Goloop.Driver.C32
def main : IO Unit :=
  Goloop.Proto.run Goloop.Driver.C32.step { sess := 0, peer := none, secure := false }
