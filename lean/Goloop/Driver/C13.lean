/-
  Driver/C13: line protocol around Model/C13.  Transaction-level ops reuse the C12 model and
  its standard-library glue to obtain the id and the fields of a JSON transaction.
-/
import Goloop.Base.Proto
import Goloop.Base.Sha3
import Goloop.Model.C12Glue
import Goloop.Model.C13
import Goloop.Model.C13Data
namespace Goloop.Driver.C13
open Goloop Goloop.C13

def hexOr (o : Option Bytes) : String :=
  match o with
  | none => "err"
  | some b => Hex.encodeWire b

def showSig (s : Bytes) : String :=
  s!"ok hasv={if hasV s then 1 else 0} rsv={hexOr (serializeRSV s)} vrs={hexOr (serializeVRS s)} rs={hexOr (serializeRS s)}"

def showPk (pk : Bytes) : String :=
  s!"ok {Hex.encodeWire pk} {Hex.encodeWire ((addressOf sha3_256 pk).drop 1)}"

def verdictOf (otx : Option C12.TxV3) : String :=
  match otx with
  | none => "err"
  | some tx =>
    let d := tx.d
    let sig : Option Bytes := if d.signature.isEmpty then none else parseSignature d.signature
    -- `C12.txID` is the empty id when the hash cannot be computed (unhashable data):
    -- `recoverPublicKey` then refuses (length 0) and the transaction is rejected
    if txVerify Secp.recoverCompact sha3_256 d.value d.stepLimit
        (dataOk d.dataType d.data d.value) sig
        (C12.txID C12.Glue.env tx) d.from_ then "verified" else "rejected"

def txVerdict (js : Bytes) : String :=
  verdictOf (C12.newTransactionFromJSON C12.Glue.env js false)

def step (s : Unit) (toks : List String) : Unit × String :=
  let out := match toks with
  | ["reset"] => "ok"
  | ["parse", h] =>
    match Hex.decodeWire h with
    | none => "bad-op"
    | some b => match parseSignature b with
      | none => "err"
      | some s => showSig s
  | ["parsevrs", h] =>
    match Hex.decodeWire h with
    | none => "bad-op"
    | some b => match parseSignatureVRS b with
      | none => "err"
      | some s => showSig s
  | "recover" :: hs :: hh :: _ =>
    match Hex.decodeWire hs, Hex.decodeWire hh with
    | some b, some hash =>
      match parseSignature b with
      | none => "err-parse"
      | some s =>
        match recoverPublicKey Secp.recoverCompact s hash with
        | none => "err"
        | some pk => showPk pk
    | _, _ => "bad-op"
  | ["verify", hs, hh, hp] =>
    match Hex.decodeWire hs, Hex.decodeWire hh, Hex.decodeWire hp with
    | some b, some hash, some pub =>
      match parseSignature b with
      | none => "err-parse"
      | some s => if Secp.verify s hash pub then "true" else "false"
    | _, _, _ => "bad-op"
  | ["signrec", hd, _] =>
    match Hex.decodeWire hd with
    | some d =>
      match Secp.pubOf (beNat d) with
      | some pk => showPk pk
      | none => "err"
    | none => "bad-op"
  | "binverify" :: h :: _ =>
    match Hex.decodeWire h with
    | some bs => verdictOf (C12.newTransaction C12.Glue.env bs)
    | none => "bad-op"
  | "txverify" :: h :: _ =>
    match Hex.decodeWire h with
    | some js => txVerdict js
    | none => "bad-op"
  | _ => "bad-op"
  (s, out)

end Goloop.Driver.C13
def main : IO Unit := Goloop.Proto.run Goloop.Driver.C13.step ()
