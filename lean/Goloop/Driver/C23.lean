/-
  Driver/C23: line protocol around Model/C23.

    enc <ty> <val>       -> hex of `marshal val`
    dec <hex> <ty>       -> `ok <val> <rest-hex>` | `err`       (UnmarshalFromBytes)
    ovf <val> <ty>       -> same as `dec (marshal val) ty`       (width overflow probes)
    raw <hex>            -> `ok <item> <rest-hex>` | `err`       (Base/Rlp.decodeItem, untyped)
    tobj <hex>           -> `ok`  (TypedObj decoding: oracle only on the Go side)
    tdict <seed>         -> `ok`  (TypedObj/TypedDict histories: decode, update Map, re-encode; oracle only)
    rep <tmpl> <byte> <n> -> `<len(enc)> <first 8 bytes> ok|err`: round trip of a value holding n copies
                            of <byte> as []byte/string (templates `repCase`), top-level maxSB = len(input)

  types (prefix):  b | u8 u16 u32 u64 | i8 i16 i32 i64 | s | B | A<n> | Z | L t | R<n> t | P t
                   | S<n> t1..tn | M k v
  values (prefix): n | t | f | u<dec> | i<dec> | s<hex> | x<hex> | z<dec> | p v | l<n> v1..vn
                   | m<n> k1 v1 .. kn vn          (hex: "-" for empty)
-/
import Goloop.Base.Proto
import Goloop.Model.C23
namespace Goloop.Driver.C23
open Goloop Goloop.C23

def tail (s : String) : String := String.ofList (s.toList.drop 1)
def head (s : String) : Char := s.toList.headD ' '

partial def parseTy : List String → Option (Ty × List String)
  | [] => none
  | t :: rest =>
    match t with
    | "b" => some (.bool, rest)
    | "u8" => some (.uint 8, rest)
    | "u16" => some (.uint 16, rest)
    | "u32" => some (.uint 32, rest)
    | "u64" => some (.uint 64, rest)
    | "i8" => some (.int 8, rest)
    | "i16" => some (.int 16, rest)
    | "i32" => some (.int 32, rest)
    | "i64" => some (.int 64, rest)
    | "s" => some (.str, rest)
    | "B" => some (.bytes, rest)
    | "Z" => some (.big, rest)
    | "L" => (parseTy rest).map fun (e, r) => (.slice e, r)
    | "P" => (parseTy rest).map fun (e, r) => (.ptr e, r)
    | "M" =>
      match parseTy rest with
      | some (k, r1) => (parseTy r1).map fun (v, r2) => (.map k v, r2)
      | none => none
    | _ =>
      match head t, (tail t).toNat? with
      | 'A', some n => some (.barr n, rest)
      | 'R', some n => (parseTy rest).map fun (e, r) => (.arr n e, r)
      | 'S', some n =>
        let rec fields : Nat → List String → Option (List Ty × List String)
          | 0, r => some ([], r)
          | k + 1, r =>
            match parseTy r with
            | some (f, r1) => (fields k r1).map fun (fs, r2) => (f :: fs, r2)
            | none => none
        (fields n rest).map fun (fs, r) => (.struct fs, r)
      | _, _ => none

partial def parseVal : List String → Option (Val × List String)
  | [] => none
  | t :: rest =>
    match t with
    | "n" => some (.nil, rest)
    | "t" => some (.bool true, rest)
    | "f" => some (.bool false, rest)
    | "p" => (parseVal rest).map fun (v, r) => (.ptr v, r)
    | _ =>
      let body := tail t
      match head t with
      | 'u' => body.toNat?.map fun n => (.uint n, rest)
      | 'i' => body.toInt?.map fun n => (.int n, rest)
      | 'z' => body.toInt?.map fun n => (.big n, rest)
      | 's' => (Hex.decodeWire body).map fun b => (.str b, rest)
      | 'x' => (Hex.decodeWire body).map fun b => (.bytes b, rest)
      | 'l' =>
        match body.toNat? with
        | none => none
        | some n =>
          let rec vals : Nat → List String → Option (List Val × List String)
            | 0, r => some ([], r)
            | k + 1, r =>
              match parseVal r with
              | some (v, r1) => (vals k r1).map fun (vs, r2) => (v :: vs, r2)
              | none => none
          (vals n rest).map fun (vs, r) => (.list vs, r)
      | 'm' =>
        match body.toNat? with
        | none => none
        | some n =>
          let rec ents : Nat → List String → Option (List (Val × Val) × List String)
            | 0, r => some ([], r)
            | k + 1, r =>
              match parseVal r with
              | some (kk, r1) =>
                match parseVal r1 with
                | some (v, r2) => (ents k r2).map fun (es, r3) => ((kk, v) :: es, r3)
                | none => none
              | none => none
          (ents n rest).map fun (es, r) => (.map es, r)
      | _ => none

partial def render : Val → String
  | .nil => "n"
  | .bool true => "t"
  | .bool false => "f"
  | .uint n => s!"u{n}"
  | .int i => s!"i{i}"
  | .big i => s!"z{i}"
  | .str s => "s" ++ Hex.encodeWire s
  | .bytes b => "x" ++ Hex.encodeWire b
  | .ptr v => "p " ++ render v
  | .list xs => String.intercalate " " (s!"l{xs.length}" :: xs.map render)
  | .map kvs => String.intercalate " " (s!"m{kvs.length}" :: kvs.map fun (k, v) => render k ++ " " ++ render v)

partial def renderItem : Rlp.Item → String
  | .nil => "n"
  | .bytes b => "x" ++ Hex.encodeWire b
  | .list xs => String.intercalate " " (s!"l{xs.length}" :: xs.map renderItem)

def decOut (ty : Ty) (b : Bytes) : String :=
  match unmarshal ty b with
  | some (v, rest) => s!"ok {render v} {Hex.encodeWire rest}"
  | none => "err"

/-- templates of the `rep` op: a long payload (`len` copies of one byte) as []byte / string at top
    level and nested in struct, pointer, slice -/
def repCase (t : Nat) (payload : Bytes) : Option (Ty × Val) :=
  match t with
  | 0 => some (.bytes, .bytes payload)
  | 1 => some (.str, .str payload)
  | 2 => some (.struct [.uint 8, .bytes], .list [.uint 7, .bytes payload])
  | 3 => some (.ptr (.struct [.str, .int 16]), .ptr (.list [.str payload, .int (-2)]))
  | 4 => some (.slice .bytes, .list [.bytes payload, .bytes [1]])
  | 5 => some (.struct [.ptr .str, .slice (.uint 16)], .list [.ptr (.str payload), .list [.uint 1, .uint 300]])
  | _ => none

def repOut (ty : Ty) (v : Val) : String :=
  let e := marshal v
  let res := match unmarshal ty e with
    | some (v', []) => if marshal v' == e then "ok" else "err"
    | _ => "err"
  s!"{e.length} {Hex.encodeWire (e.take 8)} {res}"

def step (s : Unit) (toks : List String) : Unit × String :=
  let out := match toks with
  | ["reset"] => "ok"
  | "enc" :: tv =>
    match parseTy tv with
    | some (_, vt) =>
      match parseVal vt with
      | some (v, []) => Hex.encodeWire (marshal v)
      | _ => "bad-op"
    | none => "bad-op"
  | "dec" :: h :: tt =>
    match Hex.decodeWire h, parseTy tt with
    | some b, some (ty, []) => decOut ty b
    | _, _ => "bad-op"
  | "ovf" :: rest =>
    match parseVal rest with
    | some (v, tt) =>
      match parseTy tt with
      | some (ty, []) => decOut ty (marshal v)
      | _ => "bad-op"
    | none => "bad-op"
  | ["raw", h] =>
    match Hex.decodeWire h with
    | some b =>
      match Rlp.decodeItem b with
      | some (it, rest) => s!"ok {renderItem it} {Hex.encodeWire rest}"
      | none => "err"
    | none => "bad-op"
  | ["tobj", _] => "ok"
  | ["tdict", _] => "ok"
  | ["rep", t, bh, n] =>
    match t.toNat?, Hex.decodeWire bh, n.toNat? with
    | some t, some [x], some n =>
      match repCase t (List.replicate n x) with
      | some (ty, v) => repOut ty v
      | none => "bad-op"
    | _, _, _ => "bad-op"
  | _ => "bad-op"
  (s, out)
end Goloop.Driver.C23
def main : IO Unit := Goloop.Proto.run Goloop.Driver.C23.step ()
