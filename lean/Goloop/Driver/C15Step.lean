import Goloop.Base.Proto
import Goloop.Model.C15
namespace Goloop.Driver.C15
open Goloop Goloop.C15

/-- universe of the line protocol: 0 god, 1..4 EOAs, 5,6 scripted accounts, 7 contract-typed
    address without contract account, 8 treasury, 9 deployed scripted contract (contract-typed) -/
abbrev N : Nat := 10
def godBal : Int := 1000000000000000000000
def nKey : Nat := 2

def acct? (k : Nat) : Option (Fin N) := if h : k < N then some ⟨k, h⟩ else none

/-- decimal number prefix (at most 15 digits, at least one) -/
def num : List Char → Option (Nat × List Char)
  | cs =>
    let ds := cs.takeWhile Char.isDigit
    if ds.isEmpty || ds.length > 15 then none
    else some (ds.foldl (fun a c => a * 10 + (c.toNat - 48)) 0, cs.drop ds.length)

def expect (c : Char) : List Char → Option (List Char)
  | x :: xs => if x = c then some xs else none
  | [] => none

/-- program parser, same grammar as the harness (`c15ParseProg`); fuel = input length -/
def parseProg : Nat → List Char → Option (List (Op N) × List Char)
  | 0, _ => none
  | fuel + 1, cs =>
    match cs with
    | [] => some ([], [])
    | ')' :: _ => some ([], cs)
    | _ => loop fuel cs []
where
  loop : Nat → List Char → List (Op N) → Option (List (Op N) × List Char)
    | 0, _, _ => none
    | fuel + 1, cs, acc =>
      match cs with
      | [] => none
      | k :: s =>
        let one : Option (Op N × List Char) :=
          if k = 'z' then some (Op.timeout, s)
          else if k = 'e' then (num s).map fun (a, s) => (Op.emit a, s)
          else if k = 'b' then (num s).map fun (a, s) => (Op.btp a, s)
          else if k = 't' then (num s).map fun (a, s) => (Op.burn a, s)
          else if k = 'f' then (num s).map fun (a, s) => (Op.fail a, s)
          else if k = 'g' then do
            let (a, s) ← num s
            let s ← expect '=' s
            let (b, s) ← num s
            pure (Op.setg a b, s)
          else if k = 's' then do
            let (a, s) ← num s
            let s ← expect '=' s
            let (b, s) ← num s
            if a < nKey then pure (Op.setv a b, s) else none
          else if k = 'x' || k = 'y' then do
            let (a, s) ← num s
            let s ← expect ':' s
            let (b, s) ← num s
            let to ← acct? a
            pure (Op.xfer to (b : Int) (k = 'x'), s)
          else if k = 'c' || k = 'd' then do
            let (a, s) ← num s
            let s ← expect ':' s
            let (b, s) ← num s
            let s ← expect ':' s
            let (c, s) ← num s
            let s ← expect '(' s
            let (body, s) ← parseProg fuel s
            let s ← expect ')' s
            let to ← acct? a
            pure (Op.call to (b : Int) c body (k = 'c'), s)
          else none
        match one with
        | none => none
        | some (op, s) =>
          let acc := acc ++ [op]
          match s with
          | [] => some (acc, [])
          | ')' :: _ => some (acc, s)
          | '.' :: s' => loop fuel s' acc
          | _ => none

def parseWhole (p : String) : Option (List (Op N)) :=
  let cs := p.toList
  match parseProg (cs.length + 2) cs with
  | some (ops, []) => some ops
  | _ => none

structure St where
  cfg : Option (Cfg N)
  w : World N
  txs : List (Tx N)
  depth : Nat     -- fuel: program nesting is bounded by the text length

def St.init : St := ⟨none, ⟨fun a => if a.val = 0 then godBal else 0, fun _ _ => 0, fun _ => none⟩, [], 0⟩

def mkCfg (price dflt input call invoke legacy : Nat) : Cfg N :=
  { price, dflt, input, call, invoke,
    legacyFee := legacy % 2 = 1, legacyBal := legacy / 2 % 2 = 1,
    isContract := fun a => a.val = 7 || a.val = 9, hasContract := fun a => a.val = 9,
    treasury := ⟨8, by decide⟩ }

def showRec (r : Receipt) : String :=
  s!"{r.status}:{r.stepUsed}:{r.stepPrice}:[" ++ ",".intercalate (r.logs.map toString) ++ s!"]:{r.btp}"

/-- rebuild the world as tables so closures do not pile up -/
def normWorld (w : World N) : World N :=
  let b := (Array.finRange N).map w.bal
  let s := (Array.finRange N).map fun a => (Array.range nKey).map (w.store a)
  let g := (Array.finRange N).map w.graph
  { bal := fun a => b[a.val]?.getD 0, store := fun a k => ((s[a.val]?.getD #[])[k]?).getD 0,
    graph := fun a => (g[a.val]?).join }

def showWorld (w : World N) : String :=
  let bs := (List.finRange N).map fun a => toString (if a.val = 0 then w.bal a - godBal else w.bal a)
  let ss := [4, 5, 6, 9].flatMap fun a => match acct? a with
    | some a => (List.range nKey).map fun k => toString (w.store a k)
    | none => []
  let gs := match acct? 9 with
    | some a => (match w.graph a with | some (nh, g) => s!"{nh}/{g}" | none => "-")
    | none => "-"
  ",".intercalate bs ++ "|" ++ ",".intercalate ss ++ "|" ++ gs

def step (s : St) (toks : List String) : St × String :=
  match toks with
  | ["reset"] => (St.init, "ok")
  | ["cfg", p, d, i, c, l, lg] =>
    match p.toNat?, d.toNat?, i.toNat?, c.toNat?, l.toNat?, lg.toNat? with
    | some p, some d, some i, some c, some l, some lg =>
      if s.cfg.isSome || lg > 3 then (s, "bad-op")
      else ({ s with cfg := some (mkCfg p d i c l lg) }, "ok")
    | _, _, _, _, _, _ => (s, "bad-op")
  | ["conc", n] =>
    -- concurrency level of the executor: no effect on the outcome (sequential semantics)
    match s.cfg, n.toNat? with
    | some _, some n => if 1 ≤ n ∧ n ≤ 8 then (s, "ok") else (s, "bad-op")
    | _, _ => (s, "bad-op")
  | "tx" :: kind :: f :: t :: v :: l :: rest =>
    match s.cfg, f.toNat?, t.toNat?, v.toNat?, l.toNat? with
    | some _, some f, some t, some v, some l =>
      match (if f < 5 then acct? f else none), acct? t with
      | some f, some t =>
        match kind, rest with
        | "t", [] => ({ s with txs := s.txs ++ [⟨f, t, v, l, 0, .transfer⟩] }, "ok")
        | "m", [nb, data] =>
          match nb.toNat? with
          | some nb =>
            -- compact JSON of the string data: the text plus two quotes
            if t.val ≥ 7 || nb ≠ data.length + 2 then (s, "bad-op")
            else ({ s with txs := s.txs ++ [⟨f, t, v, l, nb, .message⟩] }, "ok")
          | none => (s, "bad-op")
        | "c", [nb, prog] =>
          match nb.toNat?, parseWhole prog with
          | some nb, some ops =>
            -- {"method":"run","params":{"p":"<prog>"}}
            if !(t.val = 4 || t.val = 5 || t.val = 6 || t.val = 9) || nb ≠ prog.length + 34 then (s, "bad-op")
            else ({ s with txs := s.txs ++ [⟨f, t, v, l, nb, .call ops⟩], depth := max s.depth prog.length }, "ok")
          | _, _ => (s, "bad-op")
        | _, _ => (s, "bad-op")
      | _, _ => (s, "bad-op")
    | _, _, _, _, _ => (s, "bad-op")
  | ["exec"] =>
    match s.cfg with
    | none => (s, "bad-op")
    | some cfg =>
      match execBlock cfg (s.depth + 2) s.w s.txs with
      | none => ({ s with txs := [] }, "rejected")
      | some (rs, w') =>
        let w' := normWorld w'
        ({ s with txs := [], w := w' }, ";".intercalate (rs.map showRec) ++ "|" ++ showWorld w')
  | _ => (s, "bad-op")

end Goloop.Driver.C15
