import Goloop.Base.Proto
import Goloop.Base.Sha3
import Goloop.Model.C27
namespace Goloop.Driver.C27
open Goloop Goloop.C27

structure St where
  acc : Acc := {}
  db : DB := []
  persisted : Option Persisted := none
  leaves : Array Bytes := #[]

def H : Bytes → Bytes := Goloop.sha3_256

def witStr (w : Witness) : String :=
  (if w.dir = .left then "L" else "R") ++ Hex.encodeWire w.hv

def witsStr (ws : List Witness) : String :=
  if ws.isEmpty then "-" else ",".intercalate (ws.map witStr)

def parseWit (s : String) : Option Witness :=
  match s.toList with
  | 'L' :: rest => (Hex.decodeWire (String.ofList rest)).map (⟨.left, ·⟩)
  | 'R' :: rest => (Hex.decodeWire (String.ofList rest)).map (⟨.right, ·⟩)
  | _ => none

def parseWits (s : String) : Option (List Witness) :=
  if s == "-" then some [] else (s.splitOn ",").mapM parseWit

def fnvByte (h : UInt64) (b : UInt8) : UInt64 := (h ^^^ b.toUInt64) * 1099511628211
def fnvBytes (h : UInt64) (bs : Bytes) : UInt64 := bs.foldl fnvByte h
def fnvWits (h : UInt64) (ws : List Witness) : UInt64 :=
  ws.foldl (fun h w => fnvBytes (fnvByte (fnvByte h (if w.dir = .left then 0 else 1)) (UInt8.ofNat w.hv.length)) w.hv) h

def resStr : WRes → String
  | .ok w => "ok " ++ witsStr w
  | .err .notFound => "notfound"
  | .err _ => "err"
  | .panic => "panic"

def rootsStr (hs : List Bytes) : String :=
  if hs.isEmpty then "none" else ",".intercalate (hs.map Hex.encodeWire)

/-- WitnessFor on every index; FNV-1a checksum of everything returned -/
def witAll (s : St) : St × String :=
  let n := s.acc.length
  let (acc, h, bad) := (List.range n).foldl (fun (st : Acc × UInt64 × Nat) idx =>
    let (acc, h, bad) := st
    let (acc', r) := acc.witnessFor s.db idx
    match r with
    | .ok w => (acc', fnvWits (fnvByte h 1) w, bad)
    | .err _ => (acc', fnvByte h 2, bad + 1)
    | .panic => (acc', fnvByte h 3, bad + 1)) (s.acc, 14695981039346656037, 0)
  ({ s with acc := acc }, s!"all {n} {bad} {h.toNat}")

/-- WitnessFor + HashesToWitness + Verify on every index -/
def verAll (s : St) : St × String :=
  let n := s.acc.length
  let (acc, good, bad) := (List.range n).foldl (fun (st : Acc × Nat × Nat) idx =>
    let (acc, good, bad) := st
    let (acc', r) := acc.witnessFor s.db idx
    match r with
    | .ok w =>
      let w2 := hashesToWitness (witnessesToHashes w) idx
      if acc'.verify H w2 (s.leaves.getD idx []) = .ok then (acc', good + 1, bad) else (acc', good, bad + 1)
    | _ => (acc', good, bad + 1)) (s.acc, 0, 0)
  ({ s with acc := acc }, s!"verall {n} {good} {bad}")

def step (s : St) (toks : List String) : St × String :=
  match toks with
  | ["reset"] => ({}, "ok")
  | ["add", x] => match Hex.decodeWire x with
    | some d =>
      let (acc, w) := s.acc.addData H d
      ({ s with acc := acc, leaves := s.leaves.push (H d) }, s!"w {acc.length} " ++ witsStr w)
    | none => (s, "bad-op")
  | ["addh", x] => match Hex.decodeWire x with
    | some h =>
      let (acc, w) := s.acc.addHash H h
      ({ s with acc := acc, leaves := s.leaves.push h }, s!"w {acc.length} " ++ witsStr w)
    | none => (s, "bad-op")
  | ["addq", x] => match Hex.decodeWire x with
    | some d =>
      let (acc, w) := s.acc.addData H d
      ({ s with acc := acc, leaves := s.leaves.push (H d) }, s!"w {acc.length} " ++ witsStr w)
    | none => (s, "bad-op")
  | ["addhq", x] => match Hex.decodeWire x with
    | some h =>
      let (acc, w) := s.acc.addHash H h
      ({ s with acc := acc, leaves := s.leaves.push h }, s!"w {acc.length} " ++ witsStr w)
    | none => (s, "bad-op")
  | ["wit", x] => match x.toNat? with
    | some idx =>
      let (acc, r) := s.acc.witnessFor s.db idx
      ({ s with acc := acc }, resStr r)
    | none => (s, "bad-op")
  | ["ver", hx, ws] => match Hex.decodeWire hx, parseWits ws with
    | some h, some w =>
      (s, match s.acc.verify H w h with
          | .ok => "ok" | .newer => "newer" | .invalid => "invalid")
    | _, _ => (s, "bad-op")
  | ["witall"] => witAll s
  | ["verall"] => verAll s
  | ["flush"] =>
    let (acc, db, p) := s.acc.flush s.db
    ({ s with acc := acc, db := db, persisted := some p }, s!"flushed {p.length} " ++ rootsStr p.roots)
  | ["recoverself"] =>
    -- Recover on the object in use: the model's `recover` does not look at the old state
    let acc := recover s.persisted
    ({ s with acc := acc, leaves := if s.leaves.size > acc.length then s.leaves.extract 0 acc.length else s.leaves },
      s!"recovered {acc.length} {acc.roots.length}")
  | ["recover"] =>
    let acc := recover s.persisted
    ({ s with acc := acc, leaves := if s.leaves.size > acc.length then s.leaves.extract 0 acc.length else s.leaves },
      s!"recovered {acc.length} {acc.roots.length}")
  | ["tamper", a, b, c] => match a.toNat?, b.toNat?, c.toNat? with
    | some idx, some kind, some pos =>
      if idx ≥ s.leaves.size then (s, "bad-op") else
      let (acc, r) := s.acc.witnessFor s.db idx
      let s := { s with acc := acc }
      match r with
      | .ok w =>
        let h := s.leaves.getD idx []
        let kind := if w.isEmpty ∧ kind ≠ 4 then 0 else kind
        let p := if w.isEmpty then 0 else pos % w.length
        let wp : Witness := w.getD p ⟨.left, []⟩
        let flip (bs : Bytes) : Bytes :=
          if bs.isEmpty then bs else bs.set (pos % bs.length) (bs.getD (pos % bs.length) 0 ^^^ 1)
        let (w', h') : List Witness × Bytes :=
          match kind with
          | 1 => (w.set p { wp with hv := flip wp.hv }, h)
          | 2 => (w.set p { wp with dir := if wp.dir = .left then .right else .left }, h)
          | 3 => (w.eraseIdx p, h)
          | 4 => (w, flip h)
          | 5 => (w.take (p + 1) ++ w.drop p, h)
          | 6 => (w.set p { wp with hv := wp.hv.take (pos % 33 % (wp.hv.length + 1)) }, h)
          | 7 => (w ++ [w.getD 0 ⟨.left, []⟩], h)
          | _ => (w, h)
        (s, match s.acc.verify H w' h' with
            | .ok => "ok" | .newer => "newer" | .invalid => "invalid")
      | _ => (s, "err")
    | _, _, _ => (s, "bad-op")
  | ["roots"] =>
    (s, s!"roots {s.acc.length} " ++ rootsStr (s.acc.roots.map fun r => match r with
      | some n => n.hashOf | none => []))
  | ["shape"] =>
    (s, s!"shape {s.acc.length} " ++ String.ofList (s.acc.roots.map fun r => if r.isSome then '1' else '0'))
  | _ => (s, "bad-op")

end Goloop.Driver.C27
def main : IO Unit := Goloop.Proto.run Goloop.Driver.C27.step {}
