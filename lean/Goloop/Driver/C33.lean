import Goloop.Base.Proto
import Goloop.Model.C33
namespace Goloop.Driver.C33
open Goloop Goloop.C33

abbrev St := Option Pool

def b01 (b : Bool) : String := if b then "1" else "0"

def joinNat (xs : List String) : String := ",".intercalate xs

def stateStr (p : Pool) : String :=
  let lens := joinNat (p.lens.map toString)
  let sizes := joinNat (p.buckets.map (fun b => match b with
    | none => "-1"
    | some m => toString m.length))
  s!"cur={p.cur} len={lens} size={sizes}"

def idBytes (n : Nat) : Bytes := [UInt8.ofNat (n / 256), UInt8.ofNat n]

def bool? (s : String) : Option Bool :=
  if s = "1" then some true else if s = "0" then some false else none

def outcomeStr : Outcome → String
  | .closeNotRegistered => "close"
  | .dropUndetermined => "drop-undetermined"
  | .dropSelfSrc => "drop-self"
  | .dropOneHopSrc => "drop-1hop"
  | .dropNotAuthorized => "drop-unauth"
  | .deliver => "deliver"
  | .dropDuplicate => "drop-dup"
  | .closeNoCallback => "close-nocb"

def step (s : St) (toks : List String) : St × String :=
  match toks with
  | ["reset"] => (none, "ok")
  | [op, nb, bl] =>
    if op = "new" ∨ op = "node" then
      match nb.toNat?, bl.toNat? with
      | some n, some l =>
        if n ≥ 256 ∨ l ≥ 65536 then (s, "bad-op")
        else if n = 0 then (none, "panic")          -- index out of range in NewPacketPool
        else (some (newPool n l), "ok")
      | _, _ => (s, "bad-op")
    else (s, "bad-op")
  | ["put", h] =>
    match s, h.toNat? with
    | some p, some v =>
      if v ≥ 2 ^ 64 then (s, "bad-op") else
      let r := put p (UInt64.ofNat v)
      (some r.1, b01 r.2)
    | _, _ => (s, "bad-op")
  | ["has", h] =>
    match s, h.toNat? with
    | some p, some v =>
      if v ≥ 2 ^ 64 then (s, "bad-op") else (s, b01 (contains p (UInt64.ofNat v)))
    | _, _ => (s, "bad-op")
  | ["clear"] =>
    match s with
    | some p => (some (clear p), "ok")
    | none => (s, "bad-op")
  | ["state"] =>
    match s with
    | some p => (s, stateStr p)
    | none => (s, "bad-op")
  | ["pkt", peer, hasProto, connType, role, src, dest, ttl, hasCb, hash] =>
    match s, peer.toNat?, bool? hasProto, connType.toNat?, role.toNat?, src.toNat?, dest.toNat?,
        ttl.toNat?, bool? hasCb, hash.toNat? with
    | some p, some pe, some hp, some ct, some ro, some sr, some de, some tt, some cb, some hv =>
      if pe ≥ 65536 ∨ sr ≥ 65536 ∨ ct ≥ 7 ∨ ro ≥ 256 ∨ de ≥ 256 ∨ tt ≥ 256 ∨ hv ≥ 2 ^ 64 then
        (s, "bad-op")
      else
        let e : Ev := { peerHasProto := hp, connNone := ct == 0, self := idBytes 0,
                        peerId := idBytes pe, peerRole := UInt8.ofNat ro, src := idBytes sr,
                        dest := UInt8.ofNat de, ttl := UInt8.ofNat tt, hasCb := cb,
                        hash := UInt64.ofNat hv }
        let r := onPacket p e
        (some r.1, outcomeStr r.2)
    | _, _, _, _, _, _, _, _, _, _ => (s, "bad-op")
  | _ => (s, "bad-op")

end Goloop.Driver.C33
def main : IO Unit := Goloop.Proto.run Goloop.Driver.C33.step none
