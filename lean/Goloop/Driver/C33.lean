import Goloop.Base.Proto
import Goloop.Model.C33
namespace Goloop.Driver.C33
open Goloop Goloop.C33

abbrev St := Option Pool

/-- relay nodes (ops rnode/peer/rpkt) keep their peers here; `none` pool = no node -/
structure RSt where
  pool : Option Pool
  selfRole : UInt8
  peers : List PeerInfo
  proles : List UInt8 := []   -- role flags the node keeps for each persistent peer
  rver : Nat := 0             -- version of the allowed-roots set (manager.SetRole)

def b01 (b : Bool) : String := if b then "1" else "0"

def joinNat (xs : List String) : String := ",".intercalate xs

def stateStr (p : Pool) : String :=
  let lens := joinNat (p.lens.map toString)
  let sizes := joinNat (p.buckets.map (fun b => match b with
    | none => "-1"
    | some m => toString m.length))
  s!"cur={p.cur} len={lens} size={sizes}"

def idBytes (n : Nat) : Bytes := [UInt8.ofNat (n / 256), UInt8.ofNat n]

def bool? (s : String) : Option Bool :=
  if s = "1" then some true else if s = "0" then some false else none

def ctlStr : Ctl → String
  | .queryReq => "control-queryreq" | .queryResp => "control-queryresp"
  | .rttReq => "control-rttreq" | .rttResp => "control-rttresp"
  | .connReq => "control-connreq" | .connResp => "control-connresp"

def idNum : Bytes → Nat
  | [hi, lo] => hi.toNat * 256 + lo.toNat
  | _ => 0

def insertSorted (x : Nat) : List Nat → List Nat
  | [] => [x]
  | y :: ys => if x ≤ y then x :: y :: ys else y :: insertSorted x ys

def sortNat (xs : List Nat) : List Nat := xs.foldr insertSorted []

def outcomeStr : Outcome → String
  | .control c => ctlStr c
  | .closeCtlSub => "close-ctlsub"
  | .closeCtlProto => "close-ctlproto"
  | .closeNotRegistered => "close"
  | .dropUndetermined => "drop-undetermined"
  | .dropSelfSrc => "drop-self"
  | .dropOneHopSrc => "drop-1hop"
  | .dropNotAuthorized => "drop-unauth"
  | .deliver => "deliver"
  | .dropDuplicate => "drop-dup"
  | .closeNoCallback => "close-nocb"

def stepOld (s : St) (toks : List String) : St × String :=
  match toks with
  | [op, nb, bl] =>
    if op = "new" ∨ op = "node" then
      match nb.toNat?, bl.toNat? with
      | some n, some l =>
        if n ≥ 256 ∨ l ≥ 65536 then (s, "bad-op")
        else if n = 0 then (none, "panic")          -- index out of range in NewPacketPool
        else (some (newPool n l), "ok")
      | _, _ => (s, "bad-op")
    else (s, "bad-op")
  | ["put", h] =>
    match s, h.toNat? with
    | some p, some v =>
      if v ≥ 2 ^ 64 then (s, "bad-op") else
      let r := put p (UInt64.ofNat v)
      (some r.1, b01 r.2)
    | _, _ => (s, "bad-op")
  | ["has", h] =>
    match s, h.toNat? with
    | some p, some v =>
      if v ≥ 2 ^ 64 then (s, "bad-op") else (s, b01 (contains p (UInt64.ofNat v)))
    | _, _ => (s, "bad-op")
  | ["clear"] =>
    match s with
    | some p => (some (clear p), "ok")
    | none => (s, "bad-op")
  | ["state"] =>
    match s with
    | some p => (s, stateStr p)
    | none => (s, "bad-op")
  | ["pkt", peer, hasProto, connType, role, src, dest, ttl, hasCb, hash] =>
    match s, peer.toNat?, bool? hasProto, connType.toNat?, role.toNat?, src.toNat?, dest.toNat?,
        ttl.toNat?, bool? hasCb, hash.toNat? with
    | some p, some pe, some hp, some ct, some ro, some sr, some de, some tt, some cb, some hv =>
      if pe ≥ 65536 ∨ sr ≥ 65536 ∨ ct ≥ 7 ∨ ro ≥ 256 ∨ de ≥ 256 ∨ tt ≥ 256 ∨ hv ≥ 2 ^ 64 then
        (s, "bad-op")
      else
        let e : Ev := { peerHasProto := hp, connNone := ct == 0, self := idBytes 0,
                        peerId := idBytes pe, peerRole := UInt8.ofNat ro, src := idBytes sr,
                        dest := UInt8.ofNat de, ttl := UInt8.ofNat tt, hasCb := cb,
                        hash := UInt64.ofNat hv }
        let r := onPacket p e
        (some r.1, outcomeStr r.2)
    | _, _, _, _, _, _, _, _, _, _ => (s, "bad-op")
  | _ => (s, "bad-op")

def mapAllNat : List String → Option (List Nat)
  | [] => some []
  | x :: xs => match x.toNat?, mapAllNat xs with
    | some n, some l => some (n :: l)
    | _, _ => none

def rpktStep (s : RSt) (idx role src dest ttl hash rel : String) : RSt × String :=
    match s.pool, idx.toNat?, role.toNat?, src.toNat?, dest.toNat?, ttl.toNat?, hash.toNat?, bool? rel with
    | some p, some ix, some ro, some sr, some de, some tt, some hv, some rl =>
      match s.peers[ix]? with
      | some pe =>
        if ro ≥ 256 ∨ sr ≥ 65536 ∨ de ≥ 256 ∨ tt ≥ 256 ∨ hv ≥ 2 ^ 64 ∨ hv = 0 then (s, "bad-op")
        else
          let e : Ev := { peerHasProto := pe.hasProto, connNone := pe.connType == 0, self := idBytes 0,
                          peerId := pe.id, peerRole := UInt8.ofNat ro, src := idBytes sr,
                          dest := UInt8.ofNat de, ttl := UInt8.ofNat tt, hasCb := true,
                          hash := UInt64.ofNat hv }
          let r := nodeStep { pool := p, selfRole := s.selfRole, peers := s.peers } ix e rl
          let ids := sortNat (r.2.2.map idNum)
          let rs := if ids.isEmpty then "-" else ",".intercalate (ids.map toString)
          ({ s with pool := some r.1.pool, peers := r.1.peers, proles := s.proles.set ix (UInt8.ofNat ro) },
            s!"{outcomeStr r.2.1} {rs}")
      | none => (s, "bad-op")
    | _, _, _, _, _, _, _, _ => (s, "bad-op")

def step (s : RSt) (toks : List String) : RSt × String :=
  match toks with
  | ["reset"] => ({ pool := none, selfRole := 0, peers := [] }, "ok")
  | ["rnode", nb, bl, role] =>
    match nb.toNat?, bl.toNat?, role.toNat? with
    | some n, some l, some r =>
      if n = 0 ∨ n ≥ 256 ∨ l ≥ 65536 ∨ r ≥ 256 then (s, "bad-op")
      else ({ pool := some (newPool n l), selfRole := UInt8.ofNat r, peers := [], proles := [], rver := 0 }, "ok")
    | _, _, _ => (s, "bad-op")
  | ["peer", id, ct, hp] =>
    match s.pool, id.toNat?, ct.toNat?, bool? hp with
    | some _, some i, some c, some h =>
      if i = 0 ∨ i ≥ 65536 ∨ c ≥ 7 ∨ s.peers.any (fun p => p.id == idBytes i) then (s, "bad-op")
      else ({ s with peers := s.peers ++ [{ id := idBytes i, connType := c, hasProto := h, known := [] }],
                     proles := s.proles ++ [0] },
            s!"ok {s.peers.length}")
    | _, _, _, _ => (s, "bad-op")
  | ["setval", ver, ids] =>
    -- manager.SetRole(version, RoleValidator, ids): ignored unless the version is newer; then
    -- exactly the connected peers (and the node itself) in the new set carry the root flag
    match s.pool, ver.toNat?, mapAllNat (if ids = "_" then [] else ids.splitOn ",") with
    | some _, some v, some l =>
      if l.any (· ≥ 65536) then (s, "bad-op")
      else if v ≤ s.rver then (s, "ok")
      -- ClearAndAdd = Clear (no onUpdate) + Merge (onUpdate only if something was added): an
      -- EMPTY new set is stored but the role flags are not touched (transcribed)
      else if l.isEmpty then ({ s with rver := v }, "ok")
      else
        let flag := fun (id : Nat) (r : UInt8) => if l.contains id then r ||| 2 else r &&& 0xFD
        let proles := (s.peers.zip s.proles).map (fun pr => flag (idNum pr.1.id) pr.2)
        ({ s with rver := v, proles := proles, selfRole := flag 0 s.selfRole }, "ok")
    | _, _, _ => (s, "bad-op")
  | ["rpkt2", idx, src, dest, ttl, hash, rel] =>
    match idx.toNat? with
    | some ix => match s.proles[ix]? with
      | some ro => rpktStep s idx (toString ro.toNat) src dest ttl hash rel
      | none => (s, "bad-op")
    | none => (s, "bad-op")
  | ["rpkt", idx, role, src, dest, ttl, hash, rel] => rpktStep s idx role src dest ttl hash rel
  | ["cput", hash, g] =>
    -- g concurrent Put calls with the same hash: Put is atomic (mutex), so the calls are
    -- serialised in some order: the first decides, the others find the hash
    match s.pool, hash.toNat?, g.toNat? with
    | some p, some hv, some gn =>
      if hv ≥ 2 ^ 64 ∨ gn = 0 ∨ gn > 64 then (s, "bad-op")
      else
        let r := put p (UInt64.ofNat hv)
        let r2 := (List.range (gn - 1)).foldl (fun (acc : Pool × Nat) _ =>
          let q := put acc.1 (UInt64.ofNat hv)
          (q.1, acc.2 + (if q.2 then 1 else 0))) (r.1, if r.2 then 1 else 0)
        ({ s with pool := some r2.1 }, s!"accepted {r2.2}")
    | _, _, _ => (s, "bad-op")
  | ["conc", g, src, hash] =>
    match s.pool, g.toNat?, src.toNat?, hash.toNat? with
    | some p, some gn, some sr, some hv =>
      if hv ≥ 2 ^ 64 ∨ hv = 0 ∨ gn = 0 ∨ gn > 64 ∨ sr = 0 ∨ sr ≥ 65536 then (s, "bad-op")
      else
        let r := (List.range gn).foldl (fun (acc : Pool × Nat) i =>
          let e : Ev := { peerHasProto := true, connNone := false, self := idBytes 0,
                          peerId := [0xcc, UInt8.ofNat (i + 1), 0], peerRole := 0, src := idBytes sr,
                          dest := destAny, ttl := 0, hasCb := true, hash := UInt64.ofNat hv }
          let q := onPacketFull acc.1 e
          (q.1, acc.2 + (if q.2 = .deliver then 1 else 0))) (p, 0)
        ({ s with pool := some r.1 }, s!"delivered {r.2}")
    | _, _, _, _ => (s, "bad-op")
  | ["cpkt", hp, ver, sub] =>
    match s.pool, bool? hp, ver.toNat?, sub.toNat? with
    | some p, some h, some v, some sb =>
      if v ≥ 256 ∨ sb ≥ 65536 then (s, "bad-op")
      else
        let e : Ev := { peerHasProto := h, connNone := false, self := idBytes 0, peerId := idBytes 9,
                        peerRole := 0, src := idBytes 9, dest := destPeer, ttl := 1, hasCb := true,
                        hash := 1, protoId := 0, protoVer := UInt8.ofNat v, sub := sb }
        let r := onPacketFull p e
        ({ s with pool := some r.1 }, outcomeStr r.2)
    | _, _, _, _ => (s, "bad-op")
  | _ =>
    let r := stepOld s.pool toks
    -- `new`/`node` start a fresh object without peers
    match toks with
    | [op, _, _] => if op = "new" ∨ op = "node" then ({ pool := r.1, selfRole := 0, peers := [] }, r.2)
                    else ({ s with pool := r.1 }, r.2)
    | _ => ({ s with pool := r.1 }, r.2)

end Goloop.Driver.C33
def main : IO Unit :=
  Goloop.Proto.run Goloop.Driver.C33.step { pool := none, selfRole := 0, peers := [] }
