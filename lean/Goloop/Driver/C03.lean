import Goloop.Base.Proto
import Goloop.Model.C03
namespace Goloop.Driver.C03
open Goloop Goloop.C03

inductive Phase where
  | closed (d : Disk)
  | opened (w : Writer)

def init : Phase := .closed {}

def joinWith (sep : String) : List String → String
  | [] => ""
  | [x] => x
  | x :: xs => x ++ sep ++ joinWith sep xs

def sizes (head : Nat) (files : List Bytes) : String :=
  if files.isEmpty then "h=- sz=."
  else s!"h={head} sz={joinWith "," (files.map fun f => toString f.length)}"

def hex8 (n : Nat) : String :=
  String.ofList ((List.range 8).reverse.map fun i => Hex.digit (n / 16 ^ i % 16))

/-- CRC-32C of the concatenation of all files -/
def diskSum (files : List Bytes) : String := s!"crc={hex8 (crc32c files.flatten).toNat}"

def writerOut (w : Writer) : String :=
  if w.tailUnlinked then "unmodelled"
  else s!"ok {sizes w.head w.files} buf={w.buf.length} d={if w.dirty then 1 else 0}"

def endName : ReadEnd → String
  | .eof => "eof"
  | .unexpectedEOF => "short"
  | .corrupted => "crc"

def recsOut (rs : List Bytes) : String :=
  if rs.isEmpty then "." else joinWith "," (rs.map Hex.encodeWire)

def readOut (recs : List Bytes) (e : ReadEnd) (head : Nat) (files : List Bytes) : String :=
  s!"ok end={endName e} n={recs.length} recs={recsOut recs} {sizes head files} {diskSum files}"

def effName : FsEffect → String
  | .remove i => s!"r{i}"
  | .truncate i _ => s!"w{i}"
  | .write i => s!"w{i}"
  | .create i => s!"c{i}"

def effsOut (es : List FsEffect) : String :=
  if es.isEmpty then "." else joinWith "," (es.map effName)

def pokeFile (f : Bytes) (off : Nat) (x : Nat) : Bytes :=
  f.take off ++ (match f.drop off with
    | [] => []
    | b :: rest => (b ^^^ UInt8.ofNat x) :: rest)

def pokeFiles : List Bytes → Nat → Nat → Nat → Option (List Bytes)
  | [], _, _, _ => none
  | f :: fs, 0, off, x => if off < f.length then some (pokeFile f off x :: fs) else none
  | f :: fs, i + 1, off, x => (pokeFiles fs i off x).map (f :: ·)

def step (s : Phase) (toks : List String) : Phase × String :=
  match toks, s with
  | ["reset"], _ => (init, "ok")
  | ["open", a, b, c], .closed d =>
    match a.toNat?, b.toNat?, c with
    | some fl, some tl, "0" | some fl, some tl, "1" =>
      if fl = 0 ∨ tl = 0 ∨ fl ≥ 2 ^ 63 ∨ tl ≥ 2 ^ 63 then (s, "bad-op")
      else
        let w := openWriter { fileLimit := fl, totalLimit := tl, syncDue := c == "1" } d
        (.opened w, writerOut w)
    | _, _, _ => (s, "bad-op")
  | ["w", h], .opened w =>
    match Hex.decodeWire h with
    | some p => let w' := w.write crc32c p; (.opened w', writerOut w')
    | none => (s, "bad-op")
  | ["sync"], .opened w => let w' := w.sync; (.opened w', writerOut w')
  | ["shift"], .opened w => let w' := w.shift; (.opened w', writerOut w')
  | ["hk"], .opened w => let w' := w.housekeep; (.opened w', writerOut w')
  | ["close"], .opened w => let d := w.close; (.closed d, s!"ok {sizes d.head d.files} {diskSum d.files}")
  | ["crash", sign, ks], .opened w =>
    match ks.toNat? with
    | some k =>
      if k ≥ 2 ^ 63 then (s, "bad-op") else
      let unsynced := (w.tail ++ w.buf).length - w.synced
      let k' := min k unsynced
      if sign = "+" then let d := w.crash k'; (.closed d, s!"ok {sizes d.head d.files} {diskSum d.files}")
      else if sign = "-" then let d := w.crash (unsynced - k'); (.closed d, s!"ok {sizes d.head d.files} {diskSum d.files}")
      else (s, "bad-op")
    | none => (s, "bad-op")
  | ["recover"], .closed d =>
    match recover crc32c d with
    | none => (s, "err")
    | some (recs, e, d') => (.closed d', readOut recs e d'.head d'.files)
  | ["recoverc", js], .closed d =>
    match js.toNat? with
    | some j =>
      if j ≥ 2 ^ 31 then (s, "bad-op")
      else if d.files.isEmpty then (s, "err")
      else
        let r := readAll crc32c d.files.flatten
        let effs := match r.2.2 with
          | .eof => []
          | _ => repairEffects d.head r.2.1 d.files
        let d' := recoverPartial crc32c j d
        (.closed d', s!"ok end={endName r.2.2} n={r.1.length} eff={effsOut effs} {sizes d'.head d'.files} {diskSum d'.files}")
    | none => (s, "bad-op")
  | ["crashshift", js, ks], .opened w =>
    match js.toNat?, ks.toNat? with
    | some j, some k =>
      if j ≥ 2 ^ 31 ∨ k ≥ 2 ^ 63 then (s, "bad-op") else
      let d := w.crashInShift j k
      (.closed d, s!"ok eff={effsOut (shiftEffects w)} {sizes d.head d.files} {diskSum d.files}")
    | _, _ => (s, "bad-op")
  | ["read"], .closed d =>
    if d.files.isEmpty then (s, "err")
    else let r := readAll crc32c d.files.flatten; (s, readOut r.1 r.2.2 d.head d.files)
  | ["read"], .opened w =>
    let r := readAll crc32c w.files.flatten; (s, readOut r.1 r.2.2 w.head w.files)
  | ["poke", a, b, c], .closed d =>
    match a.toNat?, b.toNat?, c.toNat? with
    | some i, some off, some x =>
      if x ≥ 256 ∨ i ≥ 2 ^ 31 ∨ off ≥ 2 ^ 63 then (s, "bad-op") else
      match pokeFiles d.files i off x with
      | some fs => (.closed { d with files := fs }, "ok")
      | none => (s, "skip")
    | _, _, _ => (s, "bad-op")
  | _, _ => (s, "bad-op")

end Goloop.Driver.C03
def main : IO Unit := Goloop.Proto.run Goloop.Driver.C03.step Goloop.Driver.C03.init
