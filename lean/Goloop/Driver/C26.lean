import Goloop.Base.Proto
import Goloop.Base.Sha3
import Goloop.Model.C26
namespace Goloop.Driver.C26
open Goloop Goloop.C26

/-- eight bloom slots -/
structure State where
  slots : List Nat            -- 0..7 bloom slots, 8 = bloom of the receipt being built
  done : List Nat := []       -- blooms of finished receipts, oldest first

def initState : State := { slots := List.replicate 9 0 }

def getSlot (s : State) (k : Nat) : Nat := s.slots.getD k 0
def setSlot (s : State) (k : Nat) (v : Nat) : State := { s with slots := s.slots.set k v }

def showBloom (b : Nat) : String := Hex.encodeWire (natBytes b)

def parseIdx : List String → Option (List (Option Bytes))
  | [] => some []
  | t :: rest =>
    match parseIdx rest with
    | none => none
    | some r =>
      if t == "nil" then some (none :: r)
      else match Hex.decodeWire t with
        | some b => some (some b :: r)
        | none => none

def slotOf (t : String) : Option Nat :=
  match t.toNat? with
  | some k => if k < 8 then some k else none
  | none => none

def boolStr (b : Bool) : String := if b then "true" else "false"

def step (s : State) (toks : List String) : State × String :=
  match toks with
  | ["reset"] => (initState, "ok")
  | "addlog" :: k :: a :: idx =>
    match slotOf k, Hex.decodeWire a, parseIdx idx with
    | some k, some a, some idx =>
      let b := addLog sha3_256 (getSlot s k) a idx
      (setSlot s k b, showBloom b)
    | _, _, _ => (s, "bad-op")
  | ["addaddr", k, a] =>
    match slotOf k, Hex.decodeWire a with
    | some k, some a =>
      let b := addItem sha3_256 (getSlot s k) (addrItem a)
      (setSlot s k b, showBloom b)
    | _, _ => (s, "bad-op")
  | ["addidx", k, i, v] =>
    match slotOf k, i.toNat?, Hex.decodeWire v with
    | some k, some i, some v =>
      let b := addItem sha3_256 (getSlot s k) (indexedItem i v)
      (setSlot s k b, showBloom b)
    | _, _, _ => (s, "bad-op")
  | ["merge", k, j] =>
    match slotOf k, slotOf j with
    | some k, some j =>
      let b := merge (getSlot s k) (getSlot s j)
      (setSlot s k b, showBloom b)
    | _, _ => (s, "bad-op")
  | ["contain", k, j] =>
    match slotOf k, slotOf j with
    | some k, some j => (s, boolStr (contain (getSlot s k) (getSlot s j)))
    | _, _ => (s, "bad-op")
  | ["qaddr", k, a] =>
    match slotOf k, Hex.decodeWire a with
    | some k, some a => (s, boolStr (contain (getSlot s k) (addItem sha3_256 0 (addrItem a))))
    | _, _ => (s, "bad-op")
  | ["qidx", k, i, v] =>
    match slotOf k, i.toNat?, Hex.decodeWire v with
    | some k, some i, some v =>
      (s, boolStr (contain (getSlot s k) (addItem sha3_256 0 (indexedItem i v))))
    | _, _, _ => (s, "bad-op")
  | ["comp", k] =>
    match slotOf k with
    | some k => (s, Hex.encodeWire (compressedBytes (getSlot s k)))
    | none => (s, "bad-op")
  | ["copycomp", k, j] =>
    match slotOf k, slotOf j with
    | some k, some j =>
      let b := fromCompressed (compressedBytes (getSlot s j))
      (setSlot s k b, showBloom b)
    | _, _ => (s, "bad-op")
  | ["fromcomp", k, h] =>
    match slotOf k, Hex.decodeWire h with
    | some k, some bs =>
      let b := fromCompressed bs
      (setSlot s k b, showBloom b)
    | _, _ => (s, "bad-op")
  | ["setbytes", k, h] =>
    match slotOf k, Hex.decodeWire h with
    | some k, some bs =>
      let b := beNat bs
      (setSlot s k b, showBloom b)
    | _, _ => (s, "bad-op")
  | ["logbytes", k] =>
    match slotOf k with
    | some k => match logBytes (getSlot s k) with
      | some bs => (s, Hex.encodeWire bs)
      | none => (s, "panic")
    | none => (s, "bad-op")
  | "rcptlog" :: a :: idx =>
    -- Receipt.AddLog on the receipt being built
    match Hex.decodeWire a, parseIdx idx with
    | some a, some idx =>
      let b := addLog sha3_256 (getSlot s 8) a idx
      (setSlot s 8 b, showBloom b)
    | _, _ => (s, "bad-op")
  | ["rcptdone", mode] =>
    -- pay / plain: the bloom is kept; nobloom: DisableLogsBloom clears it
    if mode == "pay" || mode == "plain" || mode == "nobloom" then
      let b := if mode == "nobloom" then 0 else getSlot s 8
      ({ setSlot s 8 0 with done := s.done ++ [b] }, showBloom b)
    else (s, "bad-op")
  | ["rcptcheck"] =>
    -- receipts serialised into a receipt list and read back: their blooms
    (s, if s.done.isEmpty then "none" else ",".intercalate (s.done.map showBloom))
  | _ => (s, "bad-op")
end Goloop.Driver.C26
def main : IO Unit := Goloop.Proto.run Goloop.Driver.C26.step Goloop.Driver.C26.initState
