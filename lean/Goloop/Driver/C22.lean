import Goloop.Base.Proto
import Goloop.Model.C22
namespace Goloop.Driver.C22
open Goloop Goloop.C22

/-- digest of a sequence that should be 0,1,2,… (same function as in harness/c22.go) -/
def digestAux : Nat → List Int → Option String
  | _, [] => none
  | i, v :: r => if v = (i : Int) then digestAux (i + 1) r else some s!"dev@{i}={v}"

def digest (seq : List Int) (n : Nat) : String :=
  match digestAux 0 seq with
  | some s => s
  | none => if seq.length ≠ n then s!"len={seq.length}" else "identity"

def optI : Option Nat → Int
  | some v => v
  | none => -2

/-- consecutive keys ascending in trie order (used instead of the quadratic sorted-map
    model for long lists; by `Goloop.C22.fromSlice_eq` this is what makes the list the identity) -/
def ascending : Nat → Nat → Bool
  | 0, _ => true
  | fuel + 1, i => klt (intToKey i) (intToKey (i + 1)) && ascending fuel (i + 1)

def fullLimit : Nat := 1500

def listLine (n : Nat) (withIdx : Bool) : String :=
  if n ≤ fullLimit then
    let t := fromSlice (List.range n)
    let it := iterate t
    let seq := it.map (fun p => (p.1 : Int))
    let idxs := it.map (fun p => optI p.2)
    let gets := (List.range n).map (fun i => optI (get t i))
    let oob := if (get t n).isSome || (get t (n + 1)).isSome || (get t (2 * n + 7)).isSome then "found" else "none"
    let a := digest seq n
    let b := if withIdx then digest idxs n else "identity"
    let c := digest gets n
    s!"n={n} iter={a} idx={b} get={c} oob={oob} reload: iter={a} idx={b} get={c}"
  else if ascending (n - 1) 0 then
    s!"n={n} iter=identity idx=identity get=identity oob=none reload: iter=identity idx=identity get=identity"
  else
    s!"n={n} keys-not-ascending"

def step (s : Unit) (toks : List String) : Unit × String :=
  let out := match toks with
  | ["reset"] => "ok"
  | ["key", x] => match x.toNat? with
      | some v => if v < 2 ^ 63 then Hex.encodeWire (intToKey v) else "bad-op"
      | none => "bad-op"
  | ["unkey", h] => match Hex.decodeWire h with
      | some [] => "err"
      | some (t :: r) =>
        if t.toNat ≥ 0xb8 then "bad-op"
        else match keyToInt (t :: r) with
          | some v => s!"ok {v}"
          | none => "err"
      | none => "bad-op"
  | ["list", k, n, v] =>
    match n.toNat?, v.toInt? with
    | some n, some _ =>
      if n > 200000 then "bad-op"
      else if k == "tx" then listLine n true
      else if k == "rc" then listLine n false
      else "bad-op"
    | _, _ => "bad-op"
  | _ => "bad-op"
  (s, out)
end Goloop.Driver.C22
def main : IO Unit := Goloop.Proto.run Goloop.Driver.C22.step ()
