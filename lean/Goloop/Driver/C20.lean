import Goloop.Base.Proto
import Goloop.Base.Sha3
import Goloop.Base.Rlp
import Goloop.Model.C20
namespace Goloop.Driver.C20
open Goloop Goloop.C20

/-- hash link of a child item: a 32-byte string -/
def linkOf : Rlp.Item → Option Bytes
  | .bytes b => if b.length = 32 then some b else none
  | _ => none

/-- `refs` instance for ompt node payloads (what `deserialize` + `resolve` visit). -/
def omptRefs (payload : Bytes) : Option (List Bytes) :=
  match Rlp.decodeItem payload with
  | some (.list xs, []) =>
    if xs.length = 17 then some ((xs.take 16).filterMap linkOf)
    else if xs.length = 2 then
      match xs with
      | [.bytes (h :: _), nxt] =>
        if h &&& 0x20 = 0 then some ((linkOf nxt).toList) else some []
      | _ => none
    else none
  | _ => none

/-- blob referenced by an object value: 0x01 ++ 32-byte hash -/
def valRef : Rlp.Item → Option Bytes
  | .bytes (t :: h) => if t = 0x01 ∧ h.length = 32 then some h else none
  | _ => none

/-- `refs` instance for object-valued tries of the harness (values may refer to a blob in the
    BytesByHash bucket, requested by the object's `Resolve` after the children of the node):
    branch: children 0..15 then the branch value; leaf: its value; blob payloads (first byte 0)
    refer to nothing. -/
def omptRefsObj (payload : Bytes) : Option (List Bytes) :=
  match payload with
  | 0x00 :: _ => some []
  | _ =>
    match Rlp.decodeItem payload with
    | some (.list xs, []) =>
      if xs.length = 17 then
        some ((xs.take 16).filterMap linkOf ++ ((xs.drop 16).head?.bind valRef).toList)
      else if xs.length = 2 then
        match xs with
        | [.bytes (h :: _), nxt] =>
          if h &&& 0x20 = 0 then some ((linkOf nxt).toList) else some ((valRef nxt).toList)
        | _ => none
      else none
    | _ => none

def cfg : Cfg := { H := sha3_256, refs := omptRefs }
def cfgObj : Cfg := { H := sha3_256, refs := omptRefsObj }

def short (b : Bytes) : String := Hex.encode (b.take 4)

def refsWire : Option (List Bytes) → String
  | none => "X"
  | some [] => "-"
  | some rs => String.intercalate "," (rs.map Hex.encode)

/-- insertion sort of strings (request order is canonicalised away: it is not part of the property) -/
def insertSorted (x : String) : List String → List String
  | [] => [x]
  | y :: ys => if x ≤ y then x :: y :: ys else y :: insertSorted x ys

def sortStrings (l : List String) : List String := l.foldr insertSorted []

def render (tag : String) (s : St) : String :=
  let rs := String.intercalate "," (sortStrings (s.reqs.map short))
  s!"{tag} {s.reqs.length} {s.resolved} {if rs.isEmpty then "-" else rs}"

def distinctKeys (st : List (Bytes × Bytes)) : Nat := (st.map (·.1)).eraseDups.length

structure DS where
  s : St := {}
  started : Bool := false
  obj : Bool := false

def step (d : DS) (toks : List String) : DS × String :=
  match toks with
  | ["reset"] => ({}, "ok")
  | ["src", _, _] => if d.started then (d, "bad-op") else (d, "ok")
  | ["blob", _] => if d.started then (d, "bad-op") else (d, "ok")
  | [b, r] =>
    if b == "begin" || b == "begin-obj" then
      if d.started then (d, "bad-op") else
      match Hex.decodeWire r with
      | some [] => let s' := start {} none; ({ s := s', started := true, obj := b == "begin-obj" }, render "ok" s')
      | some rb => let s' := start {} (some rb); ({ s := s', started := true, obj := b == "begin-obj" }, render "ok" s')
      | none => (d, "bad-op")
    else if b == "data" || b == "datab" then
      -- one hasher (sha3) serves both buckets, so the request map is shared: the bucket of a
      -- delivery does not matter to acceptance
      if !d.started then (d, "bad-op") else
      match Hex.decodeWire r with
      | some vb =>
        let c := if d.obj then cfgObj else cfg
        let (s', res) := onData c d.s vb
        let tag := match res with
          | .ok => "ok"
          | .noRequester => "norequester"
          | .decodeError => "err"
        ({ d with s := s' }, if res == .ok then render tag s' ++ " refs=" ++ refsWire (c.refs vb) else render tag s')
      | none => (d, "bad-op")
    else (d, "bad-op")
  | ["finish"] =>
    if !d.started then (d, "bad-op") else
    if d.s.reqs.isEmpty then (d, s!"complete {distinctKeys d.s.store}")
    else (d, s!"incomplete {d.s.reqs.length} {distinctKeys d.s.store}")
  | _ => (d, "bad-op")

end Goloop.Driver.C20
def main : IO Unit := Goloop.Proto.run Goloop.Driver.C20.step {}
