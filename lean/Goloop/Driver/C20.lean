import Goloop.Base.Proto
import Goloop.Base.Sha3
import Goloop.Base.Rlp
import Goloop.Model.C20
namespace Goloop.Driver.C20
open Goloop Goloop.C20

/-- hash link of a child item: a 32-byte string -/
def linkOf : Rlp.Item → Option Bytes
  | .bytes b => if b.length = 32 then some b else none
  | _ => none

/-- children of an ompt node payload that are hash links, in the order `resolve` visits them
    (what `deserialize` + `branch.resolve`/`extension.resolve` ask for); `none` = not a node. -/
def omptLinks (payload : Bytes) : Option (List Bytes) :=
  match Rlp.decodeItem payload with
  | some (.list xs, []) =>
    if xs.length = 17 then some ((xs.take 16).filterMap linkOf)
    else if xs.length = 2 then
      match xs with
      | [.bytes (h :: _), nxt] =>
        if h &&& 0x20 = 0 then some ((linkOf nxt).toList) else some []
      | _ => none
    else none
  | _ => none

/-- blob referenced by an object value: 0x01 ++ 32-byte hash -/
def valRef : Rlp.Item → Option Bytes
  | .bytes (t :: h) => if t = 0x01 ∧ h.length = 32 then some h else none
  | _ => none

/-- the blob the node's own value refers to (branch value / leaf value), requested by the
    object's `Resolve` after the children of the node -/
def omptValRef (payload : Bytes) : List Bytes :=
  match Rlp.decodeItem payload with
  | some (.list xs, []) =>
    if xs.length = 17 then ((xs.drop 16).head?.bind valRef).toList
    else match xs with
      | [.bytes (h :: _), v] => if h &&& 0x20 = 0 then [] else (valRef v).toList
      | _ => []
  | _ => []

def bTrie : Bkt := 0   -- db.MerkleTrie
def bBlob : Bkt := 1   -- db.BytesByHash

/-- `refs` for bytes-valued tries: a trie-node requester asks for its children in the trie
    bucket (`bytesObject.Resolve` is a no-op); nothing else is ever requested. -/
def refsBytes (b : Bkt) (payload : Bytes) : Option (List Ref) :=
  if b == bTrie then (omptLinks payload).map (·.map fun h => (bTrie, h)) else some []

/-- `refs` for the object-valued tries of the harness: children in the trie bucket, then the blob
    of the node's value in the blob bucket; the requester of a blob (the object, `OnData` returns
    nil) asks for nothing, whatever the payload is. -/
def refsObj (b : Bkt) (payload : Bytes) : Option (List Ref) :=
  if b == bTrie then
    (omptLinks payload).map fun ls =>
      ls.map (fun h => (bTrie, h)) ++ (omptValRef payload).map (fun h => (bBlob, h))
  else some []

def cfg : Cfg := { H := sha3_256, refs := refsBytes }
def cfgObj : Cfg := { H := sha3_256, refs := refsObj }

def short (b : Bytes) : String := Hex.encode (b.take 4)

def refsWire : List Ref → String
  | [] => "-"
  | rs => String.intercalate "," (rs.map fun r => Hex.encode r.2)

/-- insertion sort of strings (request order is canonicalised away: it is not part of the property) -/
def insertSorted (x : String) : List String → List String
  | [] => [x]
  | y :: ys => if x ≤ y then x :: y :: ys else y :: insertSorted x ys

def sortStrings (l : List String) : List String := l.foldr insertSorted []

/-- a request is shown as the first bytes of its key and the buckets of its requesters in
    registration order -/
def showReq (r : Req) : String := short r.key ++ "/" ++ String.join (r.bkts.map toString)

def render (tag : String) (s : St) : String :=
  let rs := String.intercalate "," (sortStrings (s.reqs.map showReq))
  s!"{tag} {s.reqs.length} {s.resolved} {if rs.isEmpty then "-" else rs}"

def distinctPairs (st : List Entry) : Nat := (st.map fun e => (e.1, e.2.1)).eraseDups.length

structure DS where
  s : St := {}
  started : Bool := false
  obj : Bool := false

def step (d : DS) (toks : List String) : DS × String :=
  match toks with
  | ["reset"] => ({}, "ok")
  | ["src", _, _] => if d.started then (d, "bad-op") else (d, "ok")
  | ["blob", _] => if d.started then (d, "bad-op") else (d, "ok")
  | [b, r] =>
    if b == "begin" || b == "begin-obj" then
      if d.started then (d, "bad-op") else
      let c := if b == "begin-obj" then cfgObj else cfg
      match Hex.decodeWire r with
      | some [] => let s' := start c {} none; ({ s := s', started := true, obj := b == "begin-obj" }, render "ok" s')
      | some rb => let s' := start c {} (some rb); ({ s := s', started := true, obj := b == "begin-obj" }, render "ok" s')
      | none => (d, "bad-op")
    else if b == "data" || b == "datab" then
      -- `data` = OnData(db.MerkleTrie, v), `datab` = OnData(db.BytesByHash, v)
      if !d.started then (d, "bad-op") else
      match Hex.decodeWire r with
      | some vb =>
        let c := if d.obj then cfgObj else cfg
        let bid := if b == "datab" then bBlob else bTrie
        -- what the served requesters ask for, in serving order (for the `refs=` cross-check)
        let k := c.H vb
        let asked := match d.s.reqs.find? (·.key == k) with
          | none => []
          | some rq => rq.bkts.flatMap fun bk => (c.refs bk vb).getD []
        let (s', res) := onData c d.s bid vb
        let tag := match res with
          | .ok => "ok"
          | .noRequester => "norequester"
          | .decodeError => "err"
        ({ d with s := s' }, if res == .ok then render tag s' ++ " refs=" ++ refsWire asked else render tag s')
      | none => (d, "bad-op")
    else (d, "bad-op")
  | ["finish"] =>
    if !d.started then (d, "bad-op") else
    if d.s.reqs.isEmpty then (d, s!"complete {distinctPairs d.s.store}")
    else (d, s!"incomplete {d.s.reqs.length} {distinctPairs d.s.store}")
  | _ => (d, "bad-op")

end Goloop.Driver.C20
def main : IO Unit := Goloop.Proto.run Goloop.Driver.C20.step {}
