import Goloop.Base.Proto
import Goloop.Base.Sha3
import Goloop.Base.Rlp
import Goloop.Model.C20
namespace Goloop.Driver.C20
open Goloop Goloop.C20

/-- hash link of a child item: a 32-byte string -/
def linkOf : Rlp.Item → Option Bytes
  | .bytes b => if b.length = 32 then some b else none
  | _ => none

/-- children of an ompt node payload that are hash links, in the order `resolve` visits them
    (what `deserialize` + `branch.resolve`/`extension.resolve` ask for); `none` = not a node. -/
def omptLinks (payload : Bytes) : Option (List Bytes) :=
  match Rlp.decodeItem payload with
  | some (.list xs, []) =>
    if xs.length = 17 then some ((xs.take 16).filterMap linkOf)
    else if xs.length = 2 then
      match xs with
      | [.bytes (h :: _), nxt] =>
        if h &&& 0x20 = 0 then some ((linkOf nxt).toList) else some []
      | _ => none
    else none
  | _ => none

/-- blob referenced by an object value: 0x01 ++ 32-byte hash -/
def valRef : Rlp.Item → Option Bytes
  | .bytes (t :: h) => if t = 0x01 ∧ h.length = 32 then some h else none
  | _ => none

/-- the blob the node's own value refers to (branch value / leaf value), requested by the
    object's `Resolve` after the children of the node -/
def omptValRef (payload : Bytes) : List Bytes :=
  match Rlp.decodeItem payload with
  | some (.list xs, []) =>
    if xs.length = 17 then ((xs.drop 16).head?.bind valRef).toList
    else match xs with
      | [.bytes (h :: _), v] => if h &&& 0x20 = 0 then [] else (valRef v).toList
      | _ => []
  | _ => []

def bTrie : Bkt := 0   -- db.MerkleTrie
def bBlob : Bkt := 1   -- db.BytesByHash

/-- `refs` for bytes-valued tries: a trie-node requester asks for its children in the trie
    bucket (`bytesObject.Resolve` is a no-op); nothing else is ever requested. -/
def refsBytes (b : Bkt) (payload : Bytes) : Option (List Ref) :=
  if b == bTrie then (omptLinks payload).map (·.map fun h => (bTrie, h)) else some []

/-- `refs` for the object-valued tries of the harness: children in the trie bucket, then the blob
    of the node's value in the blob bucket; the requester of a blob (the object, `OnData` returns
    nil) asks for nothing, whatever the payload is. -/
def refsObj (b : Bkt) (payload : Bytes) : Option (List Ref) :=
  if b == bTrie then
    (omptLinks payload).map fun ls =>
      ls.map (fun h => (bTrie, h)) ++ (omptValRef payload).map (fun h => (bBlob, h))
  else some []

/-- the value a trie node payload carries itself (leaf value / branch value) -/
def omptValue (payload : Bytes) : Option Bytes :=
  match Rlp.decodeItem payload with
  | some (.list xs, []) =>
    if xs.length = 17 then
      match (xs.drop 16).head? with
      | some (.bytes v) => some v
      | _ => none
    else match xs with
      | [.bytes (h :: _), .bytes v] => if h &&& 0x20 = 0 then none else some v
      | _ => none
  | _ => none

def beNat (b : Bytes) : Nat := b.foldl (fun n x => n * 256 + x.toNat) 0

def strOf : Option Rlp.Item → Bytes
  | some (.bytes b) => b
  | _ => []

/-- code hash of a contract item `[state, contentType, eeType, deployTx, auditTx, codeHash, params]`
    (`contract.Resolve`); a nil contract asks for nothing -/
def codeRef : Option Rlp.Item → List Ref
  | some (.list ys) => let h := strOf ys[5]?; if h.isEmpty then [] else [(bBlob, h)]
  | _ => []

/-- `accountSnapshotImpl.Resolve` on the account snapshot
    `[version, balance, isContract, storeHash, state, owner, apiInfo, cur, next (, flag (, objGraph))]`:
    API info blob (version ≥ 2: `apiInfoStore.Resolve`), storage trie root (`store.Resolve`, trie
    bucket), code of the current contract, code of the next contract, object graph blob.
    `none` = `Reset` cannot decode the value. -/
def acctRefs (val : Bytes) : Option (List Ref) :=
  match Rlp.decodeItem val with
  | some (.list xs, []) =>
    if xs.length < 9 then none else
    let api := strOf xs[6]?
    let st := strOf xs[3]?
    let g : Option Rlp.Item := xs[10]?
    let og := match g with
      | some (.list [_, .bytes h]) => if beNat (strOf xs[9]?) % 2 = 1 ∧ !h.isEmpty then [(bBlob, h)] else []
      | _ => []
    some ((if beNat (strOf xs[0]?) ≥ 2 ∧ !api.isEmpty then [(bBlob, api)] else [])
      ++ (if st.isEmpty then [] else [(bTrie, st)])
      ++ codeRef xs[7]? ++ codeRef xs[8]? ++ og)
  | _ => none

/-- `refs` for world-state tries (accounts trie with `service/state` account snapshots as values,
    and the bytes-valued storage tries the accounts refer to, all in the trie bucket): children,
    then what the node's own value resolves. A value is taken for an account snapshot when it is
    an RLP list; storage values of the generated states never are (see the registry). -/
def refsWorld (b : Bkt) (payload : Bytes) : Option (List Ref) :=
  if b == bTrie then
    match omptLinks payload with
    | none => none
    | some ls =>
      let kids := ls.map fun h => (bTrie, h)
      match omptValue payload with
      | some (t :: v) =>
        if t ≥ 0xc0 then (acctRefs (t :: v)).map (kids ++ ·) else some kids
      | _ => some kids
  else some []

def cfg : Cfg := { H := sha3_256, refs := refsBytes }
def cfgWorld : Cfg := { H := sha3_256, refs := refsWorld }
def cfgObj : Cfg := { H := sha3_256, refs := refsObj }

def short (b : Bytes) : String := Hex.encode (b.take 4)

def refsWire : List Ref → String
  | [] => "-"
  | rs => String.intercalate "," (rs.map fun r => Hex.encode r.2)

/-- insertion sort of strings (request order is canonicalised away: it is not part of the property) -/
def insertSorted (x : String) : List String → List String
  | [] => [x]
  | y :: ys => if x ≤ y then x :: y :: ys else y :: insertSorted x ys

def sortStrings (l : List String) : List String := l.foldr insertSorted []

/-- a request is shown as the first bytes of its key and the buckets of its requesters in
    registration order -/
def showReq (r : Req) : String := short r.key ++ "/" ++ String.join (r.bkts.map toString)

def render (tag : String) (s : St) : String :=
  let rs := String.intercalate "," (sortStrings (s.reqs.map showReq))
  s!"{tag} {s.reqs.length} {s.resolved} {if rs.isEmpty then "-" else rs}"

def distinctPairs (st : List Entry) : Nat := (st.map fun e => (e.1, e.2.1)).eraseDups.length

structure DS where
  s : St := {}
  started : Bool := false
  mode : Nat := 0     -- 0 bytes-valued trie, 1 harness objects, 2 world state

def cfgOf (mode : Nat) : Cfg := if mode == 1 then cfgObj else if mode == 2 then cfgWorld else cfg

def step (d : DS) (toks : List String) : DS × String :=
  match toks with
  | ["reset"] => ({}, "ok")
  | ["acct", _, _, _, _, _, _, _] => if d.started then (d, "bad-op") else (d, "ok")
  | ["stor", _, _, _] => if d.started then (d, "bad-op") else (d, "ok")
  | ["src", _, _] => if d.started then (d, "bad-op") else (d, "ok")
  | ["blob", _] => if d.started then (d, "bad-op") else (d, "ok")
  | [b, r] =>
    if b == "begin" || b == "begin-obj" || b == "begin-ws" then
      if d.started then (d, "bad-op") else
      let mode := if b == "begin-obj" then 1 else if b == "begin-ws" then 2 else 0
      let c := cfgOf mode
      match Hex.decodeWire r with
      | some [] => let s' := start c {} none; ({ s := s', started := true, mode := mode }, render "ok" s')
      | some rb => let s' := start c {} (some rb); ({ s := s', started := true, mode := mode }, render "ok" s')
      | none => (d, "bad-op")
    else if b == "data" || b == "datab" then
      -- `data` = OnData(db.MerkleTrie, v), `datab` = OnData(db.BytesByHash, v)
      if !d.started then (d, "bad-op") else
      match Hex.decodeWire r with
      | some vb =>
        let c := cfgOf d.mode
        let bid := if b == "datab" then bBlob else bTrie
        -- what the served requesters ask for, in serving order (for the `refs=` cross-check)
        let k := c.H vb
        let asked := match d.s.reqs.find? (·.key == k) with
          | none => []
          | some rq => rq.bkts.flatMap fun bk => (c.refs bk vb).getD []
        let (s', res) := onData c d.s bid vb
        let tag := match res with
          | .ok => "ok"
          | .noRequester => "norequester"
          | .decodeError => "err"
        ({ d with s := s' }, if res == .ok then render tag s' ++ " refs=" ++ refsWire asked else render tag s')
      | none => (d, "bad-op")
    else (d, "bad-op")
  | ["finish"] =>
    if !d.started then (d, "bad-op") else
    if d.s.reqs.isEmpty then (d, s!"complete {distinctPairs d.s.store}")
    else (d, s!"incomplete {d.s.reqs.length} {distinctPairs d.s.store}")
  | _ => (d, "bad-op")

end Goloop.Driver.C20
def main : IO Unit := Goloop.Proto.run Goloop.Driver.C20.step {}
