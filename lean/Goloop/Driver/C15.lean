import Goloop.Driver.C15Step
def main : IO Unit := Goloop.Proto.run Goloop.Driver.C15.step Goloop.Driver.C15.St.init
