/-
  Driver core shared by drv_C17 and drv_C18: line protocol around Model/C17 + Model/C18
  with H := SHA3-256.
-/
import Goloop.Base.Proto
import Goloop.Base.Sha3
import Goloop.Model.C17
import Goloop.Model.C18
namespace Goloop.Driver.C17
open Goloop Goloop.C17 Goloop.C18

structure St where
  cur : Node := .empty
  snaps : Array Node := #[]
  ver : Option Node := none   -- the trie whose root the reused verifier was created for
  dead : Bool := false     -- a Delete panicked (only after the known empty-value divergence)

def H : Bytes → Bytes := Goloop.sha3_256

def hxo : Option Bytes → String
  | some b => Hex.encodeWire b
  | none => "-"

def pairs (l : List (Bytes × Bytes)) : String :=
  if l.isEmpty then "-" else ";".intercalate (l.map fun (k, v) => Hex.encodeWire k ++ "=" ++ Hex.encodeWire v)

def items (l : Option (List Bytes)) : String :=
  match l with
  | none => "nil"
  | some [] => "-"
  | some l => ",".intercalate (l.map Hex.encodeWire)

def parseItems (s : String) : Option (List Bytes) :=
  if s == "nil" || s == "none" then some []
  else (s.splitOn ",").mapM Hex.decodeWire

def pres : PRes → String
  | .ok v => "ok " ++ Hex.encodeWire v
  | .notfound => "notfound"
  | .reject => "reject"
  | .panic => "panic"

/-- deterministic proof mutation shared with the Go harness (`c17Mutate`) -/
def mutate (p : List Bytes) (kind a b c : Nat) (x : Bytes) : List Bytes :=
  let n := p.length
  if n = 0 then (if kind = 2 ∨ kind = 5 then [x] else p)
  else
    let i := a % n
    let it := p.getD i []
    match kind with
    | 0 =>
      if it.length = 0 then p
      else
        let pos := b % it.length
        let m := UInt8.ofNat (c % 255 + 1)
        p.set i (it.set pos (it.getD pos 0 ^^^ m))
    | 1 => p.eraseIdx i
    | 2 => p ++ [x]
    | 3 => p.take (i + 1) ++ [it] ++ p.drop (i + 1)
    | 4 => p.set i it.dropLast
    | 5 => p.take i ++ [x] ++ p.drop i
    | 6 => if i + 1 < n then (p.set i (p.getD (i + 1) [])).set (i + 1) it else p
    | 7 => p.set i x
    | _ => p

def rootOf (t : Node) : Bytes := (rootHash H t).getD []

def proveOn (root : Bytes) (key : Bytes) (p : List Bytes) : String := pres (prove H root key p)

def step (s : St) (toks : List String) : St × String :=
  let bad := (s, "bad-op")
  if s.dead && toks != ["reset"] then (s, "dead") else
  match toks with
  | ["reset"] => ({}, "ok")
  | ["set", k, v] =>
    match Hex.decodeWire k, Hex.decodeWire v with
    | some k, some v =>
      let nk := bytesToNibs k
      ({ s with cur := set s.cur nk v }, hxo (get s.cur nk))
    | _, _ => bad
  | ["del", k] =>
    match Hex.decodeWire k with
    | some k =>
      let nk := bytesToNibs k
      if delPanics s.cur nk then ({ s with dead := true }, "panic")
      else ({ s with cur := delete s.cur nk }, hxo (get s.cur nk))
    | none => bad
  | ["get", k] =>
    match Hex.decodeWire k with
    | some k => (s, hxo (get s.cur (bytesToNibs k)))
    | none => bad
  | ["root"] => (s, hxo (rootHash H s.cur))
  | ["snap"] => ({ s with snaps := s.snaps.push s.cur }, hxo (rootHash H s.cur))
  | ["flush"] => (s, hxo (rootHash H s.cur))
  | ["reload"] =>
    let t := reload s.cur
    ({ s with cur := t }, hxo (rootHash H t))
  | ["clear"] => (s, "ok")
  | ["sclear", j] =>
    match j.toNat? with
    | some j => if j < s.snaps.size then (s, "ok") else bad
    | none => bad
  | ["scheck"] =>
    if s.snaps.size = 0 then (s, "-")
    else (s, ",".intercalate (s.snaps.toList.map fun t => hxo (rootHash H t)))
  | ["restore", j] =>
    match j.toNat? with
    | some j => if h : j < s.snaps.size then ({ s with cur := s.snaps[j] }, hxo (rootHash H s.snaps[j])) else bad
    | none => bad
  | ["sget", j, k] =>
    match j.toNat?, Hex.decodeWire k with
    | some j, some k => if h : j < s.snaps.size then (s, hxo (get s.snaps[j] (bytesToNibs k))) else bad
    | _, _ => bad
  | ["sroot", j] =>
    match j.toNat? with
    | some j => if h : j < s.snaps.size then (s, hxo (rootHash H s.snaps[j])) else bad
    | none => bad
  | ["siter", j] =>
    match j.toNat? with
    | some j => if h : j < s.snaps.size then (s, pairs (iterator s.snaps[j])) else bad
    | none => bad
  | ["iter"] => (s, pairs (iterator s.cur))
  | ["filter", p] =>
    match Hex.decodeWire p with
    | some p => (s, pairs (filter s.cur p))
    | none => bad
  | ["proof", k] =>
    match Hex.decodeWire k with
    | some k => (s, items (getProofRoot H s.cur (bytesToNibs k)))
    | none => bad
  | ["prove", k] =>
    match Hex.decodeWire k with
    | some k =>
      match getProofRoot H s.cur (bytesToNibs k) with
      | none => (s, "noproof")
      | some p => (s, proveOn (rootOf s.cur) k p)
    | none => bad
  | ["pmut", k, kind, a, b, c, x] =>
    match Hex.decodeWire k, kind.toNat?, a.toNat?, b.toNat?, c.toNat?, Hex.decodeWire x with
    | some k, some kind, some a, some b, some c, some x =>
      match getProofRoot H s.cur (bytesToNibs k) with
      | none => (s, "noproof")
      | some p => (s, proveOn (rootOf s.cur) k (mutate p kind a b c x))
    | _, _, _, _, _, _ => bad
  | ["vnew"] => ({ s with ver := some s.cur }, "ok")
  | ["vflush"] => (s, if s.ver.isSome then "ok" else "bad-op")
  | ["vclear"] => (s, if s.ver.isSome then "ok" else "bad-op")
  | ["vreload"] => (s, if s.ver.isSome then "ok" else "bad-op")
  | ["vprove", k] =>
    -- a reused verifier answers like a fresh one
    match s.ver, Hex.decodeWire k with
    | some t, some k =>
      match getProofRoot H t (bytesToNibs k) with
      | none => (s, "noproof")
      | some p => (s, proveOn (rootOf t) k p)
    | _, _ => bad
  | ["vpmut", k, kind, a, b, c, x] =>
    match s.ver, Hex.decodeWire k, kind.toNat?, a.toNat?, b.toNat?, c.toNat?, Hex.decodeWire x with
    | some t, some k, some kind, some a, some b, some c, some x =>
      match getProofRoot H t (bytesToNibs k) with
      | none => (s, "noproof")
      | some p => (s, proveOn (rootOf t) k (mutate p kind a b c x))
    | _, _, _, _, _, _, _ => bad
  | ["vother", j, k] =>
    -- proof taken from the trie of snapshot j, checked by the reused verifier
    match s.ver, j.toNat?, Hex.decodeWire k with
    | some t, some j, some k =>
      if h : j < s.snaps.size then
        match getProofRoot H s.snaps[j] (bytesToNibs k) with
        | none => (s, "noproof")
        | some p => (s, proveOn (rootOf t) k p)
      else bad
    | _, _, _ => bad
  | ["pother", k, k2] =>
    -- prove key k with the proof of key k2
    match Hex.decodeWire k, Hex.decodeWire k2 with
    | some k, some k2 =>
      match getProofRoot H s.cur (bytesToNibs k2) with
      | none => (s, "noproof")
      | some p => (s, proveOn (rootOf s.cur) k p)
    | _, _ => bad
  | ["psnap", j, k] =>
    -- proof from the current trie checked against the root of snapshot j
    match j.toNat?, Hex.decodeWire k with
    | some j, some k =>
      if h : j < s.snaps.size then
        match getProofRoot H s.cur (bytesToNibs k) with
        | none => (s, "noproof")
        | some p => (s, proveOn (rootOf s.snaps[j]) k p)
      else bad
    | _, _ => bad
  | ["provex", r, k, p] =>
    match Hex.decodeWire r, Hex.decodeWire k, parseItems p with
    | some r, some k, some p => (s, proveOn r k p)
    | _, _, _ => bad
  | ["hashof", x] =>
    match Hex.decodeWire x with
    | some x => (s, Hex.encodeWire (H x))
    | none => bad
  | _ => bad

end Goloop.Driver.C17
