/-
  Driver/C07: line protocol around Model/C07 (see harness/c07.go for the op grammar).
  The driver keeps the tree of accepted blocks (index = block id), resolves the
  relative operands of a `cand` op exactly as the Go runner does, instantiates the
  certificate parameter from the op's vote class, and asks the model for the verdict.
-/
import Goloop.Base.Proto
import Goloop.Model.C07
namespace Goloop.Driver.C07
open Goloop Goloop.C07

structure Node where
  parent : Nat
  height : Int
  ts : Int
  alive : Bool
  /-- next-block-version variable in the state this block's result commits to (0 = unset) -/
  sv : Int := 0
  /-- version set by a transaction carried by this block (takes effect in its child's result) -/
  txnv : Option Int := none
  /-- identity of the block: (serial of the cand op that made its parent link, votes and body, height, timestamp) -/
  key : Nat × Int × Int := (0, 0, 0)

/-- the candidate built by the last `cand` op, kept for `sib` -/
structure Built where
  b : Cand Nat
  vti : Nat
  cls : String
  nv : Option Int
  pi : Nat
  serial : Nat
  med : Int

/-- `ServiceManager.GetNextBlockVersion(result)`: the platform default (2) when the variable is unset -/
def requiredVersion (sv : Int) : Int := if sv = 0 then 2 else sv

structure St where
  started : Bool := false
  nval : Nat := 0
  nodes : Array Node := #[]
  fin : Nat := 0
  serial : Nat := 0
  last : Option Built := none

def inI64 (v : Int) : Bool := -(2:Int)^63 ≤ v ∧ v < (2:Int)^63

def parseI64 (s : String) : Option Int :=
  match s.toInt? with
  | some v => if inI64 v then some v else none
  | none => none

/-- `par` | `n<k>` -/
def resolve (tok : String) (pi n : Nat) : Option Nat :=
  if tok == "par" then some pi
  else match tok.toList with
    | 'n' :: ds => match (String.ofList ds).toNat? with
      | some k => some (k % n)
      | none => none
    | _ => none

def parseVotes (s : String) (pts : Int) : Option (List Int) :=
  if s == "-" then some []
  else (s.splitOn ",").foldr (fun tok acc =>
    match acc with
    | none => none
    | some l =>
      match tok.toList with
      | '=' :: ds => match parseI64 (String.ofList ds) with
        | some v => some (v :: l)
        | none => none
      | _ => match parseI64 tok with
        | some v => some (wrap64 (pts + v) :: l)
        | none => none) (some [])

/-- the certificate parameter for the fixture: validators are the `nval` genesis validators;
    votes of class `ok` are signed by distinct validators over block `vt`. The voters of the
    parent are read from the finalized block below it (`GetVoters`), which must exist. -/
def certOkFor (st : St) (vt : Nat) (cls : String) (prev : Blk Nat) (b : Cand Nat) : Bool :=
  let cnt := b.votes.length
  let finH := match st.nodes[st.fin]? with | some f => f.height | none => 0
  if prev.height = 0 then cnt = 0
  else
    decide (prev.height - 1 ≤ finH) && cls == "ok" && vt == prev.id && decide (cnt ≤ st.nval) &&
      decide (cnt > st.nval * 2 / 3)

def nmapOf (st : St) : List (Blk Nat) :=
  (st.nodes.toList.zipIdx).filterMap (fun (nd, i) =>
    if nd.alive then some { id := i, height := nd.height, ts := nd.ts, nextVersion := requiredVersion nd.sv } else none)

/-- import of a built candidate: verdict from the model, bookkeeping of the tree -/
def judge (st : St) (bt : Built) : St × String :=
  let b := bt.b
  match st.nodes[bt.pi]? with
  | none => (st, "bad-op")
  | some P =>
    let v := importBlock (certOkFor st bt.vti bt.cls) (nmapOf st) b
    let out := s!"{v.toString} h={b.height} ts={b.ts} med={bt.med} P={P.height}/{P.ts}/v{requiredVersion P.sv}"
    if v = .accept then
      let key : Nat × Int × Int := (bt.serial, b.height, b.ts)
      if st.nodes.any (fun nd => nd.key == key) then (st, out)   -- the very same block again
      else
        -- the new block's result is its parent's state after the parent's transactions
        let par := st.nodes[b.prevID]?
        let sv' : Int := match par with
          | some q => (match q.txnv with | some k => k | none => q.sv)
          | none => 0
        ({ st with nodes := st.nodes.push { parent := b.prevID, height := b.height, ts := b.ts, alive := true,
                                            sv := sv', txnv := bt.nv, key := key } }, out)
    else (st, out)

/-- `sib DTS DH VER` -/
def doSib (st : St) (a : List String) : St × String :=
  match st.last, a with
  | some bt, [dtsS, dhS, verS] =>
    match parseI64 dtsS, parseI64 dhS, parseI64 verS with
    | some dts, some dh, some ver =>
      let b := bt.b
      judge st { bt with b := { b with ts := wrap64 (b.ts + dts), height := wrap64 (b.height + dh), version := ver } }
    | _, _, _ => (st, "bad-op")
  | _, _ => (st, "bad-op")

def doCand (st : St) (a : List String) : St × String :=
  match a with
  | [pS, dhS, prevS, verS, vtS, cls, votesS, tsS, nvS] =>
    let nv? : Option (Option Int) :=
      if nvS == "-" then some none
      else match nvS.toInt? with
        | some k => if -(2:Int)^31 ≤ k ∧ k < (2:Int)^31 ∧ k ≠ 0 then some (some k) else none
        | none => none
    match nv? with
    | none => (st, "bad-op")
    | some nv =>
    let n := st.nodes.size
    match parseI64 pS, parseI64 dhS, parseI64 verS with
    | some pv, some dh, some ver =>
      if pv < -2 ∨ n = 0 then (st, "bad-op") else
      let pi := if pv = -2 then (match st.nodes[n - 1]? with | some x => if n = 1 then 0 else x.parent | none => 0)
                else if pv < 0 then n - 1 else (pv.toNat % n)
      match st.nodes[pi]? with
      | none => (st, "bad-op")
      | some P =>
        let height := wrap64 (P.height + 1 + dh)
        let prev? : Option (Option Nat) :=
          if prevS == "rand" then some none else (resolve prevS pi n).map some
        match prev?, resolve vtS pi n, parseVotes votesS P.ts with
        | some prevIdx, some vti, some votes =>
          let clsOk := (cls == "ok") || (cls == "dup" && votes.length ≥ 2) || (cls == "str" && votes.length ≥ 1)
          if !clsOk then (st, "bad-op") else
          match tsS.toList with
          | c :: ds =>
            match parseI64 (String.ofList ds) with
            | none => (st, "bad-op")
            | some tsArg =>
              if ds.isEmpty then (st, "bad-op") else
              let med := median votes
              let ts? : Option Int :=
                if c = 'm' then some (wrap64 (med + tsArg))
                else if c = 'p' then some (wrap64 (P.ts + tsArg))
                else if c = 'a' then some tsArg else none
              match ts? with
              | none => (st, "bad-op")
              | some ts =>
                if nv.isSome ∧ (ts ≥ (2:Int)^60 ∨ ts ≤ -(2:Int)^60) then (st, "bad-op") else
                let st1 := { st with serial := st.serial + 1 }
                -- an id nobody has: `rand` previous id
                let prevID : Nat := match prevIdx with | some k => k | none => 1000000000 + st1.serial
                let b : Cand Nat := { version := ver, height := height, prevID := prevID, ts := ts, votes := votes }
                let bt : Built := { b := b, vti := vti, cls := cls, nv := nv, pi := pi, serial := st1.serial, med := med }
                judge { st1 with last := some bt } bt
          | [] => (st, "bad-op")
        | _, _, _ => (st, "bad-op")
    | _, _, _ => (st, "bad-op")
  | _ => (st, "bad-op")

def doFin (st : St) (k : Nat) : St × String :=
  let n := st.nodes.size
  if n = 0 then (st, "bad-op") else
  let j := k % n
  match st.nodes[j]? with
  | none => (st, "bad-op")
  | some nd =>
    if j ≠ 0 ∧ nd.alive ∧ nd.parent = st.fin ∧ j ≠ st.fin then
      -- prune: only the subtree of j stays (parents have smaller indices than children)
      let nodes' := (List.range n).foldl (fun (acc : Array Node) i =>
        match acc[i]? with
        | none => acc
        | some x =>
          let al := if i < j then false
                    else if i = j then true
                    else x.alive && (match acc[x.parent]? with | some p => p.alive | none => false)
          acc.set! i { x with alive := al }) st.nodes
      ({ st with nodes := nodes', fin := j }, s!"fin {nd.height}")
    else (st, "nofin")

def step (st : St) (toks : List String) : St × String :=
  match toks with
  | ["reset"] => ({}, "ok")
  | ["new", nS] =>
    match nS.toNat? with
    | some nv =>
      if nv < 1 ∨ nv > 16 then (st, "bad-op") else
      ({ started := true, nval := nv, nodes := #[{ parent := 0, height := 0, ts := 0, alive := true }], fin := 0, serial := 0 },
        s!"ok {nv}")
    | none => (st, "bad-op")
  | ["fin", kS] =>
    if !st.started then (st, "bad-op") else
    match kS.toInt? with
    | some k =>
      if k < -1 then (st, "bad-op")
      else if k = -1 then doFin st (st.nodes.size - 1) else doFin st k.toNat
    | none => (st, "bad-op")
  | ["finup"] =>
    if !st.started then (st, "bad-op") else
    -- walk up from the newest accepted block to the child of the last finalized block
    let rec up (fuel j : Nat) : Nat :=
      match fuel with
      | 0 => j
      | fuel + 1 =>
        if j = 0 then j else
        match st.nodes[j]? with
        | some nd => if nd.parent = st.fin then j else up fuel nd.parent
        | none => j
    doFin st (up st.nodes.size (st.nodes.size - 1))
  | "cand" :: rest => if !st.started then (st, "bad-op") else doCand st rest
  | "sib" :: rest => if !st.started then (st, "bad-op") else doSib st rest
  | _ => (st, "bad-op")

end Goloop.Driver.C07
def main : IO Unit := Goloop.Proto.run Goloop.Driver.C07.step {}
