import Goloop.Driver.C17Core
def main : IO Unit := Goloop.Proto.run Goloop.Driver.C17.step {}
