import Goloop.Base.Proto
import Goloop.Model.C36
namespace Goloop.Driver.C36
open Goloop Goloop.C36

def optAddr : Option Address → String
  | some a => s!"ok {Hex.encodeWire a}"
  | none => "err"

def step (s : Unit) (toks : List String) : Unit × String :=
  let out := match toks with
  | ["reset"] => "ok"
  | ["strict", h] => match Hex.decodeWire h with
      | some bs => optAddr (setStringStrict bs)
      | none => "bad-op"
  | ["lenient", h] => match Hex.decodeWire h with
      | some bs => optAddr (setString bs)
      | none => "bad-op"
  | ["print", h] => match Hex.decodeWire h with
      | some a => if a.length = 21 then Hex.encodeWire (toString a) else "bad-op"
      | none => "bad-op"
  | ["setbytes", h] => match Hex.decodeWire h with
      | some bs => optAddr (setBytes bs)
      | none => "bad-op"
  | ["typeid", c, h] => match Hex.decodeWire h with
      | some bs => if c = "1" then Hex.encodeWire (setTypeAndID true bs)
                   else if c = "0" then Hex.encodeWire (setTypeAndID false bs) else "bad-op"
      | none => "bad-op"
  | ["validate", h] => match Hex.decodeWire h with
      | some bs => (if isEoaAddress bs then "eoa" else if isScoreAddress bs then "score" else "no") ++
                   (if isAddress bs then " addr" else " -")
      | none => "bad-op"
  | _ => "bad-op"
  (s, out)
end Goloop.Driver.C36
def main : IO Unit := Goloop.Proto.run Goloop.Driver.C36.step ()
