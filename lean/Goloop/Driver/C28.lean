import Goloop.Base.Proto
import Goloop.Base.Sha3
import Goloop.Model.C28
namespace Goloop.Driver.C28
open Goloop Goloop.C28

structure St where
  acc : Acc := {}
  tdb : DB := []
  persisted : Option Acc := none
  vtree : Option Tree := none
  leaves : Array Bytes := #[]
  pleaves : Array Bytes := #[]
  held : Nat := 0   -- headers handed out so far; headers are values, so all of them stay valid

def H : Bytes → Bytes := Goloop.sha3_256

def listStr (ps : List Bytes) : String :=
  if ps.isEmpty then "none" else ",".intercalate (ps.map Hex.encodeWire)

def parseList (s : String) : Option (List Bytes) :=
  if s == "none" then some [] else (s.splitOn ",").mapM Hex.decodeWire

def optHex : Option Bytes → String
  | some b => Hex.encodeWire b
  | none => "-"

def hdrStr (h : Header) : String := s!"hdr {optHex h.root} {h.leaves}"

def pStr : PRes → String
  | .ok p => "ok " ++ listStr p
  | .err => "err"
  | .panic => "panic"

def aStr : ARes → String
  | .ok => "ok" | .verr => "verr" | .err => "err" | .panic => "panic"

def fnvByte (h : UInt64) (b : UInt8) : UInt64 := (h ^^^ b.toUInt64) * 1099511628211
def fnvProof (h : UInt64) (ps : List Bytes) : UInt64 :=
  ps.foldl (fun h p => p.foldl fnvByte (fnvByte h (UInt8.ofNat (p.length / 32)))) h

def flipAt (bs : Bytes) (i : Nat) : Bytes :=
  if bs.isEmpty then bs else bs.set (i % bs.length) (bs.getD (i % bs.length) 0 ^^^ 1)

/-- Finalize + NewMerkleTree on the accumulator's own tree bucket -/
def proverTree (s : St) : Option (St × Option Tree) :=
  match s.acc.finalize H s.tdb with
  | none => none
  | some (hd, db') => some ({ s with tdb := db' }, newTree db' hd)

def step (s : St) (toks : List String) : St × String :=
  match toks with
  | ["reset"] => ({}, "ok")
  | ["add", x] => match Hex.decodeWire x with
    | some h =>
      let (acc, db, ok) := s.acc.add H s.tdb h
      if ok then
        let lv := s.leaves.push h
        ({ s with acc := acc, tdb := db, persisted := some acc, leaves := lv, pleaves := lv }, "ok")
      else ({ s with acc := acc, tdb := db }, "panic")
    | none => (s, "bad-op")
  | ["held"] => (s, s!"held {s.held} {s.held}")
  | ["hdr"] => match s.acc.header H with
    | some h => ({ s with held := s.held + 1 }, hdrStr h)
    | none => (s, "panic")
  | ["fin"] => match s.acc.finalize H s.tdb with
    | some (h, db) => ({ s with tdb := db, held := s.held + 1 }, hdrStr h)
    | none => (s, "panic")
  | ["len"] => (s, s!"len {s.acc.len}")
  | ["setlen", x] => match x.toNat? with
    | some l =>
      let (acc, db, wrote, r) := s.acc.setLen H s.tdb l
      let lv := if r = .ok ∧ l < s.leaves.size then s.leaves.extract 0 l else s.leaves
      let s' := { s with acc := acc, tdb := db, leaves := lv }
      let s' := if wrote then { s' with persisted := some acc, pleaves := lv } else s'
      (s', match r with | .ok => "ok" | .err => "err" | .panic => "panic")
    | none => (s, "bad-op")
  | ["reopen"] =>
    let acc := s.persisted.getD {}
    ({ s with acc := acc, leaves := s.pleaves }, s!"ok {acc.len}")
  | ["prove", k, f] => match k.toNat?, f.toInt? with
    | some key, some frm =>
      match proverTree s with
      | none => (s, "panic")
      | some (s', none) => (s', "err")
      | some (s', some t) => (s', pStr (t.prove key frm))
    | _, _ => (s, "bad-op")
  | ["vnew"] =>
    match s.acc.finalize H s.tdb with
    | none => (s, "panic")
    | some (hd, db') =>
      match newTree [] hd with
      | none => ({ s with tdb := db' }, "err")
      | some t => ({ s with tdb := db', vtree := some t }, s!"ok {t.cap}")
  | ["vadd", k, hx, pr] => match k.toNat?, Hex.decodeWire hx, parseList pr, s.vtree with
    | some key, some h, some proof, some t =>
      let (t', r) := t.add H key h proof
      ({ s with vtree := some t' }, aStr r)
    | _, _, _, _ => (s, "bad-op")
  | ["vaddx", k, m] => match k.toNat?, m.toNat?, s.vtree with
    | some key, some mode, some vt =>
      match proverTree s with
      | none => (s, "panic")
      | some (s', none) => (s', "err")
      | some (s', some pt) =>
        match pt.prove key 0 with
        | .ok p =>
          let junk : Bytes := List.replicate 32 0xAA
          let leaf := s'.leaves.getD key []
          let (key', p') : Nat × List Bytes := match mode with
            | 0 => (key, junk :: p)
            | 1 => (key, p.head?.getD junk :: p)
            | 2 => (key, p ++ [junk])
            | 3 => (key, p.drop 1)
            | 4 => (key + 16 ^ (pt.level + 1), p)
            | 5 => (key, junk :: junk :: p)
            | _ => (key, p)
          let (vt', r) := vt.add H key' leaf p'
          ({ s' with vtree := some vt' }, aStr r)
        | _ => (s', "err")
    | _, _, _ => (s, "bad-op")
  | ["vprove", k, f] => match k.toNat?, f.toInt?, s.vtree with
    | some key, some frm, some t => (s, pStr (t.prove key frm))
    | _, _, _ => (s, "bad-op")
  | ["sync", a, b] => match a.toNat?, b.toNat?, s.vtree with
    | some lo, some hi, some vt =>
      match proverTree s with
      | none => (s, "panic")
      | some (s', none) => (s', "err")
      | some (s', some pt) =>
        let (vt', good, bad, h) := (List.range (hi - lo)).foldl (fun (st : Tree × Nat × Nat × UInt64) j =>
          let (vt, good, bad, h) := st
          let key := lo + j
          match pt.prove key (-1) with
          | .ok p =>
            let (vt', r) := vt.add H key (s'.leaves.getD key []) p
            if r = .ok then (vt', good + 1, bad, fnvProof h p) else (vt', good, bad + 1, fnvProof h p)
          | _ => (vt, good, bad + 1, h)) (vt, 0, 0, 14695981039346656037)
        ({ s' with vtree := some vt' }, s!"sync {good} {bad} {h.toNat}")
    | _, _, _ => (s, "bad-op")
  | ["checkall", st] => match st.toNat? with
    | some stp =>
      if stp = 0 then (s, "bad-op") else
      match s.acc.finalize H s.tdb with
      | none => (s, "panic")
      | some (hd, db') =>
        let s' := { s with tdb := db' }
        match newTree db' hd, newTree [] hd with
        | some pt, some vt0 =>
          let n := s.acc.len
          let (acc, rej1, rej2, h) := (List.range ((n + stp - 1) / stp)).foldl (fun (st : Nat × Nat × Nat × UInt64) j =>
            let (acc, rej1, rej2, h) := st
            let key := j * stp
            match pt.prove key 0 with
            | .ok p =>
              let leaf := s'.leaves.getD key []
              let a1 := (vt0.add H key leaf p).2
              let a2 := (vt0.add H key (flipAt leaf key) p).2
              let pi := if p.isEmpty then 0 else key % p.length
              let p3 := if p.isEmpty then p else p.set pi (flipAt (p.getD pi []) (key * 7))
              let a3 := (vt0.add H key leaf p3).2
              (if a1 = .ok then acc + 1 else acc, if a2 = .verr then rej1 + 1 else rej1,
               if a3 = .verr ∨ p.isEmpty then rej2 + 1 else rej2, fnvProof h p)
            | _ => st) (0, 0, 0, 14695981039346656037)
          (s', s!"checkall {n} {acc} {rej1} {rej2} {h.toNat}")
        | _, _ => (s', "err")
    | none => (s, "bad-op")
  | _ => (s, "bad-op")

end Goloop.Driver.C28
def main : IO Unit := Goloop.Proto.run Goloop.Driver.C28.step {}
