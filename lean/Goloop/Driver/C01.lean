import Goloop.Driver.C01Step
def main : IO Unit := Goloop.Proto.run Goloop.Driver.C01.step {}
