import Goloop.Base.Proto
import Goloop.Model.C14
namespace Goloop.Driver.C14
open Goloop Goloop.C14

/-- account / key universe of the line protocol -/
def nAcct : Nat := 6
def nKey : Nat := 4

/-- canonical logical content of a world snapshot over the universe (used for hash numbering) -/
structure CanonAcct where
  bal : Int
  isContract : Bool
  cur : Option Nat
  next : Option (Nat × Bool)
  graph : Option (Nat × Nat)
  vals : List Nat
deriving DecidableEq
abbrev Canon := List (Option CanonAcct)

def canonOf (ws : WSnap) : Canon :=
  (List.range nAcct).map fun a =>
    (absWSnap ws a).map fun d => (⟨d.bal, d.isContract, d.cur, d.next, d.graph, (List.range nKey).map fun k => (d.get k).getD 0⟩ : CanonAcct)

structure St where
  h : Hist
  seen : List Canon     -- hash numbering: index of first occurrence

def St.init : St := ⟨Hist.init, []⟩

/-- rebuild the function-valued maps from a table so that closures do not pile up -/
def tabArr {α : Type} (f : Nat → Option α) : Array (Option α) := (Array.range nAcct).map f
def ofArr {α : Type} (arr : Array (Option α)) : Nat → Option α := fun a => (arr[a]?).join
/-- NB: always write `ofArr (tabArr f)` inside a function returning data, so that the
    table is computed strictly before the closure is built (a definition
    `tab f := ofArr (tabArr f)` would be eta-expanded and stay lazy). -/
structure WSnapBox where
  f : WSnap
def boxSnap (ws : WSnap) : WSnapBox := ⟨ofArr (tabArr ws)⟩

def normWorld (w : World) : World :=
  { w with trie := ofArr (tabArr w.trie), macc := ofArr (tabArr w.macc), lastAcc := ofArr (tabArr w.lastAcc) }

def findIdx (c : Canon) : List Canon → Nat → Option Nat
  | [], _ => none
  | x :: xs, i => if x = c then some i else findIdx c xs (i + 1)

def hashNo (s : St) (ws : WSnap) : St × String :=
  let c := canonOf ws
  match findIdx c s.seen 0 with
  | some i => (s, s!"h{i}")
  | none => ({ s with seen := s.seen ++ [c] }, s!"h{s.seen.length}")

def showGraph : Option Graph → String
  | some (nh, g) => s!"{nh}/{g}"
  | none => "-"

/-- "-" = not a contract; else c<current code or 0>n<next code or 0><p pending | r rejected | - none> -/
def showContract (isC : Bool) (cur : Option Nat) (next : Option (Nat × Bool)) : String :=
  if !isC then "-"
  else s!"c{cur.getD 0}n" ++ (match next with
    | some (c, rej) => s!"{c}" ++ (if rej then "r" else "p")
    | none => "0-")

def dumpAcct (d : Option AcctData) : String :=
  match d with
  | none => "-"
  | some d => s!"{d.bal}:" ++ ",".intercalate ((List.range nKey).map fun k => toString ((d.get k).getD 0))
      ++ ":" ++ showContract d.isContract d.cur d.next ++ ":" ++ showGraph d.graph

/-- `read i`: what GetAccountSnapshot of the world snapshot returns per account (nil → "-") -/
def dump (ws : WSnap) : String :=
  "|".intercalate ((List.range nAcct).map fun a =>
    match ws a with
    | none => "-"
    | some s => dumpAcct (some (dataOf s.hdr s.store)))

def okA (a : Nat) : Bool := a < nAcct
def okK (k : Nat) : Bool := k < nKey

def setW (s : St) (w : World) : St := { s with h := { s.h with w := normWorld w } }

def step (s : St) (toks : List String) : St × String :=
  match toks with
  | ["reset"] => (St.init, "ok")
  | ["bal", a, v] => match a.toNat?, v.toInt? with
    | some a, some v => if okA a then (setW s (s.h.w.setBalance a v), "ok") else (s, "bad-op")
    | _, _ => (s, "bad-op")
  | ["set", a, k, v] => match a.toNat?, k.toNat?, v.toNat? with
    | some a, some k, some v =>
      if okA a && okK k then let (w, old) := s.h.w.setValue a k v; (setW s w, toString old) else (s, "bad-op")
    | _, _, _ => (s, "bad-op")
  | ["del", a, k] => match a.toNat?, k.toNat? with
    | some a, some k =>
      if okA a && okK k then let (w, old) := s.h.w.deleteValue a k; (setW s w, toString old) else (s, "bad-op")
    | _, _ => (s, "bad-op")
  | ["getbal", a] => match a.toNat? with
    | some a => if okA a then let (w, st) := s.h.w.getAccountState a; (setW s w, toString st.hdr.bal) else (s, "bad-op")
    | none => (s, "bad-op")
  | ["get", a, k] => match a.toNat?, k.toNat? with
    | some a, some k =>
      if okA a && okK k then
        let (w, st) := s.h.w.getAccountState a
        (setW s w, toString ((kvGet (st.store.getD []) k).getD 0))
      else (s, "bad-op")
    | _, _ => (s, "bad-op")
  | ["sbal", a] => match a.toNat? with
    | some a =>
      if okA a then
        let (w, sn) := s.h.w.getAccountSnapshot a
        (setW s w, toString ((sn.map (·.hdr.bal)).getD 0))
      else (s, "bad-op")
    | none => (s, "bad-op")
  | ["sget", a, k] => match a.toNat?, k.toNat? with
    | some a, some k =>
      if okA a && okK k then
        let (w, sn) := s.h.w.getAccountSnapshot a
        (setW s w, toString ((sn.bind fun x => kvGet (x.store.getD []) k).getD 0))
      else (s, "bad-op")
    | _, _ => (s, "bad-op")
  | ["deploy", a, c] => match a.toNat?, c.toNat? with
    | some a, some c => if okA a && c > 0 && c < 1000000 then (setW s (s.h.w.deploy a c), "ok") else (s, "bad-op")
    | _, _ => (s, "bad-op")
  | ["init", a] => match a.toNat? with
    | some a => if okA a then (setW s (s.h.w.initContract a), "ok") else (s, "bad-op")
    | none => (s, "bad-op")
  | ["dep", a, c] => match a.toNat?, c.toNat? with
    | some a, some c => if okA a && c > 0 && c < 1000000 then (setW s (s.h.w.deployContract a c), "ok") else (s, "bad-op")
    | _, _ => (s, "bad-op")
  | ["acc", a, c] => match a.toNat?, c.toNat? with
    | some a, some c =>
      if okA a && c > 0 && c < 1000000 then
        let (w, ok) := s.h.w.acceptContract a c
        (setW s w, if ok then "ok" else "err")
      else (s, "bad-op")
    | _, _ => (s, "bad-op")
  | ["rej", a, c] => match a.toNat?, c.toNat? with
    | some a, some c =>
      if okA a && c > 0 && c < 1000000 then
        let (w, ok) := s.h.w.rejectContract a c
        (setW s w, if ok then "ok" else "err")
      else (s, "bad-op")
    | _, _ => (s, "bad-op")
  | ["sog", a, nh, g] => match a.toNat?, nh.toNat?, g.toNat? with
    | some a, some nh, some g =>
      if okA a && nh < 1000 && g < 1000000 then
        let (_, st) := s.h.w.getAccountState a
        (setW s (s.h.w.setObjGraph a nh g), if st.hdr.cur.isSome then "ok" else "nocontract")
      else (s, "bad-op")
    | _, _, _ => (s, "bad-op")
  | ["gog", a] => match a.toNat? with
    | some a =>
      if okA a then
        let (w, st) := s.h.w.getAccountState a
        (setW s w, if st.hdr.cur.isSome then showGraph st.hdr.graph else "nocontract")
      else (s, "bad-op")
    | none => (s, "bad-op")
  | ["sgog", a] => match a.toNat? with
    | some a =>
      if okA a then
        let (w, sn) := s.h.w.getAccountSnapshot a
        (setW s w, match sn with
          | some x => if x.hdr.cur.isSome then showGraph x.hdr.graph else "nocontract"
          | none => "nocontract")
      else (s, "bad-op")
    | none => (s, "bad-op")
  | ["snap"] =>
    let (w, ws) := s.h.w.getSnapshot
    let ws := (boxSnap ws).f
    let s1 : St := { s with h := ⟨normWorld w, s.h.snaps ++ [ws]⟩ }
    let (s2, hn) := hashNo s1 ws
    (s2, s!"s{s.h.snaps.length} {hn}")
  | ["wreset", i] => match i.toNat? with
    | some i => match s.h.snaps[i]? with
      | some ws => (setW s (s.h.w.reset ws), "ok")
      | none => (s, "bad-op")
    | none => (s, "bad-op")
  | ["cc"] => (setW s s.h.w.clearCache, "ok")
  | ["reload", i] => match i.toNat? with
    | some i => match s.h.snaps[i]? with
      | some ws =>
        let w := World.reload s.h.w.next ws
        -- the harness prints the hash of a snapshot of the new world
        let (w', ws') := w.getSnapshot
        let s1 := setW s w'
        hashNo s1 (boxSnap ws').f
      | none => (s, "bad-op")
    | none => (s, "bad-op")
  | ["read", i] => match i.toNat? with
    | some i => match s.h.snaps[i]? with
      | some ws => let (s1, hn) := hashNo s ws; (s1, dump ws ++ " " ++ hn)
      | none => (s, "bad-op")
    | none => (s, "bad-op")
  | _ => (s, "bad-op")

end Goloop.Driver.C14
def main : IO Unit := Goloop.Proto.run Goloop.Driver.C14.step Goloop.Driver.C14.St.init
