import Goloop.Base.Proto
import Goloop.Model.C09
import Goloop.Model.C09Retry
namespace Goloop.Driver.C09
open Goloop Goloop.C09

def digits (s : String) (maxLen : Nat) : Option Nat :=
  if s.isEmpty ∨ s.length > maxLen ∨ !(s.toList.all Char.isDigit) then none else s.toNat?

def acctOf (nacc : Nat) (s : String) : Option Nat :=
  match digits s 3 with
  | some v => if v < nacc then some v else none
  | none => none

def reqOf (nacc : Nat) (s : String) : Option Req :=
  if s = "W" then some ⟨none, .write⟩
  else if s = "R" then some ⟨none, .read⟩
  else match s.toList with
    | 'w' :: rest => (acctOf nacc (String.ofList rest)).map (fun a => ⟨some a, .write⟩)
    | 'r' :: rest => (acctOf nacc (String.ofList rest)).map (fun a => ⟨some a, .read⟩)
    | _ => none

def stepOf (nacc : Nat) (s : String) : Option Step :=
  match s.toList with
  | 'w' :: rest => (acctOf nacc (String.ofList rest)).map Step.w
  | 'r' :: rest => (acctOf nacc (String.ofList rest)).map Step.r
  | _ => none

/-- a trailing `!` (executor retry: snapshot at start, run, Reset to the snapshot, run again) does
    not change what the transaction finally observes and writes: the model ignores it -/
def stripRetry (s : String) : String :=
  if s.endsWith "!" then String.ofList (s.toList.dropLast) else s

def retryOf (s : String) : Bool := s.endsWith "!"

def txOf (nacc : Nat) (s0 : String) : Option Tx :=
  let s := stripRetry s0
  match s.splitOn ":" with
  | [ls, ps] =>
    let reqs := if ls = "-" then some [] else (ls.splitOn ",").mapM (reqOf nacc)
    let prog := if ps = "-" then some [] else (ps.splitOn ",").mapM (stepOf nacc)
    match reqs, prog with
    | some r, some p => some ⟨r, p⟩
    | _, _ => none
  | _ => none

def joinOr (sep : String) (l : List String) : String := if l.isEmpty then "-" else sep.intercalate l

def showDep (lk : Locks) : String :=
  let pre := if lk.world = 2 then ["W"] else if lk.world = 1 then ["R"] else []
  let es := (lk.las.mergeSort (fun x y => x.acct ≤ y.acct)).map (fun l =>
    (if l.lock = .write then "w" else "r") ++ toString l.acct ++ ">" ++
      (match l.depend with
       | some j => toString j
       | none => "-"))
  joinOr "," (pre ++ es)

def showObs (o : List (Option Nat)) : String :=
  joinOr "," (o.map (fun v => match v with
    | some x => toString x
    | none => "n"))

def isPerm (n : Nat) (l : List Nat) : Bool :=
  l.length = n && l.all (· < n) && l.eraseDups.length = n

/-- fire a list of events of the retry system, each of which must be enabled -/
def fireAll (txs : List Tx) (retry : List Bool) (lks : List Locks) (r : RSim) (evs : List Ev) : Option RSim :=
  runEv true txs retry lks evs r

/-- what the harness does when the schedule picks transaction `i`: a retrying world write locker
    takes its start snapshot when it is first scheduled; a program step is a step; the Commit of a
    retrying transaction is: Reset to the start snapshot, the whole program again, Commit -/
def macroFor (txs : List Tx) (retry : List Bool) (lks : List Locks) (r : RSim) (i : Nat) : List Ev :=
  let isRetry := retry.getD i false
  let prog := (txs.getD i ⟨[], []⟩).prog
  let pc := (r.sim.sts.getD i {}).pc
  let pre := if isRetry && !(rsOf r i).snapped then [Ev.snap i] else []
  if pc < prog.length then pre ++ [Ev.act i]
  else if isRetry then pre ++ [Ev.reset i] ++ List.replicate prog.length (Ev.act i) ++ [Ev.act i]
  else [Ev.act i]

/-- `simulate` on the retry system, events in the harness's order -/
def simulateR (txs : List Tx) (retry : List Bool) (lks : List Locks) : Nat → RSim → Sched → Option RSim
  | 0, r, _ => some r
  | f + 1, r, sc =>
    if (List.range txs.length).all (fun i => r.sim.isCommitted i) then some r
    else
      let en := enabledList txs lks r.sim
      match pick txs lks r.sim en sc with
      | none => none
      | some (i, sc') =>
        match fireAll txs retry lks r (macroFor txs retry lks r i) with
        | none => none
        | some r' => simulateR txs retry lks f r' sc'

/-- account-lock snapshots are taken as soon as the virtual states exist -/
def initialSnaps (txs : List Tx) (retry : List Bool) (lks : List Locks) : List Ev :=
  (List.range txs.length).filterMap (fun i =>
    if retry.getD i false && (lks.getD i ⟨0, []⟩).world != 2 then some (Ev.snap i) else none)

def run (mode : String) (nacc n : Nat) (rest : List String) : String :=
  if nacc < 1 ∨ nacc > 16 ∨ n > 32 ∨ rest.length < n + 1 then "bad-op"
  else
    let kind := rest.getD n ""
    match (rest.take n).mapM (txOf nacc), (rest.drop (n + 1)).mapM (fun t => digits t 6) with
    | some txs, some sched =>
      let retry := (rest.take n).map retryOf
      if kind ≠ "s" ∧ kind ≠ "p" then "bad-op"
      else if kind = "p" ∧ !(isPerm n sched) then "bad-op"
      else
        let lks := build txs
        if !((txs.zip lks).all (fun p => validTx p.2 p.1)) then "bad-op"
        else if (txs.zip lks).any (fun p => p.2.world = 2 && p.1.prog.isEmpty) then "unsupported"
        else if txs.any (fun t => t.reqs.any (fun r => r.acct.isNone && r.lock = .read)) then "unsupported"
        else
          let sc := if mode = "f" then Sched.toks [] else if kind = "p" then Sched.prio sched else Sched.toks sched
          match (fireAll txs retry lks (rInit nacc txs) (initialSnaps txs retry lks)).bind
              (fun r0 => simulateR txs retry lks (fuelFor txs) r0 sc) with
          | none => "deadlock"
          | some r =>
            let s := r.sim
            if !((List.range txs.length).all (fun i => s.isCommitted i)) then "deadlock"
            else
              let d := joinOr ";" (lks.map showDep)
              let o := joinOr ";" (s.sts.map (fun st => showObs st.loc.obs))
              let f := ",".intercalate (s.real.map toString)
              s!"ok d={d} o={o} f={f}"
    | _, _ => "bad-op"

def step (s : Unit) (toks : List String) : Unit × String :=
  let out := match toks with
  | ["reset"] => "ok"
  | "blk" :: mode :: nacc :: n :: rest =>
    -- `l`/`d`: the harness creates the virtual states lazily; the dependency table is a function
    -- of the block only (`build`), so the model is the same as for `g`/`f`
    let mode := if mode = "l" then "g" else if mode = "d" then "f" else mode
    if mode ≠ "g" ∧ mode ≠ "f" then "bad-op"
    else match digits nacc 3, digits n 3 with
      | some nacc, some n => run mode nacc n rest
      | _, _ => "bad-op"
  | _ => "bad-op"
  (s, out)
end Goloop.Driver.C09
def main : IO Unit := Goloop.Proto.run Goloop.Driver.C09.step ()
