/-
  Driver/C08: line protocol around Model/C08.
  The environment of the decoder (transaction codec, vote list codec, BTP digest, result, address,
  logs bloom) is a set of finite tables filled by `tx/txl/votes/digest/result/prop/bloom` lines,
  which the generator computes with the real component functions; anything not in a table is
  invalid. `dec HEX` runs the model of BlockDataFactory.NewBlockDataFromReader.
  Tokens for a Go []byte: `nil` = nil, `-` = empty, else hex.
-/
import Goloop.Base.Proto
import Goloop.Base.Sha3
import Goloop.Model.C08
namespace Goloop.Driver.C08
open Goloop Goloop.C08

abbrev OB := Option Bytes

structure St where
  txs : List (Bytes × Bytes) := []            -- input ↦ tx.Bytes()
  txls : List (List Bytes × OB) := []
  votes : List (OB × (OB × OB)) := []           -- input ↦ (canonical bytes, hash)
  digests : List (OB × (OB × OB × OB)) := []    -- input ↦ (canonical bytes, hash, filter)
  results : List (OB × OB) := []
  props : List (OB × OB) := []
  blooms : List (OB × OB) := []

def ob? (s : String) : Option OB :=
  if s == "nil" then some none
  else if s == "-" then some (some [])
  else (Hex.decode s).map some

def obStr : OB → String
  | none => "nil"
  | some [] => "-"
  | some b => Hex.encode b

def lookupOB {β : Type} (tbl : List (OB × β)) (k : OB) : Option β :=
  (tbl.find? (fun e => e.1 == k)).map (·.2)

abbrev V := OB × OB
abbrev D := OB × OB × OB

def envOf (st : St) : Env Bytes V D where
  txFromBytes := fun b => match b with
    | none => none
    | some bs => (st.txs.find? (fun e => e.1 == bs)).map (·.2)
  txBytes := fun t => t
  txListHash := fun l => match l with
    | [] => none
    | _ => match st.txls.find? (fun e => e.1 == l) with
      | some e => e.2
      | none => some [0xde, 0xad]   -- unknown list: a hash nothing equals
  votesFromBytes := fun b => lookupOB st.votes b
  votesBytes := fun v => v.1
  votesHash := fun v => v.2
  digestFromBytes := fun b => lookupOB st.digests b
  digestBytes := fun d => d.1
  digestHash := fun d => d.2.1
  digestFilter := fun d => d.2.2
  digestHashFromResult := fun r => lookupOB st.results r
  proposerFromBytes := fun p => match p with
    | none => some none
    | some _ => lookupOB st.props p
  bloomCanon := fun b => match lookupOB st.blooms b with
    | some c => c
    | none => some [0xde, 0xad]
  hash := sha3_256

def parseList (s : String) : Option (List Bytes) :=
  if s == "-" then some []
  else (s.splitOn ",").mapM Hex.decode

def step (st : St) (toks : List String) : St × String :=
  match toks with
  | ["reset"] => ({}, "ok")
  | ["tx", h, c] => match Hex.decode h, Hex.decode c with
    | some b, some c => ({ st with txs := (b, c) :: st.txs }, "ok")
    | _, _ => (st, "bad-op")
  | ["txl", l, h] => match parseList l, ob? h with
    | some l, some h => ({ st with txls := (l, h) :: st.txls }, "ok")
    | _, _ => (st, "bad-op")
  | ["votes", i, h, c] => match ob? i, ob? h, ob? c with
    | some i, some h, some c => ({ st with votes := (i, (c, h)) :: st.votes }, "ok")
    | _, _, _ => (st, "bad-op")
  | ["digest", i, h, f, c] => match ob? i, ob? h, ob? f, ob? c with
    | some i, some h, some f, some c => ({ st with digests := (i, (c, h, f)) :: st.digests }, "ok")
    | _, _, _, _ => (st, "bad-op")
  | ["result", i, h] => match ob? i, ob? h with
    | some i, some h => ({ st with results := (i, h) :: st.results }, "ok")
    | _, _ => (st, "bad-op")
  | ["prop", i, c] => match ob? i, ob? c with
    | some i, some c => ({ st with props := (i, c) :: st.props }, "ok")
    | _, _ => (st, "bad-op")
  | ["bloom", i, c] => match ob? i, ob? c with
    | some i, some c => ({ st with blooms := (i, c) :: st.blooms }, "ok")
    | _, _ => (st, "bad-op")
  | "dec" :: h :: _ => match Hex.decodeWire h with
    | none => (st, "bad-op")
    | some input =>
      let env := envOf st
      match factoryDecode env input with
      | none => (st, "err")
      | some blk =>
        (st, s!"ok id={Hex.encode (blockID env blk)} hdr={Hex.encode (encodeHeader (headerOf env blk))} body={Hex.encode (encodeBody (bodyOf env blk))}")
  | ["decs", mode, kS, nS, h, _lens] =>
    match kS.toNat?, nS.toNat?, Hex.decodeWire h with
    | some k, some n, some input =>
      if !(mode == "seek" || mode == "bufio" || mode == "plain") then (st, "bad-op")
      else if mode == "plain" ∧ n ≠ 1 then (st, "bad-op")
      else if k > input.length ∨ n = 0 ∨ n > 16 then (st, "bad-op")
      else
        let env := envOf st
        let total := input.length
        let rec go (fuel : Nat) (cur : Bytes) (acc : List String) : List String :=
          match fuel with
          | 0 => acc
          | fuel + 1 =>
            match factoryDecodeRest env cur with
            | none => acc ++ ["err"]
            | some (blk, rest) =>
              let pos := if mode == "plain" then "" else s!" pos={total - rest.length}"
              go fuel rest (acc ++ [s!"ok id={Hex.encode (blockID env blk)}{pos}"])
        (st, ";".intercalate (go n (input.drop k) []))
    | _, _, _ => (st, "bad-op")
  | _ => (st, "bad-op")

end Goloop.Driver.C08
def main : IO Unit := Goloop.Proto.run Goloop.Driver.C08.step {}
