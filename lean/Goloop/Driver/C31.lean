import Goloop.Base.Proto
import Goloop.Model.C31
namespace Goloop.Driver.C31
open Goloop Goloop.C31

structure DState where
  active : Bool := false
  real : Bool := false          -- a real suite: the wire is not predicted, only its frame lengths
  wst : St := ⟨[], [], []⟩
  rst : St := ⟨[], [], []⟩
  inflight : List Bytes := []   -- conn.Write calls not yet consumed by the reader
  closed : Bool := false        -- the reader returned an error

def init : DState := {}

def A : Aead := Toy.aead

/-- remove `k` bytes from the front of a list of frames, keeping the later boundaries -/
def dropFrames : Nat → List Bytes → List Bytes
  | _, [] => []
  | k, f :: fs => if f.length ≤ k then dropFrames (k - f.length) fs else f.drop k :: fs

def setAt : Nat → UInt8 → List Bytes → Option (List Bytes)
  | _, _, [] => none
  | k, b, f :: fs =>
    if k < f.length then some (f.set k (f.getD k 0 ^^^ b) :: fs)
    else (setAt (k - f.length) b fs).map (f :: ·)

def keyLenOk (suite : String) (key : Bytes) : Bool :=
  match suite with
  | "toy" => !key.isEmpty
  | "chacha" => key.length == 32
  | "aes128" => key.length == 16
  | "aes256" => key.length == 32
  | _ => false

def boolOf (s : String) : Option Bool :=
  if s == "true" then some true else if s == "false" then some false else none

def hexNat (s : String) : Option Nat := (Hex.decodeWire (if s.length % 2 == 1 then "0" ++ s else s)).map beNat

def showErr : RErr → String
  | .eof => "eof"
  | .auth => "auth"

/-- read with `buflen` until an error; returns the bytes and the status -/
def finLoop : Nat → St → Bytes → Nat → List Bytes → Bytes × RErr
  | 0, _, _, _, acc => (acc.reverse.flatten, .eof)
  | fuel + 1, st, wire, buflen, acc =>
    match read A st wire buflen with
    | .error e => (acc.reverse.flatten, e)
    | .ok (out, st', wire') => finLoop fuel st' wire' buflen (out :: acc)

/-- `conn`: A sends "ping" with its out-key, B reads with its in-key -/
def deliver (outKey inKey : Bytes) : String :=
  let n0 : Bytes := List.replicate 12 0
  let (_, ws) := write A ⟨outKey, n0, []⟩ [112, 105, 110, 103]
  match read A ⟨inKey, n0, []⟩ ws.flatten 16 with
  | .ok (out, _, _) => if out = [112, 105, 110, 103] then "ok" else "garbled"
  | .error e => showErr e

def step (s : DState) (toks : List String) : DState × String :=
  match toks with
  | ["reset"] => (init, "ok")
  | ["init", suite, k] => match Hex.decodeWire k with
      | some key => if keyLenOk suite key then
          let st : St := ⟨key, List.replicate 12 0, []⟩
          ({ active := true, real := suite != "toy", wst := st, rst := st }, "ok")
        else (s, "bad-op")
      | none => (s, "bad-op")
  | ["w", h] => match Hex.decodeWire h with
      | some b => if !s.active then (s, "bad-op") else
          let (wst', ws) := write A s.wst b
          let out := if ws.isEmpty then "none"
            else if s.real then ",".intercalate (ws.map (fun w => toString w.length))
            else ",".intercalate (ws.map Hex.encode)
          ({ s with wst := wst', inflight := s.inflight ++ ws }, out)
      | none => (s, "bad-op")
  | ["r", n] => match n.toNat? with
      | some buflen => if !s.active then (s, "bad-op") else if s.closed then (s, "closed") else
          let wire := s.inflight.flatten
          match read A s.rst wire buflen with
          | .error e => ({ s with closed := true }, showErr e)
          | .ok (out, st', wire') =>
            ({ s with rst := st', inflight := dropFrames (wire.length - wire'.length) s.inflight }, Hex.encodeWire out)
      | none => (s, "bad-op")
  | ["fin", n] => match n.toNat? with
      | some buflen => if !s.active ∨ buflen = 0 then (s, "bad-op") else if s.closed then (s, "closed") else
          let wire := s.inflight.flatten
          let (out, e) := finLoop (wire.length + s.rst.remain.length + 2) s.rst wire buflen []
          ({ s with closed := true, inflight := [] }, Hex.encodeWire out ++ " " ++ showErr e)
      | none => (s, "bad-op")
  | ["tamper", p, b] => match p.toNat?, b.toNat? with
      | some pos, some byte => if !s.active ∨ byte ≥ 256 ∨ byte = 0 then (s, "bad-op") else
          match setAt pos (UInt8.ofNat byte) s.inflight with
          | some fl => ({ s with inflight := fl }, "ok")
          | none => (s, "bad-op")
      | _, _ => (s, "bad-op")
  | ["swap", a, b] => match a.toNat?, b.toNat? with
      | some i, some j => if !s.active then (s, "bad-op") else
          match s.inflight[i]?, s.inflight[j]? with
          | some fi, some fj => ({ s with inflight := (s.inflight.set i fj).set j fi }, "ok")
          | _, _ => (s, "bad-op")
      | _, _ => (s, "bad-op")
  | ["drop", a] => match a.toNat? with
      | some i => if !s.active ∨ i ≥ s.inflight.length then (s, "bad-op")
          else ({ s with inflight := s.inflight.eraseIdx i }, "ok")
      | none => (s, "bad-op")
  | ["dup", a] => match a.toNat? with
      | some i => if !s.active then (s, "bad-op") else
          match s.inflight[i]? with
          | some f => ({ s with inflight := s.inflight.take (i + 1) ++ f :: s.inflight.drop (i + 1) }, "ok")
          | none => (s, "bad-op")
      | none => (s, "bad-op")
  | ["keys", _, _, da, db, n, xa, ya, xb, yb] =>
      match boolOf da, boolOf db, n.toNat?, hexNat xa, hexNat ya, hexNat xb, hexNat yb with
      | some dA, some dB, some num, some xA, some yA, some xB, some yB =>
        let la := isLowerAfter (xA, yA) (xB, yB) dA
        let lb := isLowerAfter (xB, yB) (xA, yA) dB
        -- secrets are named by their index
        let secrets : List Bytes := (List.range num).map (fun i => [UInt8.ofNat i])
        let idx (o : Option (Bytes × Bytes)) : String := match o with
          | some (i, o) => s!"{i.headD 9}{o.headD 9}"
          | none => "nosecret"
        (s, s!"{la} {lb} {idx (selectSecrets secrets la)} {idx (selectSecrets secrets lb)}")
      | _, _, _, _, _, _, _ => (s, "bad-op")
  | ["conn", suite, h0, h1, la, lb] =>
      match Hex.decodeWire h0, (if h1 == "-" then some none else (Hex.decodeWire h1).map some), boolOf la, boolOf lb with
      | some s0, some s1?, some lA, some lB =>
        let secrets := match s1? with
          | some s1 => [s0, s1]
          | none => [s0]
        if !(secrets.all (keyLenOk suite)) ∨ suite == "toy" then (s, "bad-op") else
        match selectSecrets secrets lA, selectSecrets secrets lB with
        | some (inA, outA), some (inB, outB) => (s, s!"ab={deliver outA inB} ba={deliver outB inA}")
        | _, _ => (s, "bad-op")
      | _, _, _, _ => (s, "bad-op")
  | ["pipe", suite, k, ws, bs] => match Hex.decodeWire k, ws.toNat?, bs.toNat? with
      | some key, some wsz, some bsz =>
        if keyLenOk suite key ∧ suite != "toy" ∧ bsz > 0 then (s, s!"ok {wsz}") else (s, "bad-op")
      | _, _, _ => (s, "bad-op")
  | _ => (s, "bad-op")
end Goloop.Driver.C31
def main : IO Unit := Goloop.Proto.run Goloop.Driver.C31.step Goloop.Driver.C31.init
