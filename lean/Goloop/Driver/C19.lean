import Goloop.Base.Proto
import Goloop.Model.C19
namespace Goloop.Driver.C19
open Goloop Goloop.C19

structure St where
  db : LDB
  slots : List (Nat × Handle)

def init : St := { db := newLayerDB [], slots := [] }

def showV : Option Bytes → String
  | none => "nil"
  | some b => Hex.encodeWire b

def slotOf (s : St) (n : Nat) : Option Handle := (s.slots.find? (fun p => p.1 == n)).map (·.2)

def step (s : St) (toks : List String) : St × String :=
  match toks with
  | ["reset"] => (init, "ok")
  | ["bset", b, k, v] =>
    match Hex.decodeWire b, Hex.decodeWire k, Hex.decodeWire v with
    | some b, some k, some v => ({ s with db := { s.db with real := sset s.db.real (b, k) v } }, "ok")
    | _, _, _ => (s, "bad-op")
  | ["bdel", b, k] =>
    match Hex.decodeWire b, Hex.decodeWire k with
    | some b, some k => ({ s with db := { s.db with real := sdel s.db.real (b, k) } }, "ok")
    | _, _ => (s, "bad-op")
  | ["open", n, b] =>
    match n.toNat?, Hex.decodeWire b with
    | some n, some b =>
      let r := getBucket s.db b
      ({ db := r.1, slots := (n, r.2) :: s.slots.filter (fun p => p.1 != n) }, "ok")
    | _, _ => (s, "bad-op")
  | "copen" :: b :: order :: slots =>
    -- concurrent opens of one bucket id, linearised as sequential opens
    match Hex.decodeWire b, slots.mapM (·.toNat?) with
    | some b, some ns =>
      if (ns.length = 2 ∨ ns.length = 3) ∧ order.length = ns.length ∧ order.toList.all (fun c => c = '0' ∨ c = '1' ∨ c = '2') then
        let s' := ns.foldl (fun (s : St) n =>
          let r := getBucket s.db b
          { db := r.1, slots := (n, r.2) :: s.slots.filter (fun p => p.1 != n) }) s
        (s', "ok")
      else (s, "bad-op")
    | _, _ => (s, "bad-op")
  | ["copenflush", b, n, w] =>
    -- GetBucket overlapping Flush, linearised as open; flush
    match Hex.decodeWire b, n.toNat? with
    | some b, some n =>
      if w == "1" || w == "0" then
        let r := getBucket s.db b
        let f := flush r.1 (w == "1")
        ({ db := f.1, slots := (n, r.2) :: s.slots.filter (fun p => p.1 != n) }, if f.2 then "ok" else "err")
      else (s, "bad-op")
    | _, _ => (s, "bad-op")
  | ["set", n, k, v] =>
    match n.toNat?, Hex.decodeWire k, Hex.decodeWire v with
    | some n, some k, some v =>
      match slotOf s n with
      | some h => ({ s with db := bkSet s.db h k v }, "ok")
      | none => (s, "bad-op")
    | _, _, _ => (s, "bad-op")
  | ["del", n, k] =>
    match n.toNat?, Hex.decodeWire k with
    | some n, some k =>
      match slotOf s n with
      | some h => ({ s with db := bkDelete s.db h k }, "ok")
      | none => (s, "bad-op")
    | _, _ => (s, "bad-op")
  | ["get", n, k] =>
    match n.toNat?, Hex.decodeWire k with
    | some n, some k =>
      match slotOf s n with
      | some h => (s, showV (bkGet s.db h k))
      | none => (s, "bad-op")
    | _, _ => (s, "bad-op")
  | ["has", n, k] =>
    match n.toNat?, Hex.decodeWire k with
    | some n, some k =>
      match slotOf s n with
      | some h => (s, if bkHas s.db h k then "true" else "false")
      | none => (s, "bad-op")
    | _, _ => (s, "bad-op")
  | ["flush", w] =>
    if w == "1" || w == "0" then
      let r := flush s.db (w == "1")
      ({ s with db := r.1 }, if r.2 then "ok" else "err")
    else (s, "bad-op")
  | ["cmp", b, k] =>
    match Hex.decodeWire b, Hex.decodeWire k with
    | some b, some k =>
      let r := getBucket s.db b
      let bv := sget s.db.real (b, k)
      let vv := bkGet r.1 r.2 k
      let vh := bkHas r.1 r.2 k
      ({ s with db := r.1 },
        s!"b={showV bv},{bv.isSome} v={showV vv},{vh}")
    | _, _ => (s, "bad-op")
  | _ => (s, "bad-op")
end Goloop.Driver.C19
def main : IO Unit := Goloop.Proto.run Goloop.Driver.C19.step Goloop.Driver.C19.init
