import Goloop.Base.Proto
import Goloop.Model.C30
namespace Goloop.Driver.C30
open Goloop Goloop.C30

def natList (s : String) : Option (List Nat) :=
  (s.splitOn ",").foldr (fun t acc => match acc, t.toNat? with
    | some l, some v => some (v :: l)
    | _, _ => none) (some [])

/-- cut `bs` into chunks of the given sizes, cycling through `sizes` (0 = an empty chunk). -/
def chunkBy (sizes : List Nat) : Nat → List Nat → Bytes → List Bytes
  | 0, _, _ => []
  | fuel + 1, cur, bs =>
    if bs.isEmpty then [] else
    match cur with
    | [] => chunkBy sizes fuel sizes bs
    | n :: cur' => bs.take n :: chunkBy sizes fuel cur' (bs.drop n)

def mkSource (sizes : List Nat) (bs : Bytes) : Option Source :=
  if sizes.all (· == 0) then none
  else some (chunkBy sizes ((bs.length + 1) * (sizes.length + 1)) sizes bs)

/-- `pi:spi:src:dest:ttl:hint:payload:ext` -/
def parsePkt (s : String) : Option Packet :=
  match s.splitOn ":" with
  | [a, b, c, d, e, f, g, h] =>
    match a.toNat?, b.toNat?, Hex.decodeWire c, d.toNat?, e.toNat?, f.toNat?, Hex.decodeWire g, Hex.decodeWire h with
    | some pi, some spi, some src, some dest, some ttl, some hint, some pl, some ext =>
      if pi < 65536 ∧ spi < 65536 ∧ src.length = 20 ∧ dest < 256 ∧ ttl < 256 ∧ hint < 256 then
        some (newPacket pi spi src (UInt8.ofNat dest) (UInt8.ofNat ttl) pl hint ext)
      else none
    | _, _, _, _, _, _, _, _ => none
  | _ => none

def parsePkts (ts : List String) : Option (List Packet) :=
  ts.foldr (fun t acc => match acc, parsePkt t with
    | some l, some p => some (p :: l)
    | _, _ => none) (some [])

def showPkt (p : Packet) : String :=
  s!"{p.protocol}:{p.subProtocol}:{Hex.encodeWire p.src}:{p.dest.toNat}:{p.ttl.toNat}:{p.lengthOfPayload}:{p.hashOfPacket}:{p.extendInfo}:{Hex.encodeWire p.payload}:{Hex.encodeWire p.ext}"

def showErr : RErr → String
  | .eof => "eof"
  | .badLen => "badlen"
  | .badHash => "badhash"

def showRead (r : List Packet × RErr) : String :=
  " ".intercalate (r.1.map showPkt ++ [showErr r.2])

def readStream (sizes : List Nat) (bs : Bytes) : String :=
  match mkSource sizes bs with
  | none => "bad-op"
  | some src => showRead (readAll (bs.length / 40 + 2) src)

/-- a writer whose packets have extendInfo.len() > len(ext) slices out of range in WriteTo -/
def writable (ps : List Packet) : Bool := ps.all (fun p => extLen p.extendInfo ≤ p.ext.length)

def step (s : Unit) (toks : List String) : Unit × String :=
  let out := match toks with
  | "wr" :: pts => match parsePkts pts with
      | some ps => if pts.isEmpty then "bad-op" else if writable ps then Hex.encodeWire (writeAll ps).2 else "panic"
      | none => "bad-op"
  | ["rd", sz, h] => match natList sz, Hex.decodeWire h with
      | some sizes, some bs => readStream sizes bs
      | _, _ => "bad-op"
  | "rt" :: sz :: pts => match natList sz, parsePkts pts with
      | some sizes, some ps => if pts.isEmpty then "bad-op" else if writable ps then readStream sizes (writeAll ps).2 else "panic"
      | _, _ => "bad-op"
  | "cor" :: sz :: pos :: byte :: pts => match natList sz, pos.toNat?, byte.toNat?, parsePkts pts with
      | some sizes, some i, some b, some ps =>
        if pts.isEmpty then "bad-op" else
        if ¬ writable ps then "panic" else
        let w := (writeAll ps).2
        if i < w.length ∧ b < 256 ∧ w[i]? ≠ some (UInt8.ofNat b) then readStream sizes (w.set i (UInt8.ofNat b)) else "bad-op"
      | _, _, _, _ => "bad-op"
  | _ => "bad-op"
  (s, out)
end Goloop.Driver.C30
def main : IO Unit := Goloop.Proto.run Goloop.Driver.C30.step ()
