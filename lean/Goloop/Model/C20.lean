/-
  Model/C20: state sync — `merkleBuilder` (common/merkle/builder.go) driven by
  `mpt.Resolve` / `nodeRequester.OnData` / `mpt.resolve` (common/trie/ompt/mpt.go,
  branch.go, extension.go, leaf.go `resolve`).

  Parameters (never axioms):
    `H`     the bucket's hash function (sha3-256 for db.MerkleTrie)
    `refs`  decoding of a node payload into the hashes of its children that are
            *hash links*, in the order `resolve` visits them (branch children
            0..15, extension next); `none` = `deserialize` fails.
            Embedded (< 32 byte) children never contain hash links, and
            `mpt.resolve` does not descend into them (realize succeeds) — so
            they contribute nothing.  Leaf values are `bytesObject`s whose
            `Resolve` is a no-op.
  State:
    `store`  the builder's database bucket as an association list (newest first)
    `reqs`   `merkleBuilder.requests`: outstanding request keys in list order
             (one bucket/hasher; the per-request requester list is not observable
             for a single trie and is left out)
    `resolved`
-/
import Goloop.Base.Bytes
namespace Goloop.C20

structure Cfg where
  H : Bytes → Bytes
  refs : Bytes → Option (List Bytes)

structure St where
  store : List (Bytes × Bytes) := []
  reqs : List Bytes := []
  resolved : Nat := 0
deriving Repr

def has (store : List (Bytes × Bytes)) (k : Bytes) : Bool := store.any (fun e => e.1 == k)

/-- `list.InsertAfter(req, mark)` where `mark` is the element at index `i`. -/
def insertAfter (l : List Bytes) (i : Nat) (k : Bytes) : List Bytes :=
  l.take (i + 1) ++ k :: l.drop (i + 1)

/-- `RequestData` for one bucket: a key already requested only gets another requester (not
    observable); otherwise inserted after `onDataMark` (which then moves to the new element)
    or pushed back when there is no mark. -/
def requestData (reqs : List Bytes) (mark : Option Nat) (k : Bytes) : List Bytes × Option Nat :=
  if reqs.contains k then (reqs, mark)
  else match mark with
    | none => (reqs ++ [k], none)
    | some i => (insertAfter reqs i k, some (i + 1))

/-- `mpt.resolve` on a hash link: nothing if the node can be realised from the store,
    a request otherwise. -/
def resolveRef (store : List (Bytes × Bytes)) (acc : List Bytes × Option Nat) (c : Bytes) :
    List Bytes × Option Nat :=
  if has store c then acc else requestData acc.1 acc.2 c

def resolveRefs (store : List (Bytes × Bytes)) (acc : List Bytes × Option Nat) (cs : List Bytes) :
    List Bytes × Option Nat :=
  cs.foldl (resolveRef store) acc

/-- `mpt.Resolve(builder)` for a trie whose root hash is `root` (`none` = empty trie). -/
def start (s : St) (root : Option Bytes) : St :=
  match root with
  | none => s
  | some r => { s with reqs := (resolveRef s.store (s.reqs, none) r).1 }

inductive Res | ok | noRequester | decodeError
deriving DecidableEq, Repr

/-- `merkleBuilder.OnData(bucket, value)`. -/
def onData (cfg : Cfg) (s : St) (value : Bytes) : St × Res :=
  let key := cfg.H value
  match s.reqs.idxOf? key with
  | none => (s, .noRequester)
  | some i =>
    let store' := (key, value) :: s.store          -- bk.Set(key, value) happens before the requester runs
    match cfg.refs value with
    | none => ({ s with store := store' }, .decodeError)   -- request stays outstanding
    | some cs =>
      let (reqs', _) := resolveRefs store' (s.reqs, some i) cs
      ({ store := store', reqs := reqs'.eraseIdx i, resolved := s.resolved + 1 }, .ok)

/-- run a whole delivery history -/
def runAll (cfg : Cfg) (s : St) (vs : List Bytes) : St := vs.foldl (fun s v => (onData cfg s v).1) s

end Goloop.C20
