/-
  Model/C20: state sync — `merkleBuilder` (common/merkle/builder.go `OnData` / `RequestData`)
  driven by `mpt.Resolve` / `nodeRequester.OnData` / `mpt.resolve` (common/trie/ompt/mpt.go,
  branch.go, extension.go, leaf.go `resolve`) and by `trie.Object.Resolve` of the trie's values.

  Buckets are explicit (`Bkt := Nat`; the driver uses 0 = db.MerkleTrie, 1 = db.BytesByHash).
  All buckets share one hasher (both are sha3-256 in the code), hence one request map.

  Parameters (never axioms):
    `H`     the hash function of the buckets
    `refs`  `refs b payload`: what the requester registered for bucket `b` asks for after it
            received `payload`, in the order it asks: for a trie node (`nodeRequester.OnData` =
            `deserialize` + `resolve`) the children that are *hash links* (branch children 0..15,
            extension next), as references into the trie bucket, then the blob the node's own
            value refers to (the value's `Resolve`), as a reference into the blob bucket; for a
            blob requester nothing.  `none` = the requester's `OnData` fails (`deserialize` error).
            Embedded (< 32 byte) children never contain hash links, and `mpt.resolve` does not
            descend into them (realize succeeds) — so they contribute nothing.
  State:
    `store`  the builder's database: (bucket, key, value) entries, newest first
    `reqs`   `merkleBuilder.requests`: outstanding requests in list order; a request has a key and
             the buckets of its requesters in registration order (`request.bucketIDs`); the
             `hasherMap` entry of a key is the request with that key
    `resolved`
-/
import Goloop.Base.Bytes
namespace Goloop.C20

abbrev Bkt := Nat
/-- a reference: bucket and key -/
abbrev Ref := Bkt × Bytes
/-- a database entry: bucket, key, value -/
abbrev Entry := Bkt × Bytes × Bytes

structure Cfg where
  H : Bytes → Bytes
  refs : Bkt → Bytes → Option (List Ref)

structure Req where
  key : Bytes
  bkts : List Bkt
deriving Repr, DecidableEq

structure St where
  store : List Entry := []
  reqs : List Req := []
  resolved : Nat := 0
deriving Repr

/-- `bucket.Get(key)`: the newest value set under (bucket, key) -/
def lookup (store : List Entry) (p : Ref) : Option Bytes :=
  (store.find? fun e => e.1 == p.1 && e.2.1 == p.2).map (·.2.2)

/-- what `resolve` asks before requesting a reference: the trie realises the node from its bucket
    (`mpt.realize`: `bucket.Get` then `deserialize`, either may fail), an object value looks the blob
    up in its bucket.  Present = stored and accepted by the requester of that bucket. -/
def present (cfg : Cfg) (store : List Entry) (p : Ref) : Bool :=
  match lookup store p with
  | none => false
  | some v => (cfg.refs p.1 v).isSome

/-- `list.InsertAfter(req, mark)` where `mark` is the element at index `i`. -/
def insertAfter {α : Type} (l : List α) (i : Nat) (k : α) : List α :=
  l.take (i + 1) ++ k :: l.drop (i + 1)

/-- `req.bucketIDs = append(req.bucketIDs, bid)` on the request the map holds for `k` -/
def addBkt (reqs : List Req) (b : Bkt) (k : Bytes) : List Req :=
  reqs.map fun r => if r.key == k then { r with bkts := r.bkts ++ [b] } else r

def hasKey (reqs : List Req) (k : Bytes) : Bool := reqs.any (·.key == k)

/-- `RequestData(b, k, requester)`: a key already requested gets another bucket/requester;
    otherwise a new request is inserted after `onDataMark` (which then moves to the new element)
    or pushed back when there is no mark. -/
def requestData (reqs : List Req) (mark : Option Nat) (b : Bkt) (k : Bytes) : List Req × Option Nat :=
  if hasKey reqs k then (addBkt reqs b k, mark)
  else match mark with
    | none => (reqs ++ [⟨k, [b]⟩], none)
    | some i => (insertAfter reqs i ⟨k, [b]⟩, some (i + 1))

/-- `mpt.resolve` on a hash link / `Object.Resolve` on a blob reference: nothing if the datum is
    present in its own bucket, a request otherwise. -/
def resolveRef (cfg : Cfg) (store : List Entry) (acc : List Req × Option Nat) (p : Ref) :
    List Req × Option Nat :=
  if present cfg store p then acc else requestData acc.1 acc.2 p.1 p.2

def resolveRefs (cfg : Cfg) (store : List Entry) (acc : List Req × Option Nat) (ps : List Ref) :
    List Req × Option Nat :=
  ps.foldl (resolveRef cfg store) acc

/-- `mpt.Resolve(builder)` for a trie (bucket 0) whose root hash is `root` (`none` = empty trie). -/
def start (cfg : Cfg) (s : St) (root : Option Bytes) : St :=
  match root with
  | none => s
  | some r => { s with reqs := (resolveRef cfg s.store (s.reqs, none) (0, r)).1 }

inductive Res | ok | noRequester | decodeError
deriving DecidableEq, Repr

/-- the requester loop of `OnData`: for every requester of the request, in registration order,
    `bk.Set(key, value)` into *its* bucket, then the requester's `OnData` (its references are
    resolved against the store that already holds the new entry).  A failing requester ends the
    loop: what was stored and requested so far stays.  `false` = failed. -/
def serve (cfg : Cfg) (key value : Bytes) :
    List Bkt → List Entry → List Req × Option Nat → List Entry × (List Req × Option Nat) × Bool
  | [], st, acc => (st, acc, true)
  | b :: bs, st, acc =>
    match cfg.refs b value with
    | none => ((b, key, value) :: st, acc, false)
    | some ps => serve cfg key value bs ((b, key, value) :: st)
                   (resolveRefs cfg ((b, key, value) :: st) acc ps)

/-- `merkleBuilder.OnData(bid, value)`.  `bid` only selects the hasher; there is one. The loop
    ranges over the requesters the request had when the loop started (`range req.requesters`);
    a requester appended meanwhile to this very request is dropped with it. -/
def onData (cfg : Cfg) (s : St) (_bid : Bkt) (value : Bytes) : St × Res :=
  let key := cfg.H value
  match s.reqs.find? (·.key == key) with
  | none => (s, .noRequester)
  | some r =>
    let i := s.reqs.findIdx (·.key == key)                    -- onDataMark = e
    let S := serve cfg key value r.bkts s.store (s.reqs, some i)
    if S.2.2 then
      ({ store := S.1, reqs := S.2.1.1.eraseP (·.key == key), resolved := s.resolved + 1 }, .ok)
    else
      ({ s with store := S.1, reqs := S.2.1.1 }, .decodeError)   -- request stays outstanding

/-- run a whole delivery history of (bid, value) -/
def runAll (cfg : Cfg) (s : St) (vs : List (Bkt × Bytes)) : St :=
  vs.foldl (fun s d => (onData cfg s d.1 d.2).1) s

end Goloop.C20
