/-
  Model/C08: block header / body formats over the goloop RLP dialect and the block decoder.

  Transcribed from
    block/blockv2.go      V2HeaderFormat / V2BodyFormat  RLPEncodeSelf / RLPDecodeSelf,
                          blockV2._headerFormat / _bodyFormat / ID
    block/handlerv2.go    blockV2Handler.NewBlockDataFromReader (decode + the hash checks)
    block/blockdatafactory.go, block/version.go  (version dispatch)
    common/codec/codec.go, rlp.go  the typed layer used by these formats:
        int fields    readIntValue: bytes item -> SafeBytesToInt64, null item -> 0 (decodeNullable)
        []byte fields ReadBytes: bytes item -> slice, null item (f8 00) -> nil, list item -> error;
                      long-form strings longer than maxSB = 10^6 are rejected
        [][]byte      ReadList: null -> nil slice, list -> elements read with ReadBytes until EOF
        DecodeMulti   stops with io.EOF when the list is exhausted; items after the last wanted
                      field are skipped unparsed by Close()

  Go `[]byte` is `Option Bytes` (`none` = nil).  The list reader is modelled split-first (payload
  cut out by its declared size, then read sequentially); the streaming reader of the code fails on
  exactly the same inputs (a short payload makes `Close()` of the list reader fail).  Inside a list
  the code lowers maxSB to min(maxSB, list size); a string longer than the list cannot be cut out
  of the payload anyway, so only the global bound 10^6 is kept.

  Everything outside block/ that the decoder calls (transactions, vote list, BTP digest, result,
  address, logs bloom, SHA3) is a field of `Env`.
-/
import Goloop.Base.Rlp
import Goloop.Model.C24
namespace Goloop.C08
open Goloop Goloop.Rlp

abbrev OBytes := Option Bytes

/-- `codec.MaxSizeForBytes` -/
def maxSB : Nat := 1000000

/-! ### typed readers over a list payload -/

inductive Rd (α : Type) where
  | ok (v : α) (rest : Bytes)
  | eof
  | err
  deriving Repr

/-- `rlpReader.readBytes` (`ReadBytes`, nullable). The code applies the maxSB test to long-form
    strings only; a short-form string has at most 55 bytes, so testing every string is the same. -/
def readBytes (b : Bytes) : Rd OBytes :=
  if b.isEmpty then .eof
  else
    match decodeHdr b with
    | none => .err
    | some (.single x, r) => .ok (some [x]) r
    | some (.null, r) => .ok none r
    | some (.lst _, _) => .err
    | some (.str n, r) =>
      if n > maxSB then .err
      else match splitAt? n r with
        | none => .err
        | some (p, r') => .ok (some p) r'

/-- `readIntValue` under `decodeNullable`: null is the zero value -/
def readInt (b : Bytes) : Rd Int :=
  match readBytes b with
  | .eof => .eof
  | .err => .err
  | .ok none r => .ok 0 r
  | .ok (some bs) r =>
    match C24.safeBytesToInt64 bs with
    | none => .err
    | some v => .ok v r

/-- elements of a `[][]byte`: `ReadBytes` until the list is exhausted -/
def readBytesSeq : Nat → Bytes → Option (List OBytes)
  | 0, _ => none
  | fuel + 1, b =>
    match readBytes b with
    | .eof => some []
    | .err => none
    | .ok v r =>
      match readBytesSeq fuel r with
      | none => none
      | some vs => some (v :: vs)

/-- a `[][]byte` field: null -> nil, list -> its elements -/
def readBss (b : Bytes) : Rd (Option (List OBytes)) :=
  if b.isEmpty then .eof
  else
    match decodeHdr b with
    | none => .err
    | some (.single _, _) => .err
    | some (.str _, _) => .err
    | some (.null, r) => .ok none r
    | some (.lst n, r) =>
      match splitAt? n r with
      | none => .err
      | some (p, r') =>
        match readBytesSeq (p.length + 1) p with
        | none => .err
        | some vs => .ok (some vs) r'

/-- `DecodeList()` on the top-level stream: payload and the bytes after the list -/
def openList (b : Bytes) : Option (Bytes × Bytes) :=
  match decodeHdr b with
  | some (.lst n, r) => splitAt? n r
  | _ => none

/-! ### formats -/

structure Header where
  version : Int
  height : Int
  timestamp : Int
  proposer : OBytes
  prevID : OBytes
  votesHash : OBytes
  nextValidatorsHash : OBytes
  patchTxHash : OBytes
  normalTxHash : OBytes
  logsBloom : OBytes
  result : OBytes
  nsFilter : OBytes
  deriving Repr, DecidableEq

structure Body where
  patchTxs : Option (List OBytes)
  normalTxs : Option (List OBytes)
  votes : OBytes
  btpDigest : OBytes
  deriving Repr, DecidableEq

def itemOfBytes : OBytes → Item
  | none => .nil
  | some b => .bytes b

def itemOfInt (v : Int) : Item := .bytes (C24.int64ToBytes v)

def itemOfBss : Option (List OBytes) → Item
  | none => .nil
  | some l => .list (l.map itemOfBytes)

/-- `V2HeaderFormat.RLPEncodeSelf`: 11 items, 12 when `NSFilter != nil` -/
def Header.items (h : Header) : List Item :=
  [itemOfInt h.version, itemOfInt h.height, itemOfInt h.timestamp,
   itemOfBytes h.proposer, itemOfBytes h.prevID, itemOfBytes h.votesHash,
   itemOfBytes h.nextValidatorsHash, itemOfBytes h.patchTxHash, itemOfBytes h.normalTxHash,
   itemOfBytes h.logsBloom, itemOfBytes h.result] ++
  (match h.nsFilter with | none => [] | some f => [.bytes f])

def encodeHeader (h : Header) : Bytes := encode (.list h.items)

/-- `V2BodyFormat.RLPEncodeSelf`: 3 items, 4 when `BTPDigest != nil` -/
def Body.items (b : Body) : List Item :=
  [itemOfBss b.patchTxs, itemOfBss b.normalTxs, itemOfBytes b.votes] ++
  (match b.btpDigest with | none => [] | some d => [.bytes d])

def encodeBody (b : Body) : Bytes := encode (.list b.items)

/-- a wanted field: anything but a value (end of list, malformed item) aborts `DecodeMulti` -/
def Rd.bind {α β : Type} (x : Rd α) (f : α → Bytes → Option β) : Option β :=
  match x with
  | .ok v r => f v r
  | .eof => none
  | .err => none

/-- the optional last field: `cnt == n-1 && err == io.EOF` leaves it nil; the items after it are
    skipped unparsed by `Close()` -/
def Rd.last {β : Type} (x : Rd OBytes) (f : OBytes → Option β) : Option β :=
  match x with
  | .ok v _ => f v
  | .eof => f none
  | .err => none

/-- `V2HeaderFormat.RLPDecodeSelf` = DecodeList + DecodeMulti(12 fields); `cnt == 11 && EOF` is the
    short form. Returns the header and the stream after the list. -/
def decodeHeader (input : Bytes) : Option (Header × Bytes) :=
  match openList input with
  | none => none
  | some (p, rest) =>
    (readInt p).bind fun version p1 =>
    (readInt p1).bind fun height p2 =>
    (readInt p2).bind fun timestamp p3 =>
    (readBytes p3).bind fun proposer p4 =>
    (readBytes p4).bind fun prevID p5 =>
    (readBytes p5).bind fun votesHash p6 =>
    (readBytes p6).bind fun nextValidatorsHash p7 =>
    (readBytes p7).bind fun patchTxHash p8 =>
    (readBytes p8).bind fun normalTxHash p9 =>
    (readBytes p9).bind fun logsBloom p10 =>
    (readBytes p10).bind fun result p11 =>
    (readBytes p11).last fun nsFilter =>
      some ({ version, height, timestamp, proposer, prevID, votesHash, nextValidatorsHash,
              patchTxHash, normalTxHash, logsBloom, result, nsFilter }, rest)

/-- `V2BodyFormat.RLPDecodeSelf` -/
def decodeBody (input : Bytes) : Option (Body × Bytes) :=
  match openList input with
  | none => none
  | some (p, rest) =>
    (readBss p).bind fun patchTxs p1 =>
    (readBss p1).bind fun normalTxs p2 =>
    (readBytes p2).bind fun votes p3 =>
    (readBytes p3).last fun btpDigest =>
      some ({ patchTxs, normalTxs, votes, btpDigest }, rest)

/-! ### the decoder with its hash checks -/

/-- everything `NewBlockDataFromReader` calls outside of block/ and codec/ -/
structure Env (Tx V D : Type) where
  /-- `sm.TransactionFromBytes(bs, BlockVersion2)` -/
  txFromBytes : OBytes → Option Tx
  /-- `tx.Bytes()` -/
  txBytes : Tx → Bytes
  /-- `sm.TransactionListFromSlice(txs, v).Hash()` -/
  txListHash : List Tx → OBytes
  /-- `chain.CommitVoteSetDecoder()(bs)` (nil result = none) -/
  votesFromBytes : OBytes → Option V
  votesBytes : V → OBytes
  votesHash : V → OBytes
  /-- `btp.NewDigestFromBytes` -/
  digestFromBytes : OBytes → Option D
  digestBytes : D → OBytes
  digestHash : D → OBytes
  /-- `bd.NetworkSectionFilter().Bytes()` -/
  digestFilter : D → OBytes
  /-- `service.BTPDigestHashFromResult(result)` -/
  digestHashFromResult : OBytes → Option OBytes
  /-- `newProposer(bs)` followed by `Address.Bytes()`: nil stays nil, invalid bytes are an error -/
  proposerFromBytes : OBytes → Option OBytes
  /-- `txresult.NewLogsBloomFromCompressed(bs).CompressedBytes()` -/
  bloomCanon : OBytes → OBytes
  /-- `crypto.SHA3Sum256` -/
  hash : Bytes → Bytes

/-- `bytes.Equal`: nil and empty are equal -/
def bytesEqual (a b : OBytes) : Bool := a.getD [] == b.getD []

/-- the immutable fields of `blockV2` after decoding -/
structure Block (Tx V D : Type) where
  height : Int
  timestamp : Int
  proposer : OBytes
  prevID : OBytes
  logsBloom : OBytes
  result : OBytes
  patchTxs : List Tx
  normalTxs : List Tx
  nextValidatorsHash : OBytes
  votes : V
  nsFilter : OBytes
  digest : D

/-- `module.BitSetFilterFromBytes(bs, cap).Bytes()`: nil when empty -/
def filterCanon (f : OBytes) : OBytes :=
  match f with
  | none => none
  | some [] => none
  | some b => some b

/-- `newTransactionListFromBSS` -/
def txsFromBss {Tx V D : Type} (env : Env Tx V D) (bss : Option (List OBytes)) : Option (List Tx) :=
  (bss.getD []).mapM env.txFromBytes

/-- `blockV2Handler.NewBlockDataFromReader`, given already decoded formats -/
def checkFormats {Tx V D : Type} (env : Env Tx V D) (hf : Header) (bf : Body) : Option (Block Tx V D) :=
  match txsFromBss env bf.patchTxs with
  | none => none
  | some patches =>
  if !bytesEqual (env.txListHash patches) hf.patchTxHash then none else
  match txsFromBss env bf.normalTxs with
  | none => none
  | some normals =>
  if !bytesEqual (env.txListHash normals) hf.normalTxHash then none else
  match env.votesFromBytes bf.votes with
  | none => none
  | some votes =>
  if !bytesEqual (env.votesHash votes) hf.votesHash then none else
  match env.digestFromBytes bf.btpDigest with
  | none => none
  | some bd =>
  match env.digestHashFromResult hf.result with
  | none => none
  | some bdh =>
  if !bytesEqual bdh (env.digestHash bd) then none else
  if !bytesEqual hf.nsFilter (env.digestFilter bd) then none else
  match env.proposerFromBytes hf.proposer with
  | none => none
  | some proposer =>
    some { height := hf.height, timestamp := hf.timestamp, proposer := proposer, prevID := hf.prevID,
           logsBloom := env.bloomCanon hf.logsBloom, result := hf.result,
           patchTxs := patches, normalTxs := normals,
           nextValidatorsHash := hf.nextValidatorsHash, votes := votes,
           nsFilter := filterCanon hf.nsFilter, digest := bd }

/-- `blockV2Handler.NewBlockDataFromReader` -/
def newBlockData {Tx V D : Type} (env : Env Tx V D) (input : Bytes) : Option (Block Tx V D) :=
  match decodeHeader input with
  | none => none
  | some (hf, r1) =>
    match decodeBody r1 with
    | none => none
    | some (bf, _) => checkFormats env hf bf

/-- `blockDataFactory.NewBlockDataFromReader` with the default handler list (version 2 only):
    `PeekVersion` reads the first field of the first list; the v2 handler is chosen iff it is 2. -/
def factoryDecode {Tx V D : Type} (env : Env Tx V D) (input : Bytes) : Option (Block Tx V D) :=
  match decodeHeader input with
  | none => none
  | some (hf, _) => if hf.version = 2 then newBlockData env input else none

/-- `blockDataFactory.NewBlockDataFromReader` on a stream: the decoded block and the bytes that
    remain in the reader (the decoder consumes exactly the header item and the body item). -/
def factoryDecodeRest {Tx V D : Type} (env : Env Tx V D) (input : Bytes) : Option (Block Tx V D × Bytes) :=
  match decodeHeader input with
  | none => none
  | some (hf, r1) =>
    if hf.version ≠ 2 then none else
    match decodeBody r1 with
    | none => none
    | some (bf, r2) =>
      match checkFormats env hf bf with
      | none => none
      | some blk => some (blk, r2)

/-- `blockV2._headerFormat` -/
def headerOf {Tx V D : Type} (env : Env Tx V D) (b : Block Tx V D) : Header :=
  { version := 2, height := b.height, timestamp := b.timestamp, proposer := b.proposer,
    prevID := b.prevID, votesHash := env.votesHash b.votes,
    nextValidatorsHash := b.nextValidatorsHash,
    patchTxHash := env.txListHash b.patchTxs, normalTxHash := env.txListHash b.normalTxs,
    logsBloom := b.logsBloom, result := b.result, nsFilter := b.nsFilter }

/-- `bssFromTransactionList`: `var res [][]byte` stays nil for an empty list -/
def bssOf {Tx V D : Type} (env : Env Tx V D) (txs : List Tx) : Option (List OBytes) :=
  match txs with
  | [] => none
  | _ => some (txs.map (fun t => some (env.txBytes t)))

/-- `blockV2._bodyFormat` -/
def bodyOf {Tx V D : Type} (env : Env Tx V D) (b : Block Tx V D) : Body :=
  { patchTxs := bssOf env b.patchTxs, normalTxs := bssOf env b.normalTxs,
    votes := env.votesBytes b.votes, btpDigest := env.digestBytes b.digest }

/-- `blockV2.Marshal` -/
def marshal {Tx V D : Type} (env : Env Tx V D) (b : Block Tx V D) : Bytes :=
  encodeHeader (headerOf env b) ++ encodeBody (bodyOf env b)

/-- `blockV2.ID` -/
def blockID {Tx V D : Type} (env : Env Tx V D) (b : Block Tx V D) : Bytes :=
  env.hash (encodeHeader (headerOf env b))

end Goloop.C08
