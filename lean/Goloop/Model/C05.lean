/-
  Model/C05: `consensus/commitvotelist.go` — `blockCommitVoteList.VerifyBlock`
  and `enoughVote`, transcribed branch by branch.

  Signature recovery is abstract: `signerOf item` is
  `validators.IndexOf(address recovered from item.Signature over the precommit
  (height, round, block id, part-set id + app data, item.Timestamp))`,
  `none` when `IndexOf` returns -1 (no public key recovered, or the address is
  not in the list).  `IndexOf` only returns indices below `validators.Len()`;
  an index ≥ n would make Go panic on `vset[index]` and is modelled as `panic`.
-/
import Goloop.Base.Bytes
namespace Goloop.C05

inductive Res where
  | okNil                      -- `return nil, nil`
  | ok (voted : List Bool)     -- `return vset, nil`
  | reject                     -- `return nil, err`
  | panic
deriving DecidableEq, Repr

/-- `enoughVote(voted, voters)` -/
def enoughVote (voted voters : Nat) : Bool :=
  if voters = 0 then true else voted > voters * 2 / 3

/-- the `for i, item := range bvl.Items` loop; `vset` is the bitmap so far. -/
def loop {Item : Type} (signerOf : Item → Option Nat) : List Item → List Bool → Option (Option (List Bool))
  | [], vset => some (some vset)
  | it :: rest, vset =>
    match signerOf it with
    | none => some none                         -- "bad voter"
    | some idx =>
      match vset[idx]? with
      | none => none                            -- index out of range: panic
      | some true => some none                  -- "duplicated validator"
      | some false => loop signerOf rest (vset.set idx true)

/-- `VerifyBlock(block, validators)`; `bootstrap` = `block.Height() == 0 || validators == nil`,
    `n` = `validators.Len()`. -/
def verifyBlock {Item : Type} (signerOf : Item → Option Nat) (bootstrap : Bool) (n : Nat)
    (items : List Item) : Res :=
  if bootstrap then
    if items.length = 0 then Res.okNil else Res.reject
  else
    match loop signerOf items (List.replicate n false) with
    | none => Res.panic
    | some none => Res.reject
    | some (some vset) =>
      if enoughVote items.length n then Res.ok vset else Res.reject

end Goloop.C05
