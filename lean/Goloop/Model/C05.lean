/-
  Model/C05: `consensus/commitvotelist.go` — `blockCommitVoteList.VerifyBlock`
  and `enoughVote`, transcribed branch by branch.

  Signature recovery is abstract: `signerOf item` is
  `validators.IndexOf(address recovered from item.Signature over the precommit
  (height, round, block id, part-set id + app data, item.Timestamp))`,
  `none` when `IndexOf` returns -1 (no public key recovered, or the address is
  not in the list).  `IndexOf` only returns indices below `validators.Len()`;
  an index ≥ n would make Go panic on `vset[index]` and is modelled as `panic`.
-/
import Goloop.Base.Bytes
import Goloop.Model.C04
namespace Goloop.C05

inductive Res where
  | okNil                      -- `return nil, nil`
  | ok (voted : List Bool)     -- `return vset, nil`
  | reject                     -- `return nil, err`
  | panic
deriving DecidableEq, Repr

/-- `enoughVote(voted, voters)` -/
def enoughVote (voted voters : Nat) : Bool :=
  if voters = 0 then true else voted > voters * 2 / 3

/-- the `for i, item := range bvl.Items` loop; `vset` is the bitmap so far. -/
def loop {Item : Type} (signerOf : Item → Option Nat) : List Item → List Bool → Option (Option (List Bool))
  | [], vset => some (some vset)
  | it :: rest, vset =>
    match signerOf it with
    | none => some none                         -- "bad voter"
    | some idx =>
      match vset[idx]? with
      | none => none                            -- index out of range: panic
      | some true => some none                  -- "duplicated validator"
      | some false => loop signerOf rest (vset.set idx true)

/-- `VerifyBlock(block, validators)`; `bootstrap` = `block.Height() == 0 || validators == nil`,
    `n` = `validators.Len()`. -/
def verifyBlock {Item : Type} (signerOf : Item → Option Nat) (bootstrap : Bool) (n : Nat)
    (items : List Item) : Res :=
  if bootstrap then
    if items.length = 0 then Res.okNil else Res.reject
  else
    match loop signerOf items (List.replicate n false) with
    | none => Res.panic
    | some none => Res.reject
    | some (some vset) =>
      if enoughVote items.length n then Res.ok vset else Res.reject

/-! ### `consensus.processBlock` (fast-synced block): the vote handling

`processBlock` does not call `VerifyBlock`.  It converts the commit vote list with
`toVoteListWithBlock` (every item must recover to a validator, else reject), adds every vote to
the height vote set at the signer's validator index (`cs.hvs.add(index, m)`: the precommit vote
set of the list's round, the `voteSet` of Model/C04, which may already hold votes received from
the network), and accepts only if that vote set reports a +2/3 decision whose part-set id equals
the part-set id of the received block.  `psOf d` = the part-set id fixed by decision digest `d`. -/

/-- the acceptance decision after `toVoteList` succeeded; `adds` = (validator index, vote) per item. -/
def processBlockAccepts (s : C04.VS) (adds : List (Nat × C04.Vote)) (psOf : Nat → Nat) (blockPs : Nat) : Bool :=
  match C04.decision (C04.addAll s adds) with
  | C04.Dec.decided d => psOf d == blockPs
  | _ => false

inductive PB where
  | accept
  | rejectToVoteList     -- toVoteList: "not a validator" / bad signature
  | rejectNoQuorum       -- "no +2/3 precommits made for block"
  | rejectPartSet        -- "invalid blockBPSID"
  | panic
deriving DecidableEq, Repr

/-- `processBlock` from the decoded commit vote list on: `signerOf` as for `verifyBlock`,
    `voteOf it` = the precommit reconstructed from the item (height, list round, list decision,
    item timestamp). -/
def processBlock {Item : Type} (signerOf : Item → Option Nat) (voteOf : Item → C04.Vote)
    (s : C04.VS) (items : List Item) (psOf : Nat → Nat) (blockPs : Nat) : PB :=
  if items.any (fun it => (signerOf it).isNone) then PB.rejectToVoteList
  else
    let adds := items.filterMap (fun it => (signerOf it).map (fun i => (i, voteOf it)))
    match C04.decision (C04.addAll s adds) with
    | C04.Dec.decided d => if psOf d == blockPs then PB.accept else PB.rejectPartSet
    | C04.Dec.no => PB.rejectNoQuorum
    | C04.Dec.panic => PB.panic

/-! ### which validators and which target: `block/block.go verifyProofForLastBlock`

`verifyNewBlock(b, prev)` → `verifyProofForLastBlock(prev, b.Votes())`:
`validators := prev.GetVoters()` = `NextValidators` of the block at height `prev.Height() − 1`
(`blockV2.GetVoters`; nil for the genesis block), then `votes.VerifyBlock(prev, validators)`,
i.e. the precommits must be over (`prev.Height()`, the list's round, `prev.ID()`).
A signature is described by who made it and what exactly it signs. -/

structure Sig where
  key : Nat        -- the signing key
  height : Nat     -- signed height
  blockId : Nat    -- signed block id
  round : Nat      -- signed round
deriving DecidableEq, Repr

/-- recovery of an item against a validator list and a target: a signature over anything else
    recovers to some other address (unforgeability), which is not in the list. -/
def signerIn (vals : List Nat) (tHeight tBlock tRound : Nat) (s : Sig) : Option Nat :=
  if s.height = tHeight ∧ s.blockId = tBlock ∧ s.round = tRound then vals.findIdx? (· == s.key) else none

/-- `verifyProofForLastBlock(prev, votes)` for `prev` at height `h`:
    `nextVals k` = `NextValidators` of the block at height `k`, `blockIdAt k` its id. -/
def verifyProofForLast (nextVals : Nat → List Nat) (blockIdAt : Nat → Nat) (h round : Nat)
    (items : List Sig) : Res :=
  verifyBlock (signerIn (nextVals (h - 1)) h (blockIdAt h) round) (h == 0)
    (nextVals (h - 1)).length items

/-! ### validator sets are values: `service/state/validatorlist.go`

A `ValidatorSnapshot` is an immutable list of validators; a `ValidatorState` derived from it
(`ValidatorStateFromSnapshot`) copies the list before its first change (`becomeChangeableInLock`
→ `clone`).  `Replace`, `SetAt`, `Add`, `Remove` as coded, on the list of keys; `none` = error. -/

/-- `validatorState.Replace(ov, nv)` -/
def vsReplace (l : List Nat) (o n : Nat) : Option (List Nat) :=
  match l.findIdx? (· == o) with
  | none => none                                   -- "ValidatorNotFound"
  | some i =>
    if o = n then some l
    else if (l.findIdx? (· == n)).isSome then none -- "ValidatorInUse"
    else some (l.set i n)

/-- `validatorState.SetAt(i, v)` -/
def vsSetAt (l : List Nat) (i n : Nat) : Option (List Nat) :=
  match l[i]? with
  | none => none                                   -- "IndexOutOfRange"
  | some o =>
    if o = n then some l
    else if (l.findIdx? (· == n)).isSome then none
    else some (l.set i n)

/-- `validatorState.Add(v)`: no-op when present -/
def vsAdd (l : List Nat) (n : Nat) : List Nat :=
  if (l.findIdx? (· == n)).isSome then l else l ++ [n]

/-- `validatorState.Remove(v)`: the list and whether something was removed -/
def vsRemove (l : List Nat) (n : Nat) : List Nat × Bool :=
  match l.findIdx? (· == n) with
  | none => (l, false)
  | some i => (l.eraseIdx i, true)

/-- `VerifyBlock` of a list of precommits by `keys` (all over the right target) against the
    validator list value `vals`. -/
def verifyAgainst (vals : List Nat) (keys : List Nat) : Res :=
  verifyBlock (signerIn vals 0 0 0) false vals.length (keys.map (fun k => ({ key := k, height := 0, blockId := 0, round := 0 } : Sig)))

end Goloop.C05
