/-
  Model/C35: the IISS-4 reward calculation of icon/iiss/calculator
  (iiss4.go `iiss4Reward.Calculate`, prep.go `PRep`/`PRepInfo`, voter.go
  `Voter`/`VoteEvents`) on mathematical integers (`*big.Int` → `Int`).

  Go maps keyed by address become association lists keyed by a `Nat` owner id
  (addresses in the correspondence run are `hx` + 20-byte big-endian id, so
  `bytes.Compare` on owners is `<` on ids).  `big.Int.Div` is Euclidean
  division (= Lean `/` on `Int`), `big.Int.Quo` truncates (`Int.tdiv`).
  A division by zero panics in Go; the pure functions below are total
  (`x / 0 = 0`) and `wouldPanic` says separately when the Go code divides by 0.

  `PRepInfo.rank` (a slice of pointers into the map, filled by `Sort`) is
  modelled by the flag `ranked` + the field `rank` on the entries: P-Reps added
  to the map after `Sort` (by `SetStatus`/`ApplyVote`) are not in the slice and
  keep the zero value `rank = 0` — exactly as in the Go struct.
-/
namespace Goloop.C35

abbrev Votes := List (Nat × Int)

def esEnable : Nat := 0
def esDisableTemp : Nat := 1
def esDisablePermanent : Nat := 2
def esJail : Nat := 3
def esUnjail : Nat := 4
def esEnableAtNextTerm : Nat := 5

def denom : Int := 10000
def monthBlock : Int := 1296000
def iscoreICXRatio : Int := 1000

structure PRep where
  owner : Nat
  status : Nat
  delegated : Int
  bonded : Int
  rate : Int
  pubkey : Bool
  power : Int := 0
  rank : Nat := 0
  ranked : Bool := false
  accVoted : Int := 0
  accPower : Int := 0
  commission : Int := 0
  voterReward : Int := 0
  wage : Int := 0
  deriving Repr, Inhabited

/-- icutils.CalcPower -/
def calcPower (br bonded voted : Int) : Int :=
  if br = 0 then voted else min (bonded * denom / br) voted

def PRep.votedValue (p : PRep) : Int := p.delegated + p.bonded
def PRep.isElectable (p : PRep) : Bool := p.pubkey && (p.status == esEnable || p.status == esUnjail)
def PRep.isRewardable (p : PRep) (elected : Nat) : Bool :=
  p.status == esEnable && decide (p.rank < elected) && decide (0 < p.accPower)
def PRep.getReward (p : PRep) : Int := p.commission + p.wage

/-- PRep.Bigger -/
def bigger (p p1 : PRep) : Bool :=
  if p.isElectable != p1.isElectable then p.isElectable
  else if p.power ≠ p1.power then decide (p.power > p1.power)
  else if p.delegated ≠ p1.delegated then decide (p.delegated > p1.delegated)
  else decide (p.owner > p1.owner)

/-- PRep.ApplyVote -/
def PRep.applyVote (p : PRep) (isBond : Bool) (amount : Int) (period : Int) (br : Int) : PRep :=
  let p1 := if isBond then { p with bonded := p.bonded + amount } else { p with delegated := p.delegated + amount }
  let p2 := { p1 with accVoted := p1.accVoted + amount * period }
  let power := calcPower br p2.bonded p2.votedValue
  if p2.power ≠ power then
    { p2 with power := power, accPower := p2.accPower + (power - p2.power) * period }
  else p2

/-- PRep.CalculateReward -/
def PRep.calculateReward (p : PRep) (totalPRepReward totalAccumulatedPower minBond minWage : Int) : PRep :=
  let prepReward := totalPRepReward * p.accPower / totalAccumulatedPower
  let commission := (prepReward * p.rate).tdiv denom
  { p with commission := commission, voterReward := prepReward - commission,
           wage := if p.bonded ≥ minBond then minWage else p.wage }

structure PRepInfo where
  preps : List PRep := []
  totalAccumulatedPower : Int := 0
  elected : Nat
  br : Int
  offsetLimit : Nat
  deriving Repr

def PRepInfo.termPeriod (pi : PRepInfo) : Int := (pi.offsetLimit : Int) + 1

def getPRep (ps : List PRep) (k : Nat) : Option PRep := ps.find? (fun p => p.owner == k)

/-- `p.preps[key] = prep`: replace the entry of that owner or add one -/
def setPRep : List PRep → PRep → List PRep
  | [], q => [q]
  | p :: ps, q => if p.owner == q.owner then q :: ps else p :: setPRep ps q

def newPRep (br : Int) (owner status : Nat) (delegated bonded rate : Int) (pubkey : Bool) : PRep :=
  { owner, status, delegated, bonded, rate, pubkey, power := calcPower br bonded (delegated + bonded) }

/-- PRepInfo.Add -/
def PRepInfo.add (pi : PRepInfo) (owner status : Nat) (delegated bonded rate : Int) (pubkey : Bool) : PRepInfo :=
  { pi with preps := setPRep pi.preps (newPRep pi.br owner status delegated bonded rate pubkey) }

/-- PRepInfo.SetStatus -/
def PRepInfo.setStatus (pi : PRepInfo) (target status : Nat) : PRepInfo :=
  match getPRep pi.preps target with
  | some p => { pi with preps := setPRep pi.preps { p with status := status } }
  | none => pi.add target status 0 0 0 false

def insertSorted (p : PRep) : List PRep → List PRep
  | [] => [p]
  | q :: qs => if bigger p q then p :: q :: qs else q :: insertSorted p qs

def sortPReps (l : List PRep) : List PRep := l.foldr insertSorted []

def assignRanks : Nat → List PRep → List PRep
  | _, [] => []
  | i, p :: ps => { p with rank := i, ranked := true } :: assignRanks (i + 1) ps

/-- PRepInfo.Sort -/
def PRepInfo.sort (pi : PRepInfo) : PRepInfo := { pi with preps := assignRanks 0 (sortPReps pi.preps) }

def PRep.inElected (p : PRep) (elected : Nat) : Bool := p.ranked && decide (p.rank < elected)

/-- PRepInfo.InitAccumulated -/
def PRepInfo.initAccumulated (pi : PRepInfo) : PRepInfo :=
  { pi with preps := pi.preps.map (fun p =>
      if p.inElected pi.elected then
        { p with accVoted := p.votedValue * pi.termPeriod, accPower := p.power * pi.termPeriod }
      else p) }

/-- one vote of PRepInfo.ApplyVote -/
def PRepInfo.applyVote1 (pi : PRepInfo) (isBond : Bool) (offset : Int) (vote : Nat × Int) : PRepInfo :=
  let pi1 := match getPRep pi.preps vote.1 with
    | some _ => pi
    | none => pi.add vote.1 esDisablePermanent 0 0 0 false
  match getPRep pi1.preps vote.1 with
  | some p => { pi1 with preps := setPRep pi1.preps (p.applyVote isBond vote.2 ((pi.offsetLimit : Int) - offset) pi.br) }
  | none => pi1

/-- PRepInfo.ApplyVote -/
def PRepInfo.applyVote (pi : PRepInfo) (isBond : Bool) (votes : Votes) (offset : Int) : PRepInfo :=
  votes.foldl (fun pi v => pi.applyVote1 isBond offset v) pi

def sumInt (l : List Int) : Int := l.foldr (· + ·) 0

/-- PRepInfo.UpdateTotalAccumulatedPower -/
def PRepInfo.updateTotalAccumulatedPower (pi : PRepInfo) : PRepInfo :=
  { pi with totalAccumulatedPower :=
      sumInt ((pi.preps.filter (fun p => p.inElected pi.elected)).map (·.accPower)) }

def fundToPeriodIScore (reward period : Int) : Int := reward * (period * iscoreICXRatio) / monthBlock

def PRepInfo.isPaid (pi : PRepInfo) (p : PRep) : Bool := p.inElected pi.elected && p.isRewardable pi.elected

/-- PRepInfo.CalculateReward -/
def PRepInfo.calculateReward (pi : PRepInfo) (totalReward totalMinWage minBond : Int) : PRepInfo :=
  if pi.elected = 0 then pi else
  let tReward := fundToPeriodIScore totalReward pi.termPeriod
  let minWage := fundToPeriodIScore totalMinWage pi.termPeriod
  let minWagePerPRep := minWage / (pi.elected : Int)
  { pi with preps := pi.preps.map (fun p =>
      if pi.isPaid p then p.calculateReward tReward pi.totalAccumulatedPower minBond minWagePerPRep else p) }

/-! ### voters -/

/-- Voter.applyVoting -/
def avAdd : Votes → Nat → Int → Votes
  | [], k, amount => [(k, amount)]
  | e :: rest, k, amount => if e.1 == k then (e.1, e.2 + amount) :: rest else e :: avAdd rest k amount

/-- Voter.ApplyVoting / Voter.ApplyEvent: every vote scaled by `period`. -/
def avApply (av : Votes) (votes : Votes) (period : Int) : Votes :=
  votes.foldl (fun av v => avAdd av v.1 (v.2 * period)) av

/-- one term of Voter.CalculateReward -/
def voterShare (pi : PRepInfo) (e : Nat × Int) : Int :=
  match getPRep pi.preps e.1 with
  | some p => if p.isRewardable pi.elected then e.2 * p.voterReward / p.accVoted else 0
  | none => 0

/-- Voter.CalculateReward -/
def voterCalc (pi : PRepInfo) (av : Votes) : Int := sumInt (av.map (voterShare pi))

inductive Event where
  | enable (offset : Nat) (target : Nat) (status : Nat)
  | vote (isBond : Bool) (offset : Nat) (frm : Nat) (votes : Votes)
  deriving Repr

structure Input where
  elected : Nat := 0
  offsetLimit : Nat := 0
  br : Int := 0
  iglobal : Int := 0
  iprepRate : Int := 0
  iwageRate : Int := 0
  minBond : Int := 0
  voteds : List PRep := []           -- the Voted records of the base reward state
  delegating : List (Nat × Votes) := []
  bonding : List (Nat × Votes) := []
  events : List Event := []
  deriving Repr

/-- Rate.MulBigInt (Quo) -/
def rateMul (rate v : Int) : Int := (v * rate).tdiv denom

def Input.iprepFund (i : Input) : Int := rateMul i.iprepRate i.iglobal
def Input.iwageFund (i : Input) : Int := rateMul i.iwageRate i.iglobal

/-- Voted.IsEmpty (V2): such a record is deleted by SetVoted and never loaded -/
def votedIsEmpty (p : PRep) : Bool :=
  p.status != esEnable && p.delegated == 0 && p.bonded == 0 && p.rate == 0

/-- iiss4Reward.loadPRepInfo -/
def loadPRepInfo (i : Input) : PRepInfo :=
  let pi0 : PRepInfo := { elected := i.elected, br := i.br, offsetLimit := i.offsetLimit }
  let pi1 := (i.voteds.filter (fun p => !votedIsEmpty p)).foldl
    (fun pi p => pi.add p.owner p.status p.delegated p.bonded p.rate p.pubkey) pi0
  pi1.sort.initAccumulated

/-- the PRepInfo part of iiss4Reward.processEvents -/
def applyEvent (pi : PRepInfo) : Event → PRepInfo
  | .enable _ target status => pi.setStatus target status
  | .vote isBond offset _ votes => pi.applyVote isBond votes offset

def processEvents (pi : PRepInfo) (evs : List Event) : PRepInfo :=
  (evs.foldl applyEvent pi).updateTotalAccumulatedPower

def lookupVotes (m : List (Nat × Votes)) (k : Nat) : Votes :=
  match m.find? (fun e => e.1 == k) with
  | some e => e.2
  | none => []

/-- Delegating.ApplyVotes / Bonding.ApplyVotes; `none` = error -/
def applyVotesGo : Votes → Votes → Votes → Option Votes
  | _, [], acc => some acc
  | cur, vote :: rest, acc =>
    match (cur.reverse.find? (fun e => e.1 == vote.1)) with
    | some dg =>
      let value := dg.2 + vote.2
      if value < 0 then none
      else if value = 0 then applyVotesGo cur rest acc
      else applyVotesGo cur rest (acc ++ [(dg.1, value)])
    | none =>
      if vote.2 < 0 then none
      else if vote.2 = 0 then applyVotesGo cur rest acc
      else applyVotesGo cur rest (acc ++ [vote])

def applyVotes (cur deltas : Votes) : Option Votes :=
  applyVotesGo cur deltas (cur.filter (fun e => !(deltas.any (fun d => d.1 == e.1))))

/-- the events of one voter, in order -/
def eventsOf (evs : List Event) (who : Nat) : List (Bool × Nat × Votes) :=
  evs.filterMap (fun e => match e with
    | .vote b o f vs => if f == who then some (b, o, vs) else none
    | _ => none)

def eventSenders (evs : List Event) : List Nat :=
  (evs.filterMap (fun e => match e with | .vote _ _ f _ => some f | _ => none)).eraseDups

/-- VoteEvents.UpdateVoting for one voter: true = ok -/
def updateVotingOk (i : Input) (who : Nat) : Bool :=
  let step := fun (st : Option (Votes × Votes)) (e : Bool × Nat × Votes) =>
    match st with
    | none => none
    | some (d, b) =>
      if e.1 then (applyVotes b e.2.2).map (fun b' => (d, b'))
      else (applyVotes d e.2.2).map (fun d' => (d', b))
  ((eventsOf i.events who).foldl step (some (lookupVotes i.delegating who, lookupVotes i.bonding who))).isSome

/-- accumulated votes of one voter as built by processVoterReward -/
def voterAV (i : Input) (who : Nat) : Votes :=
  let period : Int := (i.offsetLimit : Int) + 1
  let av0 := avApply [] (lookupVotes i.delegating who) period
  let av1 := avApply av0 (lookupVotes i.bonding who) period
  (eventsOf i.events who).foldl (fun av e => avApply av e.2.2 ((i.offsetLimit : Int) - (e.2.1 : Int))) av1

/-- the voters processVoterReward visits, each exactly once -/
def voterSet (i : Input) : List Nat :=
  let ds := (i.delegating.filter (fun e => !e.2.isEmpty)).map (·.1)
  let bs := ((i.bonding.filter (fun e => !e.2.isEmpty)).map (·.1)).filter (fun k => !ds.contains k)
  let es := (eventSenders i.events).filter (fun k => !ds.contains k && !bs.contains k)
  ds ++ bs ++ es

structure Result where
  pi : PRepInfo
  prepCredits : List (Nat × Int)
  voterCredits : List (Nat × Int)
  deriving Repr

def prepInfoAfterEvents (i : Input) : PRepInfo := processEvents (loadPRepInfo i) i.events

def finalPRepInfo (i : Input) : PRepInfo :=
  (prepInfoAfterEvents i).calculateReward i.iprepFund i.iwageFund i.minBond

/-- iiss4Reward.Calculate (without claims / BTP / commission-rate records); `none` = error return -/
def calculate (i : Input) : Option Result :=
  let pi := prepInfoAfterEvents i
  if !(eventSenders i.events).all (updateVotingOk i) then none
  else if i.elected = 0 then some { pi := pi, prepCredits := [], voterCredits := [] }
  else
    let pi2 := finalPRepInfo i
    some { pi := pi2,
           prepCredits := pi2.preps.map (fun p => (p.owner, p.getReward)),
           voterCredits := (voterSet i).map (fun v => (v, voterCalc pi2 (voterAV i v))) }

/-- does the Go code divide by zero? -/
def wouldPanic (i : Input) : Bool :=
  let pi := prepInfoAfterEvents i
  if i.elected = 0 then false else
  let pi2 := finalPRepInfo i
  (pi.preps.any (fun p => pi.isPaid p) && pi.totalAccumulatedPower == 0) ||
  (voterSet i).any (fun v => (voterAV i v).any (fun e =>
    match getPRep pi2.preps e.1 with
    | some p => p.isRewardable pi2.elected && p.accVoted == 0
    | none => false))

def Result.totalCredited (r : Result) : Int :=
  sumInt (r.prepCredits.map (·.2)) + sumInt (r.voterCredits.map (·.2))

def Result.iscoreOf (r : Result) (k : Nat) : Int :=
  sumInt ((r.prepCredits.filter (fun e => e.1 == k)).map (·.2)) +
  sumInt ((r.voterCredits.filter (fun e => e.1 == k)).map (·.2))

/-- the budget of the term: what PRepInfo.CalculateReward derives from the reward fund -/
def Input.budget (i : Input) : Int :=
  fundToPeriodIScore i.iprepFund ((i.offsetLimit : Int) + 1) + fundToPeriodIScore i.iwageFund ((i.offsetLimit : Int) + 1)

end Goloop.C35
