/-
  Model/C14: service/state/worldstate.go + account.go reduced to
  balance + contract code + object graph + storage per account.

  * `Snap`   = accountSnapshotImpl (immutable). `stamp` models POINTER IDENTITY:
               the Go code compares snapshot pointers in
               `flushAccountCacheInLock` (`ass == s`) and in
               `accountStateImpl.Reset` (`s.last == snapshot`).
  * `AState` = accountStateImpl (mutable): balance, store (`none` = Go nil; a
               state may hold a non-nil but empty store), `last` cache.
  * `World`  = worldStateImpl: the account object trie as an abstract finite
               map (its canonicity is property C17, a hypothesis of the hash
               theorem), `mutableAccounts`, `lastAccounts` (absent and
               nil-valued entries behave the same in the code: `ass, _ :=
               ws.lastAccounts[ids]`), and the allocation counter for stamps.
  * `WSnap`  = worldSnapshotImpl: the immutable account map.

  The Go loops `for ids, as := range ws.mutableAccounts` touch, for every
  entry, only the trie key / lastAccounts entry of that same account, so they
  are modelled pointwise (which also makes the independence from Go's random
  map iteration order explicit).  Snapshots of different accounts are never
  compared by pointer, so one fresh stamp value per world operation suffices.
-/
namespace Goloop.C14

/-- storage content: association list key → non-empty value -/
abbrev KV := List (Nat × Nat)

def kvGet (l : KV) (k : Nat) : Option Nat := l.lookup k
def kvDel (l : KV) (k : Nat) : KV := l.filter (fun p => p.1 != k)
def kvSet (l : KV) (k v : Nat) : KV := (k, v) :: kvDel l k

/-- object graph of one contract code: (nextHash, graph data); `objectGraph.Changed`
    with hasData = true: the result does not depend on the old graph, and (0, empty) is nil -/
abbrev Graph := Nat × Nat
def graphChanged (nh g : Nat) : Option Graph := if nh = 0 ∧ g = 0 then none else some (nh, g)

/-- objectGraphCache: code id → graph (an absent entry and a nil entry read the same) -/
abbrev OgCache := List (Nat × Graph)
def ogGet (c : OgCache) (id : Nat) : Option Graph := c.lookup id
def ogSet (c : OgCache) (id : Nat) (g : Option Graph) : OgCache :=
  match g with
  | some g => (id, g) :: c.filter (fun p => p.1 != id)
  | none => c.filter (fun p => p.1 != id)

/-- everything of accountData except the storage: balance, the contract part
    (isContract / curContract, reduced to the code id of the current contract;
    `none` = not a contract account) and the object graph cache.  Snapshots copy
    it (`objCache.Clone()`), Reset copies it back, Clear zeroes it. -/
structure Hdr where
  bal : Int
  isContract : Bool
  cur : Option Nat              -- curContract: code id of the accepted, active contract
  next : Option (Nat × Bool)    -- nextContract: (code id, rejected?) — pending or rejected deployment
  og : OgCache
deriving DecidableEq, Repr

def Hdr.zero : Hdr := ⟨0, false, none, none, []⟩

/-- accountSnapshotImpl -/
structure Snap where
  stamp : Nat
  hdr : Hdr
  store : Option KV
deriving DecidableEq, Repr

/-- accountData.IsEmpty on a snapshot (state = 0 in this reduction) -/
def Snap.isEmpty (s : Snap) : Bool := s.hdr.bal == 0 && !s.hdr.isContract && s.store.isNone

/-- accountStateImpl -/
structure AState where
  hdr : Hdr
  store : Option KV
  last : Option Snap
deriving Repr

/-- newAccountState(db, nil, ..) -/
def AState.fresh : AState := ⟨Hdr.zero, none, none⟩

/-- accountStateImpl.Clear -/
def AState.clear (_ : AState) : AState := ⟨Hdr.zero, none, none⟩

/-- accountStateImpl.Reset(snapshot) -/
def AState.reset (st : AState) (s : Snap) : AState :=
  let full : AState := ⟨s.hdr, s.store, some s⟩
  match st.last with
  | some l => if l.stamp = s.stamp then st else full
  | none => full

/-- newAccountState(db, snapshot, ..) -/
def AState.ofSnap : Option Snap → AState
  | some s => AState.fresh.reset s
  | none => AState.fresh

/-- accountStateImpl.SetBalance -/
def AState.setBalance (st : AState) (v : Int) : AState :=
  if st.hdr.bal ≠ v then { st with hdr := { st.hdr with bal := v }, last := none } else st

/-- accountStateImpl.DeleteValue; returns the old value (0 = nil) -/
def AState.deleteValue (st : AState) (k : Nat) : AState × Nat :=
  match st.store with
  | none => (st, 0)
  | some l =>
    match kvGet l k with
    | some old => ({ st with store := some (kvDel l k), last := none }, old)
    | none => (st, 0)

/-- accountStateImpl.SetValue; `v = 0` stands for the empty byte string -/
def AState.setValue (st : AState) (k v : Nat) : AState × Nat :=
  if v = 0 then st.deleteValue k
  else
    let l := st.store.getD []
    ({ st with store := some (kvSet l k v), last := none }, (kvGet l k).getD 0)

/-- accountStateImpl.InitContractAccount (returns false and changes nothing if already a contract) -/
def AState.initContract (st : AState) : AState :=
  if st.hdr.isContract then st
  else { st with hdr := { st.hdr with isContract := true }, last := none }

/-- accountStateImpl.DeployContract with deploy tx / code `c`: the next contract becomes
    (c, pending); no-op on a non-contract account. (`nextContract.Status() == CSActive`
    cannot occur: ActivateNextContract is not part of this reduction.) -/
def AState.deployContract (st : AState) (c : Nat) : AState :=
  if !st.hdr.isContract then st
  else { st with hdr := { st.hdr with next := some (c, false) }, last := none }

/-- accountStateImpl.AcceptContract(txHash of c): `false` = one of the error returns -/
def AState.acceptContract (st : AState) (c : Nat) : AState × Bool :=
  match st.hdr.isContract, st.hdr.next with
  | true, some (c', rejected) =>
    if c' ≠ c then (st, false)          -- NoMatchedDeployTxHash
    else if rejected then (st, false)   -- AlreadyRejected
    else ({ st with hdr := { st.hdr with cur := some c, next := none }, last := none }, true)
  | _, _ => (st, false)                 -- NoAvailableContract

/-- accountStateImpl.RejectContract(txHash of c) -/
def AState.rejectContract (st : AState) (c : Nat) : AState × Bool :=
  match st.hdr.isContract, st.hdr.next with
  | true, some (c', rejected) =>
    if c' ≠ c then (st, false)
    else if rejected then (st, false)   -- NotPendingContract
    else ({ st with hdr := { st.hdr with next := some (c, true) }, last := none }, true)
  | _, _ => (st, false)

/-- InitContractAccount + DeployContract(c) + AcceptContract(c) in one go -/
def AState.deploy (st : AState) (c : Nat) : AState :=
  ((st.initContract.deployContract c).acceptContract c).1

/-- accountStateImpl.SetObjGraph(curContract.CodeID(), true, nh, g); only issued for contract accounts -/
def AState.setObjGraph (st : AState) (nh g : Nat) : AState :=
  match st.hdr.cur with
  | none => st
  | some c => { st with hdr := { st.hdr with og := ogSet st.hdr.og c (graphChanged nh g) }, last := none }

/-- GetObjGraph(curContract.CodeID(), true) -/
def Hdr.graph (h : Hdr) : Option Graph := h.cur.bind (ogGet h.og)

/-- `store.Empty()` normalisation in accountStateImpl.GetSnapshot -/
def normStore : Option KV → Option KV
  | some [] => none
  | x => x

/-- accountStateImpl.GetSnapshot with the stamp a fresh object would get -/
def AState.getSnapshot (st : AState) (next : Nat) : AState × Snap :=
  match st.last with
  | some s => (st, s)
  | none =>
    let s : Snap := ⟨next, st.hdr, normStore st.store⟩
    ({ st with last := some s }, s)

def upd {α : Type} (f : Nat → α) (a : Nat) (v : α) : Nat → α := fun x => if x = a then v else f x

abbrev WSnap := Nat → Option Snap

structure World where
  trie : Nat → Option Snap
  macc : Nat → Option AState
  lastAcc : Nat → Option Snap
  next : Nat

def World.init : World := ⟨fun _ => none, fun _ => none, fun _ => none, 0⟩

/-- worldStateImpl.GetAccountState -/
def World.getAccountState (w : World) (a : Nat) : World × AState :=
  match w.macc a with
  | some st => (w, st)
  | none =>
    let as := w.trie a
    let st := AState.ofSnap as
    ({ w with macc := upd w.macc a (some st), lastAcc := upd w.lastAcc a as }, st)

def World.putState (w : World) (a : Nat) (st : AState) : World := { w with macc := upd w.macc a (some st) }

def World.setBalance (w : World) (a : Nat) (v : Int) : World :=
  let (w1, st) := w.getAccountState a
  w1.putState a (st.setBalance v)

def World.setValue (w : World) (a k v : Nat) : World × Nat :=
  let (w1, st) := w.getAccountState a
  let (st', old) := st.setValue k v
  (w1.putState a st', old)

def World.deploy (w : World) (a c : Nat) : World :=
  let (w1, st) := w.getAccountState a
  w1.putState a (st.deploy c)

def World.initContract (w : World) (a : Nat) : World :=
  let (w1, st) := w.getAccountState a
  w1.putState a st.initContract

def World.deployContract (w : World) (a c : Nat) : World :=
  let (w1, st) := w.getAccountState a
  w1.putState a (st.deployContract c)

def World.acceptContract (w : World) (a c : Nat) : World × Bool :=
  let (w1, st) := w.getAccountState a
  let (st', ok) := st.acceptContract c
  (w1.putState a st', ok)

def World.rejectContract (w : World) (a c : Nat) : World × Bool :=
  let (w1, st) := w.getAccountState a
  let (st', ok) := st.rejectContract c
  (w1.putState a st', ok)

def World.setObjGraph (w : World) (a nh g : Nat) : World :=
  let (w1, st) := w.getAccountState a
  w1.putState a (st.setObjGraph nh g)

def World.deleteValue (w : World) (a k : Nat) : World × Nat :=
  let (w1, st) := w.getAccountState a
  let (st', old) := st.deleteValue k
  (w1.putState a st', old)

/-- one iteration of the loop in flushAccountCacheInLock: new (state, lastAccounts entry, trie entry) -/
def flushOne (next : Nat) (st : AState) (la tr : Option Snap) : AState × Option Snap × Option Snap :=
  let (st', s) := st.getSnapshot next
  let skip : Bool := match la with
    | some ass => ass.stamp == s.stamp
    | none => s.isEmpty
  if skip then (st', la, tr)
  else (st', some s, if s.isEmpty then none else some s)

/-- worldStateImpl.flushAccountCacheInLock -/
def World.flush (w : World) : World :=
  { trie := fun a => match w.macc a with
      | some st => (flushOne w.next st (w.lastAcc a) (w.trie a)).2.2
      | none => w.trie a
    macc := fun a => (w.macc a).map (fun st => (flushOne w.next st (w.lastAcc a) (w.trie a)).1)
    lastAcc := fun a => match w.macc a with
      | some st => (flushOne w.next st (w.lastAcc a) (w.trie a)).2.1
      | none => w.lastAcc a
    next := w.next + 1 }

/-- worldStateImpl.GetSnapshot -/
def World.getSnapshot (w : World) : World × WSnap :=
  let w' := w.flush
  (w', w'.trie)

/-- worldStateImpl.ClearCache -/
def World.clearCache (w : World) : World :=
  let w' := w.flush
  { w' with macc := fun _ => none, lastAcc := fun _ => none }

/-- worldStateImpl.Reset(snapshot) -/
def World.reset (w : World) (ws : WSnap) : World :=
  { trie := ws
    macc := fun a => (w.macc a).map (fun st => match ws a with
      | none => st.clear
      | some v => st.reset v)
    lastAcc := fun a => match w.macc a with
      | some _ => ws a          -- nil → entry deleted (reads as nil); else := value
      | none => w.lastAcc a
    next := w.next }

/-- worldStateImpl.GetAccountSnapshot: `none` stands for `newAccountSnapshot(db)` -/
def World.getAccountSnapshot (w : World) (a : Nat) : World × Option Snap :=
  match w.macc a with
  | some st =>
    let (st', s) := st.getSnapshot w.next
    ({ w with macc := upd w.macc a (some st'), next := w.next + 1 }, some s)
  | none => (w, w.trie a)

/-- `snapshot.Flush()` + `NewWorldState(db, snapshot.StateHash(), ..)`: same logical
    content, objects decoded afresh (new pointers), empty caches. `base` is the
    stamp counter of the world being replaced (stamps stay globally fresh). -/
def World.reload (base : Nat) (ws : WSnap) : World :=
  { trie := fun a => (ws a).map (fun s => { s with stamp := base })
    macc := fun _ => none
    lastAcc := fun _ => none
    next := base + 1 }

/-! ### abstraction: Spec := Account → Option AcctData, empty accounts absent -/

/-- logical content of an account -/
structure AcctData where
  bal : Int
  isContract : Bool
  cur : Option Nat           -- current (accepted) contract
  next : Option (Nat × Bool) -- pending / rejected next contract
  graph : Option Graph       -- object graph of the current contract
  get : Nat → Option Nat

def dataOf (h : Hdr) (store : Option KV) : AcctData := ⟨h.bal, h.isContract, h.cur, h.next, h.graph, fun k => kvGet (store.getD []) k⟩

/-- emptiness of mutable content (nil store or empty store) -/
def contentEmpty (h : Hdr) (store : Option KV) : Bool := h.bal == 0 && !h.isContract && (normStore store).isNone

def absSnap (s : Option Snap) : Option AcctData :=
  match s with
  | some s => if s.isEmpty then none else some (dataOf s.hdr s.store)
  | none => none

def absWSnap (ws : WSnap) : Nat → Option AcctData := fun a => absSnap (ws a)

/-- what the world logically contains (mutable cache first, else trie) -/
def World.abs (w : World) : Nat → Option AcctData := fun a =>
  match w.macc a with
  | some st => if contentEmpty st.hdr st.store then none else some (dataOf st.hdr st.store)
  | none => absSnap (w.trie a)

/-- StateHash: `H` is the Merkle root as a function of the abstract account map
    (C17: the trie root depends only on the map; the account encoding contains
    balance and the storage root, again a function of the storage map). -/
def stateHash {Hash : Type} (H : (Nat → Option AcctData) → Hash) (ws : WSnap) : Hash := H (absWSnap ws)

/-! ### history level: world + all snapshots taken so far -/

inductive Op where
  | setBalance (a : Nat) (v : Int)
  | setValue (a k v : Nat)
  | deleteValue (a k : Nat)
  | deploy (a c : Nat)
  | initContract (a : Nat)
  | deployContract (a c : Nat)
  | acceptContract (a c : Nat)
  | rejectContract (a c : Nat)
  | setObjGraph (a nh g : Nat)
  | touch (a : Nat)              -- GetAccountState only (reads through the state)
  | peek (a : Nat)               -- ws.GetAccountSnapshot (reads through the snapshot)
  | snapshot
  | reset (i : Nat)
  | clearCache
  | reload (i : Nat)

structure Hist where
  w : World
  snaps : List WSnap

def Hist.init : Hist := ⟨World.init, []⟩

def Hist.step (h : Hist) : Op → Hist
  | .setBalance a v => { h with w := h.w.setBalance a v }
  | .setValue a k v => { h with w := (h.w.setValue a k v).1 }
  | .deleteValue a k => { h with w := (h.w.deleteValue a k).1 }
  | .deploy a c => { h with w := h.w.deploy a c }
  | .initContract a => { h with w := h.w.initContract a }
  | .deployContract a c => { h with w := h.w.deployContract a c }
  | .acceptContract a c => { h with w := (h.w.acceptContract a c).1 }
  | .rejectContract a c => { h with w := (h.w.rejectContract a c).1 }
  | .setObjGraph a nh g => { h with w := h.w.setObjGraph a nh g }
  | .touch a => { h with w := (h.w.getAccountState a).1 }
  | .peek a => { h with w := (h.w.getAccountSnapshot a).1 }
  | .snapshot => let (w', s) := h.w.getSnapshot; ⟨w', h.snaps ++ [s]⟩
  | .reset i => match h.snaps[i]? with
      | some s => { h with w := h.w.reset s }
      | none => h
  | .clearCache => { h with w := h.w.clearCache }
  | .reload i => match h.snaps[i]? with
      | some s => { h with w := World.reload h.w.next s }
      | none => h

def Hist.run (h : Hist) (ops : List Op) : Hist := ops.foldl Hist.step h

end Goloop.C14
