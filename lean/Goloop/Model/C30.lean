/-
  Model/C30: P2P packet framing of network/packet.go, transcribed.

  Wire format written by `Packet.WriteTo` (four `Write` calls):
     header  (30) = protocol(2,BE) subProtocol(2,BE) src(20) dest(1) ttl(1) lengthOfPayload(4,BE)
     payload (lengthOfPayload)
     footer  (10) = hashOfPacket(8,BE) extendInfo(2,BE)
     ext     (extendInfo & 0x3FF)           -- only when that length is > 0
  hashOfPacket = FNV-1a-64 over header ++ payload  (`_hash`): the footer's
  extendInfo and the extension bytes are NOT covered by the hash.

  A reader is a chunked source (`List Bytes`): one `Read(buf)` returns at most
  one chunk (or the part of it that fits, leaving the rest), `[]` is EOF; empty
  chunks model `Read` returning `0, nil`.  `Packet._read` loops until it has n
  bytes.  uint16/uint32/uint64 fields are `Nat`s (range = well-formedness
  hypothesis of the theorems); FNV arithmetic is on `UInt64`.
-/
import Goloop.Base.Bytes
namespace Goloop.C30

/-! ### FNV-1a 64 (hash/fnv New64a) -/
def fnvOffset : UInt64 := 14695981039346656037
def fnvPrime : UInt64 := 1099511628211
def fnvStep (h : UInt64) (b : UInt8) : UInt64 := (h ^^^ b.toUInt64) * fnvPrime
def fnvFrom (h : UInt64) (bs : Bytes) : UInt64 := bs.foldl fnvStep h
def fnv1a (bs : Bytes) : UInt64 := fnvFrom fnvOffset bs

/-! ### big-endian fixed width -/
/-- the low `k` bytes of `v`, big-endian (binary.BigEndian.PutUintNN after the Go conversion truncates) -/
def beBytes : Nat → Nat → Bytes
  | 0, _ => []
  | k + 1, v => beBytes k (v / 256) ++ [UInt8.ofNat (v % 256)]

def peerIDSize : Nat := 20
def headerSize : Nat := 30
def footerSize : Nat := 10
def payloadMax : Nat := 1024 * 1024
def extendMaxLen : Nat := 1023   -- 0x03FF
def extendMaxHint : Nat := 63    -- 0x3F

/-- `newPacketExtendInfo(hint byte, len int)`: `packetExtendInfo(int(hint)<<10 | int(len&0x3FF))`, truncated to uint16.
    (`hint<<10` and `len&0x3FF` have disjoint bits, so `|` is `+`.) -/
def newExtendInfo (hint : Nat) (len : Nat) : Nat := (hint * 1024 + len % 1024) % 65536
/-- `packetExtendInfo.len()` -/
def extLen (i : Nat) : Nat := i % 1024
/-- `packetExtendInfo.hint()` = `i >> 10 & 0x3F` -/
def extHint (i : Nat) : Nat := i / 1024 % 64

structure Packet where
  protocol : Nat          -- module.ProtocolInfo (uint16)
  subProtocol : Nat       -- uint16
  src : Bytes             -- module.PeerID bytes (20)
  dest : UInt8
  ttl : UInt8
  lengthOfPayload : Nat   -- uint32
  hashOfPacket : Nat      -- uint64
  extendInfo : Nat        -- uint16
  header : Option Bytes   -- cached header bytes (nil = none)
  payload : Bytes
  footer : Option Bytes   -- cached footer bytes
  ext : Bytes
  deriving Repr, DecidableEq

def Packet.empty : Packet :=
  { protocol := 0, subProtocol := 0, src := [], dest := 0, ttl := 0, lengthOfPayload := 0,
    hashOfPacket := 0, extendInfo := 0, header := none, payload := [], footer := none, ext := [] }

/-- `NewPacket` + the field assignments the senders do (src, dest, ttl, extendInfo, ext). -/
def newPacket (pi spi : Nat) (src : Bytes) (dest ttl : UInt8) (payload : Bytes) (hint : Nat) (ext : Bytes) : Packet :=
  let l := if payload.length > payloadMax then payloadMax else payload.length
  { Packet.empty with
    protocol := pi, subProtocol := spi, src := src, dest := dest, ttl := ttl,
    lengthOfPayload := l, payload := payload.take l,
    extendInfo := newExtendInfo hint ext.length, ext := ext }

/-- `copy(tb[:n], b)` into a zeroed buffer -/
def copyPad (n : Nat) (b : Bytes) : Bytes := b.take n ++ List.replicate (n - b.length) 0

def buildHeader (p : Packet) : Bytes :=
  beBytes 2 p.protocol ++ beBytes 2 p.subProtocol ++ copyPad peerIDSize p.src ++ [p.dest, p.ttl] ++
    beBytes 4 p.lengthOfPayload

/-- `headerToBytes(force)`: builds and caches unless cached -/
def headerToBytes (force : Bool) (p : Packet) : Packet × Bytes :=
  match force, p.header with
  | false, some h => (p, h)
  | _, _ => let h := buildHeader p; ({ p with header := some h }, h)

def buildFooter (p : Packet) : Bytes := beBytes 8 p.hashOfPacket ++ beBytes 2 p.extendInfo

/-- `footerToBytes(force)` -/
def footerToBytes (force : Bool) (p : Packet) : Packet × Bytes :=
  match force, p.footer with
  | false, some f => (p, f)
  | _, _ => let f := buildFooter p; ({ p with footer := some f }, f)

/-- `_hash(force)`: FNV-1a over header bytes then `payload[:lengthOfPayload]` -/
def hashOf (force : Bool) (p : Packet) : Packet × UInt64 :=
  let (p1, h) := headerToBytes force p
  (p1, fnv1a (h ++ p1.payload.take p1.lengthOfPayload))

/-- `updateHash(force)` -/
def updateHash (force : Bool) (p : Packet) : Packet :=
  if p.hashOfPacket = 0 ∨ force = true then
    let (p1, h) := hashOf force p
    { p1 with hashOfPacket := h.toNat }
  else p

/-- `WriteTo`: the packet after the call (hash and caches set) and the successive `Write` arguments. -/
def writeTo (p : Packet) : Packet × List Bytes :=
  let p0 := updateHash false p
  let (p1, h) := headerToBytes false p0
  let pl := p1.payload.take p1.lengthOfPayload
  let (p2, f) := footerToBytes false p1
  let n := extLen p2.extendInfo
  (p2, if n > 0 then [h, pl, f, p2.ext.take n] else [h, pl, f])

/-- the byte stream of a packet sequence through one writer -/
def writeAll : List Packet → List Packet × Bytes
  | [] => ([], [])
  | p :: ps =>
    let (p', ws) := writeTo p
    let (ps', bs) := writeAll ps
    (p' :: ps', ws.flatten ++ bs)

/-! ### reading -/
abbrev Source := List Bytes

inductive RErr where
  | eof        -- the reader's error (io.EOF at the end of the chunk list)
  | badLen     -- "invalid lengthOfPayload"
  | badHash    -- "invalid hashOfPacket"
  deriving Repr, DecidableEq

/-- the `for` loop of `_read`: `need` bytes still missing, `acc` = b[:rn]. -/
def readLoop : Nat → Bytes → Source → Except RErr (Bytes × Source)
  | _, _, [] => .error .eof
  | need, acc, c :: rest =>
    if c.length < need then readLoop (need - c.length) (acc ++ c) rest
    else .ok (acc ++ c.take need, c.drop need :: rest)

/-- `_read(r, n)` (n ≥ 0 always holds at the call sites) -/
def readN (n : Nat) (s : Source) : Except RErr (Bytes × Source) :=
  if n = 0 then .ok ([], s) else readLoop n [] s

/-- `setHeader` on exactly `headerSize` bytes (the "short buffer" branch is unreachable from ReadFrom). -/
def setHeader (p : Packet) (b : Bytes) : Except RErr Packet :=
  let p1 := { p with
    header := some (b.take headerSize),
    protocol := beNat (b.take 2),
    subProtocol := beNat ((b.drop 2).take 2),
    src := (b.drop 4).take peerIDSize,
    dest := (b.drop 24).headD 0,
    ttl := (b.drop 25).headD 0,
    lengthOfPayload := beNat ((b.drop 26).take 4) }
  if p1.lengthOfPayload > payloadMax then .error .badLen else .ok p1

/-- `setFooter` -/
def setFooter (p : Packet) (b : Bytes) : Packet :=
  { p with
    footer := some (b.take footerSize),
    hashOfPacket := beNat (b.take 8),
    extendInfo := beNat ((b.drop 8).take 2) }

/-- `ReadFrom`, parameterised by the `_read(r, n)` primitive `rd` so that the proofs can run the very
    same parser on a chunked reader (`readN`) and on a plain byte string (`splitN`). -/
def readFromWith {σ : Type} (rd : Nat → σ → Except RErr (Bytes × σ)) (s : σ) : Except RErr (Packet × σ) := do
  let (b, s1) ← rd headerSize s
  let p1 ← setHeader Packet.empty b
  let (pl, s2) ← rd p1.lengthOfPayload s1
  let p2 := { p1 with payload := pl }
  let (fb, s3) ← rd footerSize s2
  let p3 := setFooter p2 fb
  let (p4, s4) ← (if extLen p3.extendInfo > 0 then do
        let (e, s4) ← rd (extLen p3.extendInfo) s3
        pure ({ p3 with ext := e }, s4)
      else pure (p3, s3) : Except RErr (Packet × σ))
  let (p5, h) := hashOf false p4
  if h.toNat ≠ p5.hashOfPacket then .error .badHash else .ok (p5, s4)

/-- `ReadFrom` on a chunked reader -/
def readFrom (s : Source) : Except RErr (Packet × Source) := readFromWith readN s

/-- `ReadPacket` until the first error (a peer closes the connection on a read error). -/
def readAll : Nat → Source → List Packet × RErr
  | 0, _ => ([], .eof)
  | fuel + 1, s =>
    match readFrom s with
    | .error e => ([], e)
    | .ok (p, s') => let (ps, e) := readAll fuel s'; (p :: ps, e)

/-! ### the same parser on an unchunked byte string (used by the proofs) -/
def splitN (n : Nat) (bs : Bytes) : Except RErr (Bytes × Bytes) :=
  if bs.length < n then .error .eof else .ok (bs.take n, bs.drop n)

def parseFlat (bs : Bytes) : Except RErr (Packet × Bytes) := readFromWith splitN bs

/-- a sender-side packet as built by `newPacket`-style code before its first `WriteTo` -/
structure Packet.WF (p : Packet) : Prop where
  protocol : p.protocol < 65536
  subProtocol : p.subProtocol < 65536
  src : p.src.length = peerIDSize
  len : p.lengthOfPayload = p.payload.length
  max : p.payload.length ≤ payloadMax
  info : p.extendInfo < 65536
  ext : p.ext.length = extLen p.extendInfo
  hash : p.hashOfPacket = 0
  header : p.header = none
  footer : p.footer = none

end Goloop.C30
