/-
  Model/C07: the synchronous guards of block import.

  Transcribed from
    block/manager.go      `_import`            (parent lookup in `nmap` by `PrevID`)
    block/block.go        `verifyNewBlock`     (version, height, prev id, certificate, timestamp)
    block/blockv2.go      `blockV2.VerifyTimestamp`
    consensus/commitvotelist.go `blockCommitVoteList.Timestamp` (median of vote timestamps)

  Go `int64` values are `Int`s; the one place where the code can overflow
  (`ts[l/2-1] + ts[l/2]` and `prev.Height()+1`) is modelled with an explicit
  two's complement wrap `wrap64`, so that the model is exact for every int64
  input and the "no overflow" side condition appears in the theorems only.
  `/` on int64 truncates toward zero = `Int.tdiv`.

  The commit certificate check (`verifyProofForLastBlock`, property C05) is a
  parameter `certOk`.
  Block ids are an arbitrary type `ι` with decidable equality (32-byte hashes
  in the code, small naturals in the driver).
-/
import Goloop.Base.Bytes
namespace Goloop.C07

/-- two's complement wrap of an `Int` into the int64 range -/
def wrap64 (x : Int) : Int := (x + 2 ^ 63) % 2 ^ 64 - 2 ^ 63

/-- `sort.Slice(ts, func(i, j) bool { return ts[i] < ts[j] })` on int64 values: the result is
    the unique ascending arrangement whatever algorithm is used; we use `List.mergeSort`. -/
def sortTs (ts : List Int) : List Int := ts.mergeSort (fun a b => decide (a ≤ b))

/-- `blockCommitVoteList.Timestamp()` -/
def median (ts : List Int) : Int :=
  let l := ts.length
  if l = 0 then 0
  else
    let s := sortTs ts
    if l % 2 = 1 then s.getD (l / 2) 0
    else (wrap64 (s.getD (l / 2 - 1) 0 + s.getD (l / 2) 0)).tdiv 2

/-- what import needs to know about a block that is in `nmap` (a possible parent) -/
structure Blk (ι : Type) where
  id : ι
  height : Int
  ts : Int
  /-- `sm.GetNextBlockVersion(prev.Result())`: the version the parent's state requires -/
  nextVersion : Int
  deriving Repr

/-- the fields of a candidate block that the guards read -/
structure Cand (ι : Type) where
  version : Int
  height : Int
  prevID : ι
  ts : Int
  /-- timestamps of the items of `b.Votes()` -/
  votes : List Int
  deriving Repr

inductive Verdict where
  | accept
  | noParent        -- `InvalidPreviousID`
  | badVersion      -- "bad block version"
  | badHeight       -- "bad height"
  | badPrevID       -- "bad prev ID"
  | badCert         -- any error of `verifyProofForLastBlock`
  | badTimestamp    -- "bad timestamp"
  | nonIncreasing   -- "non-increasing timestamp"
  deriving Repr, DecidableEq

variable {ι : Type} [DecidableEq ι]

/-- `blockV2.VerifyTimestamp(prev, prevVoters)` -/
def verifyTimestamp (b : Cand ι) (prev : Blk ι) : Verdict :=
  if b.height > 1 ∧ b.ts ≠ median b.votes then .badTimestamp
  else if b.height > 1 ∧ prev.ts ≥ b.ts then .nonIncreasing
  else .accept

/-- `manager.verifyNewBlock(b, prev)` -/
def verifyNewBlock (certOk : Blk ι → Cand ι → Bool) (b : Cand ι) (prev : Blk ι) : Verdict :=
  if b.version ≠ prev.nextVersion then .badVersion
  else if b.height ≠ wrap64 (prev.height + 1) then .badHeight
  else if b.prevID ≠ prev.id then .badPrevID
  else if !certOk prev b then .badCert
  else verifyTimestamp b prev

/-- `m.nmap[string(block.PrevID())]` -/
def lookup (nmap : List (Blk ι)) (id : ι) : Option (Blk ι) := nmap.find? (fun p => decide (p.id = id))

/-- the synchronous part of `manager._import` (what `ImportBlock` returns as its error) -/
def importBlock (certOk : Blk ι → Cand ι → Bool) (nmap : List (Blk ι)) (b : Cand ι) : Verdict :=
  match lookup nmap b.prevID with
  | none => .noParent
  | some prev => verifyNewBlock certOk b prev

def Verdict.toString : Verdict → String
  | .accept => "accept"
  | .noParent => "reject:noparent"
  | .badVersion => "reject:version"
  | .badHeight => "reject:height"
  | .badPrevID => "reject:previd"
  | .badCert => "reject:cert"
  | .badTimestamp => "reject:timestamp"
  | .nonIncreasing => "reject:nonincreasing"

end Goloop.C07
