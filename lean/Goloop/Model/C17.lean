/-
  Model/C17: the Merkle Patricia trie of common/trie/ompt as a pure structure.

  `Node` is the in-memory node graph with every `hash` node realised (realize /
  flush / freeze / compact / snapshot / reload do not change this structure —
  that is the claim the correspondence run checks on the real code).
  `set` / `del` / `get` are transcribed branch by branch from leaf.go,
  extension.go, branch.go and mpt.go (`m.set` on a nil node = `set .empty`).
  Slices `nibs[depth:]` are passed as the remaining key.  Places where the Go
  code would panic (index out of range on an extension with empty keys,
  "Value is nil" on a branch left with nothing) are marked; they are
  unreachable from normal-form tries (Props: `nf_set`, `nf_delete`).

  The hash function is a parameter `H`.
-/
import Goloop.Base.Bytes
namespace Goloop.C17

abbrev Nibble := Fin 16

inductive Node where
  | empty
  | leaf (keys : List Nibble) (val : Bytes)
  | ext (keys : List Nibble) (next : Node)
  | branch (ch : Fin 16 → Node) (val : Option Bytes)

instance : Inhabited Node := ⟨.empty⟩

def Node.isEmpty : Node → Bool
  | .empty => true
  | _ => false

/-- a fresh `branch{}`: all children nil -/
def noCh : Fin 16 → Node := fun _ => .empty

/-- `children[i] = c` -/
def upd (ch : Fin 16 → Node) (i : Fin 16) (c : Node) : Fin 16 → Node :=
  fun j => if j = i then c else ch j

/-- first component of `compareKeys`: length of the common prefix -/
def cpl : List Nibble → List Nibble → Nat
  | a :: as, b :: bs => if a = b then cpl as bs + 1 else 0
  | _, _ => 0

def hiNib (b : UInt8) : Nibble := ⟨b.toNat / 16, by have := b.toNat_lt; omega⟩
def loNib (b : UInt8) : Nibble := ⟨b.toNat % 16, by omega⟩

/-- `bytesToNibs` -/
def bytesToNibs : Bytes → List Nibble
  | [] => []
  | b :: r => hiNib b :: loNib b :: bytesToNibs r

/-- `keysToBytes`: len/2 bytes, a trailing odd nibble is dropped -/
def keysToBytes : List Nibble → Bytes
  | a :: b :: r => UInt8.ofNat (a.val * 16 + b.val) :: keysToBytes r
  | _ => []

/-! ### get -/

def get : Node → List Nibble → Option Bytes
  | .empty, _ => none
  | .leaf ks v, k => if k = ks then some v else none
  | .ext ks nx, k =>
    if cpl k ks < ks.length then none else get nx (k.drop (cpl k ks))
  | .branch _ v, [] => v
  | .branch ch _, i :: r => get (ch i) r

/-! ### set -/

/-- In a branch under construction: `if len(rest)==0 { br.value = o } else
    { br.children[rest[0]] = &leaf{keys: rest[1:], value: o} }` -/
def putNew (b : (Fin 16 → Node) × Option Bytes) (rest : List Nibble) (o : Bytes) :
    (Fin 16 → Node) × Option Bytes :=
  match rest with
  | [] => (b.1, some o)
  | x :: r => (upd b.1 x (.leaf r o), b.2)

def set : Node → List Nibble → Bytes → Node
  | .empty, k, o => .leaf k o
  | .leaf ks v, k, o =>
    let cnt := cpl k ks
    if cnt = 0 ∧ k ≠ ks then
      -- case cnt == 0 && !match
      let b1 := putNew (noCh, none) k o
      match ks with
      | [] => .branch b1.1 (some v)
      | y :: r => .branch (upd b1.1 y (.leaf r v)) b1.2
    else if cnt < ks.length then
      let b1 := putNew (noCh, none) (k.drop cnt) o
      match ks.drop cnt with
      | [] => .ext (k.take cnt) (.branch b1.1 b1.2)      -- unreachable (cnt < len)
      | y :: r => .ext (k.take cnt) (.branch (upd b1.1 y (.leaf r v)) b1.2)
    else if cnt < k.length then
      match k.drop cnt with
      | [] => .ext ks (.branch noCh (some v))             -- unreachable (cnt < len)
      | x :: r => .ext ks (.branch (upd noCh x (.leaf r o)) (some v))
    else .leaf ks o
  | .ext ks nx, k, o =>
    let cnt := cpl k ks
    if cnt = 0 then
      let b1 := putNew (noCh, none) k o
      match ks with
      | [] => .branch b1.1 b1.2          -- Go: index out of range; unreachable in normal form
      | [y] => .branch (upd b1.1 y nx) b1.2
      | y :: r => .branch (upd b1.1 y (.ext r nx)) b1.2
    else if cnt < ks.length then
      match ks.drop cnt with
      | [] => .ext ks nx                  -- unreachable (cnt < len)
      | y :: r =>
        let c0 := upd noCh y (if r = [] then nx else .ext r nx)
        let b1 := putNew (c0, none) (k.drop cnt) o
        .ext (ks.take cnt) (.branch b1.1 b1.2)
    else .ext ks (set nx (k.drop cnt) o)
  | .branch ch _, [], o => .branch ch (some o)
  | .branch ch v, i :: r, o => .branch (upd ch i (set (ch i) r o)) v

/-! ### delete -/

/-- indices of the non-nil children, ascending (the counting loop of `branch.delete`) -/
def live (ch : Fin 16 → Node) : List (Fin 16) :=
  (List.finRange 16).filter (fun i => !(ch i).isEmpty)

/-- tail of `branch.delete`: collapse a branch left with a single entry -/
def collapse (ch : Fin 16 → Node) (v : Option Bytes) : Node :=
  match live ch with
  | [] =>
    match v with
    | some x => .leaf [] x
    | none => .branch ch v               -- Go: log.Panicln("Value is nil"); unreachable in normal form
  | [i] =>
    match v with
    | some _ => .branch ch v
    | none =>
      match ch i with
      | .ext ks n => .ext (i :: ks) n
      | .branch c w => .ext [i] (.branch c w)
      | .leaf ks x => .leaf (i :: ks) x
      | .empty => .branch ch v           -- not possible: i is live
  | _ => .branch ch v

/-- `delete`: `none` = not dirty (node unchanged), `some n` = new node (`.empty` = nil) -/
def del : Node → List Nibble → Option Node
  | .empty, _ => none
  | .leaf ks _, k => if k = ks then some .empty else none
  | .ext ks nx, k =>
    if cpl k ks < ks.length then none
    else
      match del nx (k.drop (cpl k ks)) with
      | none => none
      | some .empty => some .empty
      | some (.ext ks2 n2) => some (.ext (ks ++ ks2) n2)
      | some (.leaf ks2 v2) => some (.leaf (ks ++ ks2) v2)
      | some (.branch c w) => some (.ext ks (.branch c w))
  | .branch ch v, [] =>
    match v with
    | none => none
    | some _ => some (collapse ch none)
  | .branch ch v, i :: r =>
    if (ch i).isEmpty then none
    else
      match del (ch i) r with
      | none => none
      | some c => some (collapse (upd ch i c) v)

/-- does `Delete` hit `log.Panicln("Value is nil")` (a branch left with no child and no value)?
    Mirrors the recursion of `del`.  False on normal-form tries (Props: `nf_del_no_panic`);
    reachable only after an empty branch value was dropped by a reload (known finding). -/
def delPanics : Node → List Nibble → Bool
  | .empty, _ => false
  | .leaf _ _, _ => false
  | .ext ks nx, k =>
    if cpl k ks < ks.length then false else delPanics nx (k.drop (cpl k ks))
  | .branch ch v, [] =>
    match v with
    | none => false
    | some _ => (live ch).isEmpty
  | .branch ch v, i :: r =>
    if (ch i).isEmpty then false
    else
      delPanics (ch i) r ||
        (match del (ch i) r with
         | none => false
         | some c => (live (upd ch i c)).isEmpty && v.isNone)

/-- `mpt.Delete`: `if dirty { m.root = root }` -/
def delete (t : Node) (k : List Nibble) : Node := (del t k).getD t

/-! ### serialisation (rlp.go, node.go) -/

/-- minimal big-endian bytes of a positive size (`rlpCountBytesForSize` + the fill loop) -/
def beBytes (n : Nat) : Bytes :=
  if _h : n < 256 then [UInt8.ofNat n] else beBytes (n / 256) ++ [UInt8.ofNat (n % 256)]
decreasing_by omega

def rlpBytes (b : Bytes) : Bytes :=
  match b with
  | [x] => if x < 0x80 then [x] else [0x81, x]
  | _ =>
    if b.length ≤ 55 then UInt8.ofNat (0x80 + b.length) :: b
    else
      let l := beBytes b.length
      UInt8.ofNat (0x80 + 55 + l.length) :: (l ++ b)

def rlpList (items : List Bytes) : Bytes :=
  let p := items.flatten
  if p.length ≤ 55 then UInt8.ofNat (0xC0 + p.length) :: p
  else
    let l := beBytes p.length
    UInt8.ofNat (0xC0 + 55 + l.length) :: (l ++ p)

def packNibs : List Nibble → Bytes
  | a :: b :: r => UInt8.ofNat (a.val * 16 + b.val) :: packNibs r
  | _ => []

/-- `encodeKeys(tag, k)` -/
def encodeKeys (tag : UInt8) (k : List Nibble) : Bytes :=
  if k.length % 2 = 1 then
    match k with
    | a :: r => (tag ||| 0x10 ||| UInt8.ofNat a.val) :: packNibs r
    | [] => [tag]
  else tag :: packNibs k

section hashing
variable (H : Bytes → Bytes)

/-- `serialize n` = `rlpEncode(n)`; `link n` = `n.getLink(false)`:
    the serialisation itself if it is at most 32 bytes, else the RLP string of its hash.
    A nil child encodes as the empty string. -/
def serialize : Node → Bytes
  | .empty => [0x80]
  | .leaf ks v => rlpList [rlpBytes (encodeKeys 0x20 ks), rlpBytes v]
  | .ext ks nx =>
    let s := serialize nx
    rlpList [rlpBytes (encodeKeys 0x00 ks), if s.length > 32 then rlpBytes (H s) else s]
  | .branch ch v =>
    rlpList (((List.finRange 16).map fun i =>
        let s := serialize (ch i)
        if s.length > 32 then rlpBytes (H s) else s)
      ++ [match v with | some x => rlpBytes x | none => rlpBytes []])

def link (n : Node) : Bytes :=
  let s := serialize H n
  if s.length > 32 then rlpBytes (H s) else s

/-- `mpt.Hash()`: nil for the empty trie, else `root.getLink(true)` -/
def rootHash : Node → Option Bytes
  | .empty => none
  | n => some (H (serialize H n))

/-- does the node carry a `hashValue`?  The root always (forced), others iff > 32 bytes. -/
def hasHash (isRoot : Bool) (n : Node) : Bool :=
  isRoot || decide ((serialize H n).length > 32)

/-! ### GetProof (leaf.go / extension.go / branch.go getProof) -/

def getProof : Bool → Node → List Nibble → List Bytes → Option (List Bytes)
  | _, .empty, _, _ => none
  | r, .leaf ks v, k, items =>
    if ks = k then
      some (if hasHash H r (.leaf ks v) then items ++ [serialize H (.leaf ks v)] else items)
    else none
  | r, .ext ks nx, k, items =>
    if cpl ks k < ks.length then none
    else
      getProof false nx (k.drop (cpl ks k))
        (if hasHash H r (.ext ks nx) then items ++ [serialize H (.ext ks nx)] else items)
  | r, .branch ch v, [], items =>
    some (if hasHash H r (.branch ch v) then items ++ [serialize H (.branch ch v)] else items)
  | r, .branch ch v, i :: k, items =>
    if (ch i).isEmpty then none
    else
      getProof false (ch i) k
        (if hasHash H r (.branch ch v) then items ++ [serialize H (.branch ch v)] else items)

/-- `mpt.GetProof(k)` -/
def getProofRoot (t : Node) (k : List Nibble) : Option (List Bytes) :=
  getProof H true t k []

end hashing

/-! ### iterator / Filter (the stack machine of mpt.go) -/

abbrev Item := List Nibble × Node

/-- `iterator.checkPrefix(v, short)` -/
def checkPrefix (pfx v : List Nibble) (short : Bool) : Bool :=
  if short && decide (v.length < pfx.length) then v.isPrefixOf pfx else pfx.isPrefixOf v

/-- `node.traverse(m, k, scheduler)`: the items handed to the scheduler, in call order,
    and the returned (key, value) -/
def traverseNode (k : List Nibble) : Node → List Item × Option (List Nibble × Bytes)
  | .empty => ([], none)
  | .leaf ks v => ([], some (k ++ ks, v))
  | .ext ks nx => ([(k ++ ks, nx)], none)
  | .branch ch v =>
    (((List.finRange 16).reverse.filter (fun i => !(ch i).isEmpty)).map (fun i => (k ++ [i], ch i)),
     v.map (fun x => (k, x)))

/-- `iterator.traverse(ii)` -/
def iterTraverse (pfx : List Nibble) (ii : Item) : List Item × Option (List Nibble × Bytes) :=
  let r := traverseNode ii.1 ii.2
  if pfx ≠ [] then
    if checkPrefix pfx ii.1 false then r
    else
      (r.1.filter (fun it => checkPrefix pfx it.1 true),
       match r.2 with
       | some (key, v) => if checkPrefix pfx key false then some (key, v) else none
       | none => none)
  else r

/-- all pairs produced by `Next()` until the stack is empty; the stack's top is the list head,
    `appendItem` pushes, so the scheduled items end up reversed on top. -/
def iterRun (pfx : List Nibble) : Nat → List Item → List (Bytes × Bytes)
  | 0, _ => []
  | _ + 1, [] => []
  | f + 1, ii :: st =>
    let r := iterTraverse pfx ii
    let rest := iterRun pfx f (r.1.reverse ++ st)
    match r.2 with
    | some (key, v) => (keysToBytes key, v) :: rest
    | none => rest

/-- number of nodes: bound for the number of iterator steps -/
def Node.size : Node → Nat
  | .empty => 1
  | .leaf _ _ => 1
  | .ext _ nx => nx.size + 1
  | .branch ch _ => ((List.finRange 16).map fun i => (ch i).size).sum + 1

/-- `mpt.Filter(prefix)` followed by Has/Get/Next until exhausted -/
def filter (t : Node) (pfx : Bytes) : List (Bytes × Bytes) :=
  match t with
  | .empty => []
  | _ => iterRun (bytesToNibs pfx) (t.size + 1) [([], t)]

def iterator (t : Node) : List (Bytes × Bytes) := filter t []

/-! ### reload: what deserialisation gives back (`newBranch`: `if len(v) > 0`) -/

/-- flush + reload is the identity on the structure except that an empty value stored at a
    branch node is read back as "no value" (nil and empty both serialise to 0x80). -/
def reload : Node → Node
  | .empty => .empty
  | .leaf ks v => .leaf ks v
  | .ext ks nx => .ext ks (reload nx)
  | .branch ch v =>
    .branch (fun i => reload (ch i)) (match v with | some [] => none | w => w)

end Goloop.C17
