/-
  Model/C25: common.Compress / common.Decompress = legacy LZW of /repo/common/lzw
  (the Go standard library compress/lzw writer *before* it learnt to send a leading
  clear code), order MSB, litWidth 8.

  Transcription notes (writer.go / reader.go):
  * `Writer.table` is an open-addressing hash table from key = code<<8|byte to the
    12-bit code; it is modelled as the finite map it implements: an association
    list `(key, value)` with newest entry first (`List.lookup`).  The table never
    fills (≤ 3837 live entries in 16384 slots), so probing always terminates.
  * `Reader.prefix/suffix` arrays are modelled as the finite map they hold: the list
    of `(code, prefix, suffix)` triples written since the last clear code, newest
    first (`suffix[hi] = s; prefix[hi] = last` conses `(hi, last, s)`).  The Go suffix-chain walk `for c >= clear { … c = prefix[c] }`
    becomes `expandAcc`, a walk down that list (every stored prefix is smaller
    than the code it belongs to, so the chain only ever moves to older entries).
    Stale array contents that survive a clear code are never read by the Go code
    (codes above `hi` are rejected, `code == hi` with a valid `last` does not read
    entry `hi`), which is why dropping them at a clear is exact.
  * `writeMSB` and the final partial byte of `Close` are transcribed with their 32 bit
    accumulator (`BitW`, `drain`, `writeMSB`, `closeMSB`, `packAcc`); `compress` uses them.
    `Proofs.packAcc_eq` shows this equals the bit string form `bytesOfBits ∘ bitsOf`
    (`List Bool`, most significant bit first).
  * `readMSB` is modelled on the bit string the 32 bit accumulator represents.  A read fails
    (io.ErrUnexpectedEOF) exactly when fewer than `width` bits remain.
  * `Decompress` ignores the reader error and returns what was decoded before it.
-/
import Goloop.Base.Bytes
namespace Goloop.C25

/-! ## bit level -/

/-- `w` bits of `v`, most significant first (bits above `w` are dropped). -/
def bitsMSB : Nat → Nat → List Bool
  | 0, _ => []
  | w + 1, v => (v / 2 ^ w % 2 == 1) :: bitsMSB w (v % 2 ^ w)

def natOfBits : List Bool → Nat
  | [] => 0
  | b :: bs => b.toNat * 2 ^ bs.length + natOfBits bs

/-- pad a (≤ 8 bit) chunk on the right with zero bits: `bits >>= 24; WriteByte` in `Close`. -/
def pad8 (l : List Bool) : List Bool := l ++ List.replicate (8 - l.length) false

def byteOfBits (l : List Bool) : UInt8 := UInt8.ofNat (natOfBits l)

/-- the byte string a bit string is flushed to (last byte zero padded). -/
def bytesOfBits (bits : List Bool) : Bytes :=
  if bits.isEmpty then [] else
    byteOfBits (pad8 (bits.take 8)) :: bytesOfBits (bits.drop 8)
termination_by bits.length
decreasing_by
  cases bits with
  | nil => simp at *
  | cons a t => simp only [List.length_drop, List.length_cons]; omega

def bitsOfBytes (bs : Bytes) : List Bool := bs.flatMap (fun b => bitsMSB 8 b.toNat)

/-- bit string of a sequence of `(code, width)` emissions (`writeMSB`). -/
def bitsOf (cs : List (Nat × Nat)) : List Bool := cs.flatMap (fun cw => bitsMSB cw.2 cw.1)

/-- `readMSB`: the next `w` bits as a code, or failure when fewer remain. -/
def readAcc : Nat → Nat → List Bool → Option (Nat × List Bool)
  | 0, acc, bits => some (acc, bits)
  | _ + 1, _, [] => none
  | w + 1, acc, b :: bits => readAcc w (2 * acc + b.toNat) bits

def readCode (w : Nat) (bits : List Bool) : Option (Nat × List Bool) := readAcc w 0 bits

/-! ## writer (code level) -/

structure Enc where
  table : List (Nat × Nat)   -- key = code*256+byte ↦ code, newest first
  hi : Nat
  width : Nat
  overflow : Nat

/-- `Writer.init` with litWidth 8. -/
def encInit : Enc := { table := [], hi := 257, width := 9, overflow := 512 }

/-- the `if w.hi == w.overflow { w.width++; w.overflow <<= 1 }` part of `incHi`;
    argument is the already incremented `hi`. -/
def bump (hi width overflow : Nat) : Nat × Nat :=
  if hi = overflow then (width + 1, overflow * 2) else (width, overflow)

structure IncHi where
  e : Enc
  ooc : Bool                  -- errOutOfCodes
  clr : List (Nat × Nat)      -- the clear code sent, with the width it is sent at

/-- `Writer.incHi` -/
def incHi (e : Enc) : IncHi :=
  let hi := e.hi + 1
  let wo := bump hi e.width e.overflow
  if hi = 4095 then
    { e := encInit, ooc := true, clr := [(256, wo.1)] }
  else
    { e := { e with hi := hi, width := wo.1, overflow := wo.2 }, ooc := false, clr := [] }

/-- `Writer.Write` loop followed by `Writer.Close`: the emitted `(code, width)` sequence.
    `code` is the accumulated code (`savedCode`). -/
def encLoop (e : Enc) (code : Nat) : Bytes → List (Nat × Nat)
  | [] =>
    -- Close: write savedCode, incHi, write eof
    let r := incHi e
    (code, e.width) :: (r.clr ++ [(257, r.e.width)])
  | x :: xs =>
    let key := code * 256 + x.toNat
    match e.table.lookup key with
    | some v => encLoop e v xs
    | none =>
      let r := incHi e
      let e' := if r.ooc then r.e else { r.e with table := (key, r.e.hi) :: r.e.table }
      (code, e.width) :: (r.clr ++ encLoop e' x.toNat xs)

/-- code sequence for a non-empty input: the first byte is the first accumulated code. -/
def encCodes : Bytes → List (Nat × Nat)
  | [] => []
  | x :: xs => encLoop encInit x.toNat xs

/-! ## writer (bit level): the 32 bit accumulator of `writeMSB` -/

/-- `Writer.bits`, `Writer.nBits` and the bytes handed to the underlying writer. -/
structure BitW where
  bits : Nat       -- uint32
  nBits : Nat
  out : Bytes      -- newest first

/-- `for w.nBits >= 8 { WriteByte(uint8(w.bits >> 24)); w.bits <<= 8; w.nBits -= 8 }` -/
def drain (bits nBits : Nat) (out : Bytes) : BitW :=
  if 8 ≤ nBits then drain ((bits <<< 8) % 2 ^ 32) (nBits - 8) (UInt8.ofNat (bits >>> 24) :: out)
  else ⟨bits, nBits, out⟩
termination_by nBits
decreasing_by omega

/-- `w.bits |= c << (32 - w.width - w.nBits); w.nBits += w.width` and the drain loop. -/
def writeMSB (s : BitW) (c width : Nat) : BitW :=
  drain ((s.bits ||| (c <<< (32 - width - s.nBits))) % 2 ^ 32) (s.nBits + width) s.out

/-- `Close`: `if w.nBits > 0 { w.bits >>= 24; WriteByte(uint8(w.bits)) }` -/
def closeMSB (s : BitW) : Bytes :=
  (if s.nBits > 0 then UInt8.ofNat (s.bits >>> 24) :: s.out else s.out).reverse

/-- all writes of a code sequence followed by the final flush. -/
def packAcc (cs : List (Nat × Nat)) : Bytes :=
  closeMSB (cs.foldl (fun s cw => writeMSB s cw.1 cw.2) ⟨0, 0, []⟩)


/-- `common.Compress` -/
def compress (bs : Bytes) : Bytes := packAcc (encCodes bs)

/-! ## reader -/

structure Dec where
  dict : List (Nat × Nat × UInt8)   -- (code, prefix[code], suffix[code]), newest first
  hi : Nat
  width : Nat
  overflow : Nat
  last : Option Nat           -- none = decoderInvalidCode

def decInit : Dec := { dict := [], hi := 257, width := 9, overflow := 512, last := none }

/-- expansion of a code: walk the suffix chain, prepending to `acc`. -/
def expandAcc : List (Nat × Nat × UInt8) → Nat → Bytes → Bytes
  | [], c, acc => UInt8.ofNat c :: acc
  | (k, p, x) :: d, c, acc => if c = k then expandAcc d p (x :: acc) else expandAcc d c acc

def expand (d : List (Nat × Nat × UInt8)) (c : Nat) : Bytes := expandAcc d c []

/-- the literal code at the end of the prefix chain. -/
def headOf : List (Nat × Nat × UInt8) → Nat → Nat
  | [], c => c
  | (k, p, _) :: d, c => if c = k then headOf d p else headOf d c

/-- tail of `decode`'s loop body: `r.last, r.hi = code, r.hi+1` and the overflow handling. -/
def advance (d : Dec) (code : Nat) : Dec :=
  let hi := d.hi + 1
  if hi ≥ d.overflow then
    if d.width = 12 then { d with last := none }
    else { d with last := some code, hi := hi, width := d.width + 1, overflow := 2 ^ (d.width + 1) }
  else { d with last := some code, hi := hi }

/-- `if r.last != decoderInvalidCode { suffix[hi] = s; prefix[hi] = last }` -/
def save (d : Dec) (s : UInt8) : Dec :=
  match d.last with
  | some l => { d with dict := (d.hi, l, s) :: d.dict }
  | none => d

/-- `Reader.decode` over the whole input; `fuel` bounds the number of codes. -/
def decLoop : Nat → Dec → List Bool → Bytes
  | 0, _, _ => []
  | fuel + 1, d, bits =>
    match readCode d.width bits with
    | none => []                                  -- io.ErrUnexpectedEOF
    | some (code, rest) =>
      if code < 256 then
        UInt8.ofNat code :: decLoop fuel (advance (save d (UInt8.ofNat code)) code) rest
      else if code = 256 then
        decLoop fuel decInit rest
      else if code = 257 then []                  -- io.EOF
      else if code ≤ d.hi then
        match (if code = d.hi then d.last else none) with
        | some l =>
          -- code == hi special case: last expansion followed by its head
          let h := UInt8.ofNat (headOf d.dict l)
          expandAcc d.dict l [h] ++ decLoop fuel (advance (save d h) code) rest
        | none =>
          let h := UInt8.ofNat (headOf d.dict code)
          expand d.dict code ++ decLoop fuel (advance (save d h) code) rest
      else []                                     -- lzw: invalid code

/-- `common.Decompress` -/
def decompress (bs : Bytes) : Bytes :=
  if bs.isEmpty then [] else
    let bits := bitsOfBytes bs
    decLoop (bits.length + 1) decInit bits

end Goloop.C25
