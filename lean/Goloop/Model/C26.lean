/-
  Model/C26: service/txresult/logsbloom.go.
  A `LogsBloom` is a non-negative `big.Int`; it is modelled as a `Nat`, bit `i` of the bloom
  being `Nat.testBit · i` (`big.Int.SetBit/Or/Bytes/SetBytes/Bits` are taken as the
  mathematical operations).  The hash (`crypto.SHA3Sum256`, since
  `configLogsBloomSHA256 = false`) is a parameter.  `configLogsBloomIncludeAddr = true`.
-/
import Goloop.Base.Bytes
import Goloop.Model.C25
namespace Goloop.C26

abbrev Bloom := Nat

def logsBloomBits : Nat := 2048

/-- `binary.BigEndian.Uint16(h[i*2:i*2+2]) & (LogsBloomBits-1)` -/
def bitIdx (h : Bytes) (i : Nat) : Nat :=
  ((h.getD (2 * i) 0).toNat * 256 + (h.getD (2 * i + 1) 0).toNat) % logsBloomBits

/-- `addBit`: `lb.Int.SetBit(&lb.Int, idx, 1)` -/
def addBit (b : Bloom) (idx : Nat) : Bloom := b ||| (1 <<< idx)

/-- `addLog(log []byte)`: three bits taken from the first six digest bytes. -/
def addItem (hash : Bytes → Bytes) (b : Bloom) (item : Bytes) : Bloom :=
  let h := hash item
  addBit (addBit (addBit b (bitIdx h 0)) (bitIdx h 1)) (bitIdx h 2)

/-- `AddAddressOfLog`: `bs := make([]byte, 22); bs[0] = 0xff; copy(bs[1:], addr.Bytes())` -/
def addrItem (addr : Bytes) : Bytes :=
  0xff :: ((addr.take 21) ++ List.replicate (21 - addr.length) 0)

/-- `AddIndexedOfLog`: `bs[0] = byte(i); copy(bs[1:], b)` -/
def indexedItem (i : Nat) (b : Bytes) : Bytes := UInt8.ofNat i :: b

/-- the `for i, b := range log` loop of `AddLog` starting at position `i`; `none` = nil entry. -/
def addIndexed (hash : Bytes → Bytes) (b : Bloom) (i : Nat) : List (Option Bytes) → Bloom
  | [] => b
  | none :: rest => addIndexed hash b (i + 1) rest
  | some v :: rest => addIndexed hash (addItem hash b (indexedItem i v)) (i + 1) rest

/-- `AddLog(addr, log)` -/
def addLog (hash : Bytes → Bytes) (b : Bloom) (addr : Bytes) (log : List (Option Bytes)) : Bloom :=
  if log.isEmpty then b
  else addIndexed hash (addItem hash b (addrItem addr)) 0 log

/-- `Merge`: `lb.Int.Or(&lb.Int, &lb2.Int)` -/
def merge (a b : Bloom) : Bloom := a ||| b

/-- `big.Int.Bits()`: little-endian 64 bit words (`big.Word` on 64 bit platforms), normalised
    (no zero word at the top, empty for 0). -/
def words (n : Nat) : List Nat :=
  if _h : n = 0 then [] else (n % 2 ^ 64) :: words (n / 2 ^ 64)
termination_by n
decreasing_by exact Nat.div_lt_self (by omega) (by decide)

/-- the `for idx, word2 := range words2` loop of `Contain` (first list = words1). -/
def containWords : List Nat → List Nat → Bool
  | _, [] => true
  | [], _ :: _ => false      -- not reached: guarded by the length test
  | w1 :: r1, w2 :: r2 => (w2 == 0 || (w1 &&& w2) == w2) && containWords r1 r2

/-- `Contain`: `if len(words2) > len(words1) { return false }`, then the word loop. -/
def contain (a b : Bloom) : Bool :=
  if (words b).length > (words a).length then false else containWords (words a) (words b)

/-- `big.Int.Bytes()`: minimal big-endian bytes, empty for 0. -/
def natBytes (v : Nat) : Bytes :=
  if _h : v = 0 then [] else natBytes (v / 256) ++ [UInt8.ofNat (v % 256)]
termination_by v
decreasing_by omega

/-- `LogBytes()`: 256 bytes, left padded; `none` = the slice index panic for wider values. -/
def logBytes (b : Bloom) : Option Bytes :=
  let ibs := natBytes b
  if ibs.length > 256 then none else some (List.replicate (256 - ibs.length) 0 ++ ibs)

/-- `CompressedBytes()` -/
def compressedBytes (b : Bloom) : Bytes := C25.compress (natBytes b)

/-- `SetCompressedBytes` / `NewLogsBloomFromCompressed` -/
def fromCompressed (bs : Bytes) : Bloom := beNat (C25.decompress bs)

/-- the items `AddLog` inserts for a log (spec helper used by the theorems). -/
def indexedItems (i : Nat) : List (Option Bytes) → List Bytes
  | [] => []
  | none :: rest => indexedItems (i + 1) rest
  | some v :: rest => indexedItem i v :: indexedItems (i + 1) rest

def itemsOf (addr : Bytes) (log : List (Option Bytes)) : List Bytes :=
  if log.isEmpty then [] else addrItem addr :: indexedItems 0 log

end Goloop.C26
