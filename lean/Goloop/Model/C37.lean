/-
  Model/C37 — TransactionPool.Candidate (service/transactionpool.go), transactionV3.PreValidate
  (service/transaction/transaction_v3.go, plain value transfers between EOAs), and the checks a
  validator applies to a proposed block (transition.validateTxs: window + cumulative PreValidate;
  ensureRecordTXIDs: ids not included before).

  Accounts are numbers, balances naturals (big.Int ≥ 0), the "already included" test of the
  tx id manager is a parameter `has : id → ts → Bool` (for a proposal that builds on the finalized
  block both Candidate (HasRecent) and validation (tracker.Add → manager.Has) evaluate the same
  function — see C11).
-/
import Goloop.Model.C11
namespace Goloop.C37
open Goloop.C11 (windowCheck TsVerdict)

structure Tx where
  id : Nat
  ts : Int
  from_ : Nat
  to : Nat
  value : Nat
  stepLimit : Nat
  size : Nat      -- len(tx.Bytes())
deriving Repr, DecidableEq

structure Env where
  bts : Int       -- wc.BlockTimeStamp()
  th : Int        -- TransactionTimestampThreshold(wc, group)
  price : Nat     -- wc.StepPrice()
  minStep : Nat   -- StepsFor(default,1) + StepsFor(input,cnt)
deriving Repr

abbrev Bal := List (Nat × Nat)

def balOf (b : Bal) (a : Nat) : Nat :=
  match b with
  | [] => 0
  | (k, v) :: rest => if k = a then v else balOf rest a

def setBal (b : Bal) (a : Nat) (v : Nat) : Bal := (a, v) :: b

/-- PreValidate(wc, update=true): `none` = error (NotEnoughStep / NotEnoughBalance), the state is
    untouched on error -/
def preValidate (e : Env) (b : Bal) (tx : Tx) : Option Bal :=
  if tx.stepLimit < e.minStep then none
  else
    let trans := tx.stepLimit * e.price + tx.value
    let balance1 := balOf b tx.from_
    if balance1 < trans then none
    else
      let b1 := setBal b tx.from_ (balance1 - trans)
      some (setBal b1 tx.to (balOf b1 tx.to + tx.value))

def inWindow (e : Env) (tx : Tx) : Bool := windowCheck e.bts e.th tx.ts == TsVerdict.ok

/-- the loop of TransactionPool.Candidate; returns (txs, txSize, world state after) -/
def candLoop (e : Env) (has : Nat → Int → Bool) (maxBytes maxCount : Nat) :
    List Tx → Bal → List Tx → Nat → List Tx × Nat × Bal
  | [], b, acc, sz => (acc, sz, b)
  | tx :: rest, b, acc, sz =>
    if !(decide (sz < maxBytes) && decide (acc.length < maxCount)) then (acc, sz, b)
    else if !inWindow e tx then candLoop e has maxBytes maxCount rest b acc sz
    else if has tx.id tx.ts then candLoop e has maxBytes maxCount rest b acc sz
    else
      match preValidate e b tx with
      | none => candLoop e has maxBytes maxCount rest b acc sz
      | some b' =>
        if sz + tx.size > maxBytes then (acc, sz, b')
        else candLoop e has maxBytes maxCount rest b' (acc ++ [tx]) (sz + tx.size)

def defaultMaxBytes : Nat := 1024 * 1024
def defaultMaxCount : Nat := 1500

/-- Candidate(wc, maxBytes, maxCount) -/
def candidate (e : Env) (has : Nat → Int → Bool) (maxBytes maxCount : Int) (pool : List Tx) (b : Bal) :
    List Tx × Nat × Bal :=
  if pool.length = 0 then ([], 0, b)
  else
    let mb := if maxBytes ≤ 0 then defaultMaxBytes else maxBytes.toNat
    let mc := if maxCount ≤ 0 then defaultMaxCount else maxCount.toNat
    candLoop e has mb mc pool b [] 0

/-- transactionList.Add, insertion position: walking back from the sender's last transaction
    while its timestamp is greater; `k` counts positions from the end of the list -/
def findPos (tx : Tx) : List Tx → Nat → Option Nat → Option Nat
  | [], _, c => c
  | x :: rest, k, c =>
    if x.from_ = tx.from_ then
      if x.ts > tx.ts then findPos tx rest (k + 1) (some k) else c
    else findPos tx rest (k + 1) c

/-- transactionList.Add: a transaction whose id is already in the pool is refused; transactions
    of one sender are kept ordered by timestamp -/
def poolAdd (l : List Tx) (tx : Tx) : List Tx :=
  if l.any (fun x => x.id == tx.id) then l
  else
    match findPos tx l.reverse 0 none with
    | none => l ++ [tx]
    | some k =>
      let i := l.length - 1 - k
      l.take i ++ [tx] ++ l.drop i

def poolOf : List Tx → List Tx → List Tx
  | [], acc => acc
  | tx :: rest, acc => poolOf rest (poolAdd acc tx)

/-- validateTxs (window, cumulative PreValidate) -/
def validateTxs (e : Env) : List Tx → Bal → Option Bal
  | [], b => some b
  | tx :: rest, b =>
    if !inWindow e tx then none
    else match preValidate e b tx with
      | none => none
      | some b' => validateTxs e rest b'

/-- tracker.Add(list, force=false) on a tracker whose parent chain is finalized: no id twice, none included before -/
def idsFresh (has : Nat → Int → Bool) : List Tx → List Nat → Bool
  | [], _ => true
  | tx :: rest, seen => !seen.contains tx.id && !has tx.id tx.ts && idsFresh has rest (seen ++ [tx.id])

end Goloop.C37
