/-
  Model/C12Glue: the *glue* that stands for the Go standard library on the generated inputs
  (encoding/json to `interface{}` and to the transaction struct, json.Compact, base64, number
  text → int64(float64), strconv/big integer text).  Not the subject of theorems; the
  correspondence runs of C12 and C13 compare it with the real library on every case.
-/
import Goloop.Base.Sha3
import Goloop.Model.C12
namespace Goloop.C12.Glue
open Goloop Goloop.C12

/-! ### JSON text → value tree -/

def isWs (b : UInt8) : Bool := b == 0x20 || b == 0x09 || b == 0x0a || b == 0x0d

def skipWs : Bytes → Bytes
  | [] => []
  | b :: r => if isWs b then skipWs r else b :: r

def isDigit (b : UInt8) : Bool := 0x30 ≤ b && b ≤ 0x39

def hexVal (b : UInt8) : Option Nat :=
  if 0x30 ≤ b && b ≤ 0x39 then some (b.toNat - 0x30)
  else if 0x61 ≤ b && b ≤ 0x66 then some (b.toNat - 0x61 + 10)
  else if 0x41 ≤ b && b ≤ 0x46 then some (b.toNat - 0x41 + 10)
  else none

def utf8 (c : Nat) : Bytes :=
  if c < 0x80 then [UInt8.ofNat c]
  else if c < 0x800 then [UInt8.ofNat (0xc0 + c / 64), UInt8.ofNat (0x80 + c % 64)]
  else if c < 0x10000 then
    [UInt8.ofNat (0xe0 + c / 4096), UInt8.ofNat (0x80 + c / 64 % 64), UInt8.ofNat (0x80 + c % 64)]
  else
    [UInt8.ofNat (0xf0 + c / 262144), UInt8.ofNat (0x80 + c / 4096 % 64),
     UInt8.ofNat (0x80 + c / 64 % 64), UInt8.ofNat (0x80 + c % 64)]

def hex4 : Bytes → Option (Nat × Bytes)
  | a :: b :: c :: d :: r =>
    match hexVal a, hexVal b, hexVal c, hexVal d with
    | some w, some x, some y, some z => some (((w * 16 + x) * 16 + y) * 16 + z, r)
    | _, _, _, _ => none
  | _ => none

/-- after the opening quote: decoded bytes and the rest after the closing quote -/
def parseStrBody : Nat → Bytes → Bytes → Option (Bytes × Bytes)
  | 0, _, _ => none
  | fuel + 1, acc, bs =>
    match bs with
    | [] => none
    | b :: r =>
      if b == 0x22 then some (acc.reverse, r)
      else if b < 0x20 then none
      else if b == 0x5c then
        match r with
        | [] => none
        | e :: r2 =>
          let simple (c : UInt8) := parseStrBody fuel (c :: acc) r2
          if e == 0x22 then simple 0x22
          else if e == 0x5c then simple 0x5c
          else if e == 0x2f then simple 0x2f
          else if e == 0x62 then simple 0x08
          else if e == 0x66 then simple 0x0c
          else if e == 0x6e then simple 0x0a
          else if e == 0x72 then simple 0x0d
          else if e == 0x74 then simple 0x09
          else if e == 0x75 then
            match hex4 r2 with
            | none => none
            | some (u, r3) =>
              if 0xd800 ≤ u && u < 0xdc00 then
                -- high surrogate: needs \uDC00..DFFF
                match r3 with
                | 0x5c :: 0x75 :: r4 =>
                  match hex4 r4 with
                  | some (l, r5) =>
                    if 0xdc00 ≤ l && l < 0xe000 then
                      parseStrBody fuel ((utf8 (0x10000 + (u - 0xd800) * 1024 + (l - 0xdc00))).reverse ++ acc) r5
                    else parseStrBody fuel ((utf8 0xfffd).reverse ++ acc) r3
                  | none => parseStrBody fuel ((utf8 0xfffd).reverse ++ acc) r3
                | _ => parseStrBody fuel ((utf8 0xfffd).reverse ++ acc) r3
              else if 0xdc00 ≤ u && u < 0xe000 then parseStrBody fuel ((utf8 0xfffd).reverse ++ acc) r3
              else parseStrBody fuel ((utf8 u).reverse ++ acc) r3
          else none
      else parseStrBody fuel (b :: acc) r

def takeDigits : Bytes → Bytes × Bytes
  | [] => ([], [])
  | b :: r => if isDigit b then let (d, r') := takeDigits r; (b :: d, r') else ([], b :: r)

def digitsVal (ds : Bytes) : Nat := ds.foldl (fun a d => a * 10 + (d.toNat - 0x30)) 0

def bitLenN (v : Nat) : Nat := if v = 0 then 0 else Nat.log2 v + 1

/-- magnitude of `int64(float64(m/d))` before the range check: the IEEE-754 double nearest to
    the rational m/d (round half to even, 53-bit significand; what `strconv.ParseFloat` returns),
    truncated toward zero. -/
def f64Trunc (m d : Nat) : Nat :=
  if m = 0 ∨ d = 0 then 0
  else
    let e0 : Int := (bitLenN m : Int) - (bitLenN d : Int) - 53
    let quo (e : Int) : Nat × Nat × Nat :=
      let n' := m * 2 ^ (-e).toNat
      let d' := d * 2 ^ e.toNat
      (n' / d', n' % d', d')
    let e : Int := if (quo e0).1 ≥ 2 ^ 53 then e0 + 1 else e0
    let (q, r, d') := quo e
    let q' := if 2 * r > d' ∨ (2 * r = d' ∧ q % 2 = 1) then q + 1 else q
    if e ≥ 0 then q' * 2 ^ e.toNat else q' / 2 ^ (-e).toNat

/-- JSON number token → `int64(float64(value))` as `serializeValue` computes it.  Values whose
    double is outside the int64 range convert to -2^63 (the amd64 `CVTTSD2SI` result; Go leaves
    this conversion implementation-defined). -/
def parseNumber (bs : Bytes) : Option (Int × Bytes) :=
  let (neg, r0) := match bs with
    | 0x2d :: r => (true, r)
    | r => (false, r)
  let (ip, r1) := takeDigits r0
  if ip.isEmpty then none
  else if ip.length > 1 && ip.head? == some 0x30 then none
  else
    let (fp, r2, okf) := match r1 with
      | 0x2e :: r =>
        let (f, r') := takeDigits r
        (f, r', !f.isEmpty)
      | r => ([], r, true)
    if !okf then none
    else
      let (ex, r3, oke) : Int × Bytes × Bool := match r2 with
        | e :: r =>
          if e == 0x65 || e == 0x45 then
            let (sg, r') := match r with
              | 0x2b :: r' => (false, r')
              | 0x2d :: r' => (true, r')
              | r' => (false, r')
            let (d, r'') := takeDigits r'
            if d.isEmpty then (0, r'', false)
            else ((if sg then -(digitsVal d : Int) else (digitsVal d : Int)), r'', true)
          else (0, r2, true)
        | [] => (0, [], true)
      if !oke then none
      else
        -- value = digits(ip++fp) * 10^(ex - |fp|)
        let m := digitsVal (ip ++ fp)
        let e10 : Int := ex - fp.length
        let mag : Nat := f64Trunc (m * 10 ^ e10.toNat) (10 ^ (-e10).toNat)
        if mag ≥ 2 ^ 63 then some (-(2 : Int) ^ 63, r3)
        else some ((if neg then -(mag : Int) else (mag : Int)), r3)

def setKey (kvs : List (Bytes × JV)) (k : Bytes) (v : JV) : List (Bytes × JV) :=
  (kvs.filter (fun p => p.1 != k)) ++ [(k, v)]

def startsWith (p bs : Bytes) : Option Bytes :=
  if bs.take p.length == p then some (bs.drop p.length) else none

mutual
def parseVal : Nat → Bytes → Option (JV × Bytes)
  | 0, _ => none
  | fuel + 1, bs0 =>
    let bs := skipWs bs0
    match bs with
    | [] => none
    | b :: r =>
      if b == 0x22 then
        match parseStrBody (r.length + 1) [] r with
        | some (s, r') => some (.str s, r')
        | none => none
      else if b == 0x7b then
        match skipWs r with
        | 0x7d :: r' => some (.dict [], r')
        | r' => parseMembers fuel [] r'
      else if b == 0x5b then
        match skipWs r with
        | 0x5d :: r' => some (.list [], r')
        | r' => parseElems fuel [] r'
      else if b == 0x74 then (startsWith (asc "true") bs).map fun r' => (.bool true, r')
      else if b == 0x66 then (startsWith (asc "false") bs).map fun r' => (.bool false, r')
      else if b == 0x6e then (startsWith (asc "null") bs).map fun r' => (.null, r')
      else match parseNumber bs with
        | some (n, r') => some (.num n, r')
        | none => none
def parseElems : Nat → List JV → Bytes → Option (JV × Bytes)
  | 0, _, _ => none
  | fuel + 1, acc, bs =>
    match parseVal fuel bs with
    | none => none
    | some (v, r) =>
      match skipWs r with
      | 0x2c :: r' => parseElems fuel (v :: acc) r'
      | 0x5d :: r' => some (.list (v :: acc).reverse, r')
      | _ => none
def parseMembers : Nat → List (Bytes × JV) → Bytes → Option (JV × Bytes)
  | 0, _, _ => none
  | fuel + 1, acc, bs =>
    match skipWs bs with
    | 0x22 :: r =>
      match parseStrBody (r.length + 1) [] r with
      | none => none
      | some (k, r1) =>
        match skipWs r1 with
        | 0x3a :: r2 =>
          match parseVal fuel r2 with
          | none => none
          | some (v, r3) =>
            match skipWs r3 with
            | 0x2c :: r' => parseMembers fuel (setKey acc k v) r'
            | 0x7d :: r' => some (.dict (setKey acc k v), r')
            | _ => none
        | _ => none
    | _ => none
end

/-- `json.Unmarshal(bs, &interface{})` -/
def pj (bs : Bytes) : Option JV :=
  match parseVal (bs.length + 2) bs with
  | some (v, r) => if (skipWs r).isEmpty then some v else none
  | none => none

/-- top-level object members with the raw text of each value (for `json.RawMessage`) -/
def rawMembers : Nat → List (Bytes × Bytes × JV) → Bytes → Option (List (Bytes × Bytes × JV))
  | 0, _, _ => none
  | fuel + 1, acc, bs =>
    match skipWs bs with
    | 0x22 :: r =>
      match parseStrBody (r.length + 1) [] r with
      | none => none
      | some (k, r1) =>
        match skipWs r1 with
        | 0x3a :: r2 =>
          let r2' := skipWs r2
          match parseVal (r2'.length + 2) r2' with
          | none => none
          | some (v, r3) =>
            let raw := r2'.take (r2'.length - r3.length)
            let acc' := acc.filter (fun p => p.1 != k) ++ [(k, raw, v)]
            match skipWs r3 with
            | 0x2c :: r' => rawMembers fuel acc' r'
            | 0x7d :: _ => some acc'
            | _ => none
        | _ => none
    | _ => none

def topMembers (bs : Bytes) : Option (List (Bytes × Bytes × JV)) :=
  match skipWs bs with
  | 0x7b :: r =>
    match skipWs r with
    | 0x7d :: _ => some []
    | r' => rawMembers (bs.length + 1) [] r'
  | _ => none

/-- `json.Compact`: drop whitespace outside strings (input already known to be valid JSON) -/
def compactAux : Bool → Bool → Bytes → Bytes
  | _, _, [] => []
  | inStr, esc, b :: r =>
    if inStr then
      if esc then b :: compactAux true false r
      else if b == 0x5c then b :: compactAux true true r
      else if b == 0x22 then b :: compactAux false false r
      else b :: compactAux true false r
    else if isWs b then compactAux false false r
    else if b == 0x22 then b :: compactAux true false r
    else b :: compactAux false false r

def compact (bs : Bytes) : Option Bytes :=
  match pj bs with
  | some _ => some (compactAux false false bs)
  | none => none

/-! ### struct unmarshalling glue (common.HexInt, HexInt64, Address, Signature) -/

def hexDigitsVal (ds : Bytes) : Option Nat :=
  ds.foldl (fun acc c => match acc, hexVal c with
    | some a, some d => some (a * 16 + d)
    | _, _ => none) (some 0)

def decDigitsVal (ds : Bytes) : Option Nat :=
  ds.foldl (fun acc c => match acc with
    | some a => if isDigit c then some (a * 10 + (c.toNat - 0x30)) else none
    | none => none) (some 0)

/-- `intconv.ParseBigInt` on: optional '-', then `0x`+hex digits or decimal digits -/
def parseBigInt (s : Bytes) : Option Int :=
  let (neg, body) := match s with
    | 0x2d :: r => (true, r)
    | r => (false, r)
  let mag : Option Nat := match body with
    | 0x30 :: 0x78 :: ds => if ds.isEmpty then none else hexDigitsVal ds
    | [] => none
    | ds => decDigitsVal ds
  mag.map fun m => if neg then -(m : Int) else (m : Int)

/-- `strconv.ParseInt(s, 0, 64)` on: optional '-', `0x`/`0X`+hex digits, or decimal without
    leading zero -/
def parseInt64 (s : Bytes) : Option Int :=
  let (neg, body) := match s with
    | 0x2d :: r => (true, r)
    | r => (false, r)
  let mag : Option Nat := match body with
    | 0x30 :: 0x78 :: ds => if ds.isEmpty then none else hexDigitsVal ds
    | 0x30 :: 0x58 :: ds => if ds.isEmpty then none else hexDigitsVal ds
    | [0x30] => some 0
    | 0x30 :: _ => none
    | [] => none
    | ds => decDigitsVal ds
  match mag with
  | none => none
  | some m =>
    let v : Int := if neg then -(m : Int) else (m : Int)
    if v < -(2:Int)^63 || v ≥ (2:Int)^63 then none else some v

def hexPairs : Bytes → Option Bytes
  | [] => some []
  | [_] => none
  | a :: b :: r =>
    match hexVal a, hexVal b, hexPairs r with
    | some x, some y, some t => some (UInt8.ofNat (x * 16 + y) :: t)
    | _, _, _ => none

/-- `Address.SetString` -/
def parseAddr (s : Bytes) : Option Bytes :=
  let (ic, body) := match s with
    | 0x63 :: 0x78 :: r => (true, r)
    | 0x68 :: 0x78 :: r => (false, r)
    | 0x30 :: 0x78 :: r => (false, r)
    | r => (false, r)
  let body' := if body.length % 2 == 1 then 0x30 :: body else body
  match hexPairs body' with
  | none => none
  | some id =>
    let id20 := if id.length < 20 then List.replicate (20 - id.length) 0 ++ id else id.take 20
    some ((if ic then 1 else 0) :: id20)

def b64Val (c : UInt8) : Option Nat :=
  if 0x41 ≤ c && c ≤ 0x5a then some (c.toNat - 0x41)
  else if 0x61 ≤ c && c ≤ 0x7a then some (c.toNat - 0x61 + 26)
  else if 0x30 ≤ c && c ≤ 0x39 then some (c.toNat - 0x30 + 52)
  else if c == 0x2b then some 62
  else if c == 0x2f then some 63
  else none

/-- `base64.StdEncoding.DecodeString` (strict padding; no line breaks in the inputs used) -/
def b64Decode : Bytes → Option Bytes
  | [] => some []
  | [a, b, 0x3d, 0x3d] =>
    match b64Val a, b64Val b with
    | some x, some y => if y % 16 == 0 then some [UInt8.ofNat (x * 4 + y / 16)] else none
    | _, _ => none
  | [a, b, c, 0x3d] =>
    match b64Val a, b64Val b, b64Val c with
    | some x, some y, some z =>
      if z % 4 == 0 then some [UInt8.ofNat (x * 4 + y / 16), UInt8.ofNat (y % 16 * 16 + z / 4)]
      else none
    | _, _, _ => none
  | a :: b :: c :: d :: r =>
    match b64Val a, b64Val b, b64Val c, b64Val d, b64Decode r with
    | some x, some y, some z, some w, some t =>
      some (UInt8.ofNat (x * 4 + y / 16) :: UInt8.ofNat (y % 16 * 16 + z / 4)
        :: UInt8.ofNat (z % 4 * 64 + w) :: t)
    | _, _, _, _, _ => none
  | _ => none

def isIntToken (raw : Bytes) : Bool :=
  let body := match raw with
    | 0x2d :: r => r
    | r => r
  !body.isEmpty && body.all isDigit

/-- a `HexInt` field: JSON string → ParseBigInt; bare integer token → SetString(token, 0) -/
def umBig (raw : Bytes) (v : JV) : Option Int :=
  match v with
  | .str s => parseBigInt s
  | .num _ => if isIntToken raw then parseBigInt raw else none
  | _ => none

def umI64 (raw : Bytes) (v : JV) : Option Int :=
  match v with
  | .str s => parseInt64 s
  | .num _ => if isIntToken raw then parseInt64 raw else none
  | _ => none

def look (ms : List (Bytes × Bytes × JV)) (k : String) : Option (Bytes × JV) :=
  (ms.find? (fun m => m.1 == asc k)).map (·.2)

def optField {α : Type} (ms : List (Bytes × Bytes × JV)) (k : String)
    (f : Bytes → JV → Option α) : Option (Option α) :=
  match look ms k with
  | none => some none
  | some (_, .null) => some none
  | some (raw, v) => (f raw v).map some

def reqField {α : Type} (ms : List (Bytes × Bytes × JV)) (k : String) (dflt : α)
    (f : Bytes → JV → Option α) : Option α :=
  match look ms k with
  | none => some dflt
  | some (raw, v) => f raw v

def zeroAddr : Bytes := List.replicate 21 0

/-- `json.Unmarshal(js, &transactionJSON{})` → the embedded transactionV3Data -/
def um (js : Bytes) : Option TxData := do
  let ms ← topMembers js
  let ver ← reqField ms "version" (2 : Int) umI64
  if ver < 0 || ver ≥ 65536 then none
  let fr ← reqField ms "from" zeroAddr (fun _ v => match v with | .str s => parseAddr s | _ => none)
  let to ← reqField ms "to" zeroAddr (fun _ v => match v with | .str s => parseAddr s | _ => none)
  let value ← optField ms "value" umBig
  let step ← reqField ms "stepLimit" (0 : Int) umBig
  let ts ← reqField ms "timestamp" (0 : Int) umI64
  let nid ← optField ms "nid" umI64
  let nonce ← optField ms "nonce" umBig
  let sg ← reqField ms "signature" ([] : Bytes) (fun _ v => match v with
    | .str s =>
      if s.isEmpty then some []
      else match b64Decode s with
        | some b => if b.length == 64 || b.length == 65 then some b else none
        | none => none
    | _ => none)
  let dt ← optField ms "dataType" (fun _ v => match v with | .str s => some s | _ => none)
  let data := (look ms "data").map (·.1)
  -- fee / txHash / tx_hash members of transactionJSON must parse too when present
  let _ ← reqField ms "fee" (0 : Int) umBig
  pure { version := ver.toNat, from_ := fr, to := to, value := value, stepLimit := step,
         timestamp := ts, nid := nid, nonce := nonce, signature := sg, dataType := dt,
         data := data }

def env : Env := { H := sha3_256, pj := pj, um := um, compact := compact }

end Goloop.C12.Glue
