/-
  Model/C03: byte-exact model of the consensus write-ahead log, consensus/wal.go.

  What is transcribed (branch by branch):
    * `walWriter.WriteBytes`  → `frame`, `bufWrite` (bufio.Writer of size 4096 in front of the tail file)
    * `walWriter.sync/shift`  → `Writer.sync`, `Writer.shift`
    * `walWriter.doHousekeeping` → `Writer.housekeep` (shift when the on-disk tail is over FileLimit,
       time based sync, retire loop over head segments)
    * `OpenWALForWrite`       → `openWriter`
    * `OpenWALForRead` + `walReader.ReadBytes` → `readBytes`, `readAll`
      (io.MultiReader over all segments = the concatenation of the files)
    * the recovery loop of consensus.go (`applyRoundWAL`/`applyLockWAL`/`applyCommitWAL`:
      read until EOF → Close, or CorruptedWAL/UnexpectedEOF → CloseAndRepair) → `recover`
    * `walReader.CloseAndRepair` → `repairLoop`
    * a crash: the tail file keeps all fsync'ed bytes plus any k-byte prefix of the bytes
      written since (flushed to the OS or still in the bufio buffer) → `Writer.crash`

  Crash points INSIDE functions (file-system effects in the order the code issues them, each
  directory operation atomic): `Writer.crashInShift` (flush, fsync, create next segment) and
  `recoverPartial` (CloseAndRepair: remove the later segments from the tail downwards, then
  truncate the segment holding the valid end).

  The model describes the REPAIRED code (fixes/F2_wal_repair.diff, F2b_…, F2c_…):
    F2   CloseAndRepair removed `fileFor(id, idx)` instead of `fileFor(id, i)`;
    F2b  ReadBytes reported a frame whose header is complete but whose payload is
         entirely missing as a clean io.EOF, so the torn header was never repaired.
    F2c  CloseAndRepair truncated first and removed the later segments in ascending order: a
         crash between two removes left a hole in the segment numbering, after which
         OpenWALForRead fails with ENOENT and consensus.applyWAL treats the WAL as absent.
  The original behaviour is kept in namespace `Orig` for the witness theorems.

  The CRC function is a parameter (`crc : Bytes → UInt32`); `crc32c` below is the
  executable table-driven CRC-32C (Castagnoli, as `crc32.MakeTable(crc32.Castagnoli)`)
  used by the driver and validated against hash/crc32 by the correspondence run.

  Core Lean only. Main definitions for reuse (C02): `frame`, `frames`, `readBytes`,
  `readAll`, `repairLoop`, `Disk`, `Writer`, `openWriter`, `Writer.write/sync/shift/crash/close`,
  `recover`, `Op`, `Sys`, `stepOp`, `run`, and the bookkeeping `Ghost`, `stepGhost`, `runG`.
-/
import Goloop.Base.Bytes
namespace Goloop.C03

/-! ## constants of wal.go -/

/-- `headerLen` -/
def headerLen : Nat := 8
/-- `configWALBufSize` -/
def bufSize : Nat := 4096

/-! ## CRC-32C (Castagnoli), table driven -/

def crcPolyRev : UInt32 := 0x82F63B78

def crcTableEntry (i : Nat) : UInt32 :=
  let step := fun (c : UInt32) => if c &&& 1 = 1 then (c >>> 1) ^^^ crcPolyRev else c >>> 1
  step (step (step (step (step (step (step (step (UInt32.ofNat i))))))))

def crcTable : Array UInt32 := Array.ofFn (n := 256) fun i => crcTableEntry i.val

def crcUpdate (c : UInt32) (b : UInt8) : UInt32 :=
  crcTable[((c ^^^ b.toUInt32) &&& 0xFF).toNat]! ^^^ (c >>> 8)

/-- `crc32.Checksum(payload, crc32c)` -/
def crc32c (bs : Bytes) : UInt32 := (bs.foldl crcUpdate 0xFFFFFFFF) ^^^ 0xFFFFFFFF

/-! ## frame layout (walWriter.WriteBytes) -/

/-- `binary.BigEndian.PutUint32(_, uint32(n))` -/
def be32 (n : Nat) : Bytes :=
  [UInt8.ofNat (n / 2 ^ 24 % 256), UInt8.ofNat (n / 2 ^ 16 % 256), UInt8.ofNat (n / 2 ^ 8 % 256), UInt8.ofNat (n % 256)]

/-- one record on disk: crc(4, big endian) ++ len(4, big endian) ++ payload -/
def frame (crc : Bytes → UInt32) (p : Bytes) : Bytes :=
  be32 (crc p).toNat ++ be32 p.length ++ p

/-- the byte stream of a list of records -/
def frames (crc : Bytes → UInt32) : List Bytes → Bytes
  | [] => []
  | p :: ps => frame crc p ++ frames crc ps

/-- `bufio.Writer.Write(p)` with buffer size `bufSize` on top of file content `file`
    (`buf` = buffered bytes). Returns the new (file, buf). -/
def bufWrite (file buf p : Bytes) : Bytes × Bytes :=
  if p.length ≤ bufSize - buf.length then
    (file, buf ++ p)                         -- fits: copy into the buffer
  else if buf.length = 0 then
    (file ++ p, [])                          -- large write, empty buffer: written directly
  else
    let n := bufSize - buf.length            -- fill the buffer, flush it
    let file' := file ++ (buf ++ p.take n)
    let p' := p.drop n
    if p'.length ≤ bufSize then (file', p')  -- remainder fits into the (now empty) buffer
    else (file' ++ p', [])                   -- remainder written directly

/-! ## reader (walReader.ReadBytes over io.MultiReader of all segments) -/

inductive ReadEnd where
  | eof             -- io.EOF
  | unexpectedEOF   -- io.ErrUnexpectedEOF
  | corrupted       -- errCorruptedWAL
  deriving DecidableEq, Repr

/-- One `ReadBytes` call on the remaining stream `s`: payload and remaining stream, or the error.
    (repaired code: a missing payload after a complete header is ErrUnexpectedEOF) -/
def readBytes (crc : Bytes → UInt32) (s : Bytes) : Except ReadEnd (Bytes × Bytes) :=
  if s.length = 0 then .error .eof                      -- io.ReadAtLeast read nothing
  else if s.length < headerLen then .error .unexpectedEOF
  else
    let crcR := beNat (s.take 4)
    let len := beNat ((s.drop 4).take 4)
    let rest := s.drop headerLen
    if rest.length < len then .error .unexpectedEOF     -- includes rest = [] (F2b repaired)
    else
      let payload := rest.take len
      if (crc payload).toNat ≠ crcR then .error .corrupted
      else .ok (payload, rest.drop len)

/-- "the checksum detects it": the CRC field stored in the first 4 bytes of `B` differs from the
    CRC of the bytes the reader is going to check (the `len` bytes after the 8-byte header, `len`
    being the stored length field). The hypothesis of the corruption theorems. -/
def CrcRejects (crc : Bytes → UInt32) (B : Bytes) : Prop :=
  (crc ((B.drop headerLen).take (beNat ((B.drop 4).take 4)))).toNat ≠ beNat (B.take 4)

/-- the recovery loop: read records until the first error.
    Returns (records, validOffset, how it ended). `validOffset += int64(headerLen + payloadLen)`
    is a uint32 addition in Go. -/
def readAllF (crc : Bytes → UInt32) : Nat → Bytes → List Bytes × Nat × ReadEnd
  | 0, _ => ([], 0, .eof)
  | fuel + 1, s =>
    match readBytes crc s with
    | .error e => ([], 0, e)
    | .ok (p, rest) =>
      let r := readAllF crc fuel rest
      (p :: r.1, (headerLen + p.length) % 2 ^ 32 + r.2.1, r.2.2)

def readAll (crc : Bytes → UInt32) (s : Bytes) : List Bytes × Nat × ReadEnd :=
  readAllF crc (s.length + 1) s

/-! ## CloseAndRepair (repaired: removes fileFor(id, i)) -/

/-- loop over `wi.fileSizes`: the first segment with `left <= size` is truncated to `left`
    (if `left < size`), all later segments are removed. -/
def repairLoop : Nat → List Bytes → List Bytes
  | _, [] => []
  | left, s :: rest =>
    if left ≤ s.length then
      [if left < s.length then s.take left else s]
    else s :: repairLoop (left - s.length) rest

/-- position (in the file list) of the segment at which the loop of CloseAndRepair stops
    (`fs.length` if it never stops) -/
def cutIndex : Nat → List Bytes → Nat
  | _, [] => 0
  | left, s :: rest => if left ≤ s.length then 0 else 1 + cutIndex (left - s.length) rest

/-- value of `left` when the loop stops -/
def cutLeft : Nat → List Bytes → Nat
  | left, [] => left
  | left, s :: rest => if left ≤ s.length then left else cutLeft (left - s.length) rest

/-- The files after the first `j` file-system effects of CloseAndRepair (valid offset `v`).
    Effects in the order of the repaired code: `os.Remove` of the later segments from the tail
    downwards, then `os.Truncate` of the segment holding the valid end (if `left < size`). -/
def repairPartial (v j : Nat) (fs : List Bytes) : List Bytes :=
  if j ≤ fs.length - (cutIndex v fs + 1) then fs.take (fs.length - j)   -- j removes happened
  else repairLoop v fs                                                   -- all removes and the truncate

/-- the effects themselves (segment indices are absolute), for the correspondence run -/
inductive FsEffect where
  | remove (idx : Nat)
  | truncate (idx : Nat) (len : Nat)
  | write (idx : Nat)
  | create (idx : Nat)
  deriving Repr, DecidableEq

def repairEffects (head v : Nat) (fs : List Bytes) : List FsEffect :=
  let c := cutIndex v fs
  if c ≥ fs.length then []
  else
    ((List.range (fs.length - (c + 1))).map fun i => FsEffect.remove (head + fs.length - 1 - i))
    ++ (if cutLeft v fs < (fs.getD c []).length then [FsEffect.truncate (head + c) (cutLeft v fs)] else [])

/-! ## disk, writer -/

/-- the segment files `<id>_<head>`, `<id>_<head+1>`, … (contiguous; every operation of the
    repaired code keeps them contiguous) -/
structure Disk where
  head : Nat := 0
  files : List Bytes := []
  deriving Repr, DecidableEq

structure Cfg where
  fileLimit : Nat := 2097152
  totalLimit : Nat := 8388608
  /-- `SyncInterval` already elapsed whenever housekeeping runs (true) or never (false) -/
  syncDue : Bool := false
  deriving Repr, DecidableEq

/-- an open `walWriter` together with the files -/
structure Writer where
  cfg : Cfg := {}
  head : Nat := 0
  older : List Bytes := []     -- segments head … tailIdx-1
  tail : Bytes := []           -- content of the tail file as the OS has it
  buf : Bytes := []            -- bufio buffer
  synced : Nat := 0            -- length of the tail file that is durable
  dirty : Bool := false        -- eldestUnsyncData != nil
  tailUnlinked : Bool := false -- housekeeping removed the open tail file (TotalLimit < FileLimit only)
  deriving Repr, DecidableEq

def Writer.tailIdx (w : Writer) : Nat := w.head + w.older.length
def Writer.files (w : Writer) : List Bytes := w.older ++ [w.tail]
def Writer.disk (w : Writer) : Disk := { head := w.head, files := w.files }

/-- `OpenWALForWrite`: tail = highest index (index 0 is created when there is no file) -/
def openWriter (cfg : Cfg) (d : Disk) : Writer :=
  match d.files.getLast? with
  | none => { cfg := cfg, head := 0, older := [], tail := [], synced := 0 }
  | some t => { cfg := cfg, head := d.head, older := d.files.dropLast, tail := t, synced := t.length }

/-- `WriteBytes` -/
def Writer.write (crc : Bytes → UInt32) (w : Writer) (p : Bytes) : Writer :=
  let r := bufWrite w.tail w.buf (frame crc p)
  { w with tail := r.1, buf := r.2, dirty := true }

/-- `sync`: flush + fsync -/
def Writer.sync (w : Writer) : Writer :=
  { w with tail := w.tail ++ w.buf, buf := [], synced := (w.tail ++ w.buf).length, dirty := false }

/-- `shift`: sync, close, open `<id>_<tailIdx+1>` -/
def Writer.shift (w : Writer) : Writer :=
  let w1 := w.sync
  { w1 with older := w1.older ++ [w1.tail], tail := [], synced := 0 }

/-- retire loop of doHousekeeping over the head segments: returns (#removed, remaining total). -/
def retireLoop (limit : Nat) : Nat → List Bytes → Nat × Nat
  | total, [] => (0, total)
  | total, s :: rest =>
    if total > limit then
      let r := retireLoop limit (total - s.length) rest
      (r.1 + 1, r.2)
    else (0, total)

/-- `doHousekeeping` -/
def Writer.housekeep (w : Writer) : Writer :=
  let total := (w.files.map List.length).sum      -- readWALInfo, before anything else
  let w1 :=
    if w.tail.length > w.cfg.fileLimit then w.shift
    else if w.dirty && w.cfg.syncDue then w.sync
    else w
  -- files are Stat'ed when removed (sizes after the shift's flush); int64 going negative stops the loop
  let r := retireLoop w.cfg.totalLimit total w1.older
  let w2 := { w1 with head := w1.head + r.1, older := w1.older.drop r.1 }
  if r.1 = w1.older.length ∧ r.2 > w.cfg.totalLimit then
    { w2 with tailUnlinked := true }              -- would remove the open tail as well
  else w2

/-- crash: nothing is closed; the tail file keeps the durable bytes and a `k`-byte prefix of
    everything written since the last sync -/
def Writer.crash (w : Writer) (k : Nat) : Disk :=
  { head := w.head, files := w.older ++ [(w.tail ++ w.buf).take (w.synced + k)] }

/-- `Close`: sync and close -/
def Writer.close (w : Writer) : Disk := w.sync.disk

/-- crash inside `shift` after `j` of its file-system effects: 1 = buffer flushed to the OS,
    2 = old tail fsync'ed, 3 = next segment created (the in-memory switch of the writer dies with the
    process). Before the fsync the tail keeps its durable bytes plus `k` of the others. -/
def Writer.crashInShift (w : Writer) (j k : Nat) : Disk :=
  if j < 2 then w.crash k
  else if j = 2 then w.sync.crash 0
  else w.shift.crash 0

def shiftEffects (w : Writer) : List FsEffect :=
  (if w.buf.length = 0 then [] else [FsEffect.write w.tailIdx]) ++ [FsEffect.create (w.tailIdx + 1)]

/-- recovery as in consensus.go: `none` when OpenWALForRead fails (no file). -/
def recover (crc : Bytes → UInt32) (d : Disk) : Option (List Bytes × ReadEnd × Disk) :=
  if d.files = [] then none
  else
    let r := readAll crc d.files.flatten
    match r.2.2 with
    | .eof => some (r.1, .eof, d)
    | e => some (r.1, e, { d with files := repairLoop r.2.1 d.files })

/-- a recovery whose CloseAndRepair dies after `j` file-system effects: what is left on disk -/
def recoverPartial (crc : Bytes → UInt32) (j : Nat) (d : Disk) : Disk :=
  if d.files = [] then d
  else
    let r := readAll crc d.files.flatten
    match r.2.2 with
    | .eof => d
    | _ => { d with files := repairPartial r.2.1 j d.files }

/-- where the writer process dies -/
inductive CrashPoint where
  | appending (k : Nat)        -- outside Shift: k unsynced bytes survive
  | inShift (j k : Nat)        -- inside Shift after j effects
  deriving Repr

def Writer.crashAt (w : Writer) : CrashPoint → Disk
  | .appending k => w.crash k
  | .inShift j k => w.crashInShift j k

/-! ## histories -/

inductive Op where
  | write (p : Bytes)
  | sync
  | shift
  | housekeep
  | crashRecover (k : Nat)   -- crash keeping k unsynced bytes, recover (read + repair), reopen for append
  | restart                  -- clean Close, recover, reopen
  /-- crash at `p`; then one recovery attempt per element of `js`, each dying inside CloseAndRepair
      after that many file-system effects; then a recovery that completes, reopen -/
  | crashAt (p : CrashPoint) (js : List Nat)
  deriving Repr

abbrev Sys := Writer

def Sys.init (cfg : Cfg) : Sys := openWriter cfg {}

def recoverReopen (crc : Bytes → UInt32) (cfg : Cfg) (d : Disk) : Sys × List Bytes :=
  match recover crc d with
  | none => (openWriter cfg d, [])
  | some (recs, _, d') => (openWriter cfg d', recs)

/-- one step; the second component is what the recovery returned (`[]` for other ops) -/
def stepOp (crc : Bytes → UInt32) (w : Sys) : Op → Sys × List Bytes
  | .write p => (w.write crc p, [])
  | .sync => (w.sync, [])
  | .shift => (w.shift, [])
  | .housekeep => (w.housekeep, [])
  | .crashRecover k => recoverReopen crc w.cfg (w.crash k)
  | .crashAt p js => recoverReopen crc w.cfg (js.foldl (fun d j => recoverPartial crc j d) (w.crashAt p))
  | .restart => recoverReopen crc w.cfg w.close

def run (crc : Bytes → UInt32) (w : Sys) : List Op → Sys
  | [] => w
  | op :: ops => run crc (stepOp crc w op).1 ops

/-! ## history bookkeeping used by the property statements

  `Ghost.log` = the records appended so far that were not lost in an earlier crash
  (after a recovery: exactly what that recovery returned); the first `nsynced` of them
  were made durable by `Sync`/`Shift`/`Close` or survived a crash. -/

structure Ghost where
  log : List Bytes := []
  nsynced : Nat := 0
  /-- number of records removed so far by the retention of housekeeping rounds -/
  retired : Nat := 0
  deriving Repr

/-- what a housekeeping round starts from: shift if the tail file is over FileLimit, else the
    time based sync -/
def hkBase (w : Writer) : Writer :=
  if w.tail.length > w.cfg.fileLimit then w.shift
  else if w.dirty && w.cfg.syncDue then w.sync
  else w

/-- the durable records -/
def Ghost.durable (g : Ghost) : List Bytes := g.log.take g.nsynced

def stepGhost (crc : Bytes → UInt32) (w : Sys) (g : Ghost) : Op → Ghost
  | .write p => { g with log := g.log ++ [p] }
  | .sync => { g with nsynced := g.log.length }
  | .shift => { g with nsynced := g.log.length }
  | .housekeep =>
    -- the records held by the removed head segments leave the log (retention)
    let b := hkBase w
    let j := w.housekeep.head - b.head
    let removed := (readAll crc (b.older.take j).flatten).1.length
    let n1 := if w.tail.length > w.cfg.fileLimit ∨ (w.dirty && w.cfg.syncDue) = true then g.log.length else g.nsynced
    { log := g.log.drop removed, nsynced := n1 - removed, retired := g.retired + removed }
  | .crashRecover k => let r := (stepOp crc w (.crashRecover k)).2; { g with log := r, nsynced := r.length }
  | .crashAt p js => let r := (stepOp crc w (.crashAt p js)).2; { g with log := r, nsynced := r.length }
  | .restart => let r := (stepOp crc w .restart).2; { g with log := r, nsynced := r.length }

/-- system and bookkeeping run side by side -/
def runG (crc : Bytes → UInt32) (w : Sys) (g : Ghost) : List Op → Sys × Ghost
  | [] => (w, g)
  | op :: ops => runG crc (stepOp crc w op).1 (stepGhost crc w g op) ops

/-- histories covered by the record-level theorems: payloads shorter than 2^32-8 bytes
    (the length field is a uint32). -/
def Op.plain : Op → Prop
  | .write p => p.length + 8 < 2 ^ 32
  | _ => True

/-- the ops that end in a recovery after a crash -/
def Op.isCrash : Op → Prop
  | .crashRecover _ => True
  | .crashAt _ _ => True
  | _ => False

/-! ## original (unrepaired) behaviour, for the witness theorems only -/
namespace Orig

/-- CloseAndRepair with F2 repaired but the original order of effects (truncate first, then
    `os.Remove` of the later segments in ASCENDING order), on files given with their index:
    the files after the first `j` effects. -/
def repairPartialAsc (v j : Nat) (fs : List (Nat × Bytes)) : List (Nat × Bytes) :=
  let bs := fs.map (·.2)
  let c := cutIndex v bs
  match fs.drop c with
  | [] => fs
  | (i, s) :: later =>
    let need : Bool := decide (cutLeft v bs < s.length)
    let t := if need then 1 else 0
    let s' := if need && decide (j ≥ 1) then s.take (cutLeft v bs) else s
    fs.take c ++ [(i, s')] ++ later.drop (j - t)

/-- `OpenWALForRead` opens every index from the lowest to the highest one; a missing one is an
    ENOENT error, which consensus.applyWAL takes for "there is no WAL". -/
def openable (fs : List (Nat × Bytes)) : Bool :=
  match fs with
  | [] => false
  | (i, _) :: _ => fs.map (·.1) == List.range' i fs.length

/-- original ReadBytes: a complete header followed by no payload byte at all is a clean io.EOF -/
def readBytes (crc : Bytes → UInt32) (s : Bytes) : Except ReadEnd (Bytes × Bytes) :=
  if s.length = 0 then .error .eof
  else if s.length < headerLen then .error .unexpectedEOF
  else
    let crcR := beNat (s.take 4)
    let len := beNat ((s.drop 4).take 4)
    let rest := s.drop headerLen
    if len ≠ 0 ∧ rest.length = 0 then .error .eof
    else if rest.length < len then .error .unexpectedEOF
    else
      let payload := rest.take len
      if (crc payload).toNat ≠ crcR then .error .corrupted
      else .ok (payload, rest.drop len)

def readAllF (crc : Bytes → UInt32) : Nat → Bytes → List Bytes × Nat × ReadEnd
  | 0, _ => ([], 0, .eof)
  | fuel + 1, s =>
    match readBytes crc s with
    | .error e => ([], 0, e)
    | .ok (p, rest) =>
      let r := readAllF crc fuel rest
      (p :: r.1, (headerLen + p.length) % 2 ^ 32 + r.2.1, r.2.2)

def readAll (crc : Bytes → UInt32) (s : Bytes) : List Bytes × Nat × ReadEnd :=
  readAllF crc (s.length + 1) s

/-- original CloseAndRepair on files given with their index: the inner loop removes
    `fileFor(id, idx)` (the segment holding the valid end) once; a second iteration fails
    with ENOENT (`none` = error returned after the first removal took effect is modelled
    by just keeping the state). Result: the files that remain. -/
def repairLoop : Nat → List (Nat × Bytes) → List (Nat × Bytes)
  | _, [] => []
  | left, (i, s) :: rest =>
    if left ≤ s.length then
      if rest = [] then [(i, if left < s.length then s.take left else s)]
      else rest                    -- `<id>_<idx>` itself is removed, the later segments stay
    else (i, s) :: repairLoop (left - s.length) rest

end Orig

end Goloop.C03
