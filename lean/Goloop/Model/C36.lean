/-
  Model/C36: common.Address text and byte forms (common/address.go) and the JSON-RPC address
  validators (server/jsonrpc/validator.go), transcribed function by function.

  Go strings are byte strings, so text is modelled as `Bytes` (the UTF-8 bytes).  The Go type
  `Address` is `[21]byte`; it is modelled as a `Bytes` value and the fact that it has 21 bytes and
  a type byte 0/1 is the *constructor invariant* `Valid`, which every setter establishes
  (proved) and which the printing theorems assume explicitly.
-/
import Goloop.Base.Bytes
namespace Goloop.C36

abbrev Address := Bytes

/-- the invariant established by every constructor/setter: 21 bytes, type byte 0 (account) or 1 (contract) -/
def Valid (a : Address) : Prop := ∃ t id, a = t :: id ∧ id.length = 20 ∧ (t = 0 ∨ t = 1)

/-! ### encoding/hex on byte strings -/

/-- ASCII code of the lower-case hex digit -/
def hexDigitCode (n : Nat) : Nat := if n < 10 then 48 + n else 87 + n
def hexDigitB (n : Nat) : UInt8 := UInt8.ofNat (hexDigitCode n)

/-- `hex.EncodeToString` -/
def hexEncodeB (bs : Bytes) : Bytes := bs.flatMap (fun b => [hexDigitB (b.toNat / 16), hexDigitB (b.toNat % 16)])

/-- `hex.fromHexChar` on the byte code -/
def fromHexCode (c : Nat) : Option Nat :=
  if 48 ≤ c ∧ c ≤ 57 then some (c - 48)
  else if 97 ≤ c ∧ c ≤ 102 then some (c - 97 + 10)
  else if 65 ≤ c ∧ c ≤ 70 then some (c - 65 + 10)
  else none

/-- `hex.DecodeString`: every error (bad character, odd length) is `none`. -/
def hexDecodeB : Bytes → Option Bytes
  | [] => some []
  | [_] => none
  | a :: b :: rest =>
    match fromHexCode a.toNat, fromHexCode b.toNat with
    | some x, some y =>
      match hexDecodeB rest with
      | some r => some (UInt8.ofNat (x * 16 + y) :: r)
      | none => none
    | _, _ => none

/-! ### Address -/

/-- `SetTypeAndID`: short ids are left-padded with zeros, long ids are truncated to their first 20 bytes. -/
def setTypeAndID (ic : Bool) (id : Bytes) : Address :=
  (if ic then 1 else 0) ::
    (if id.length < 20 then List.replicate (20 - id.length) 0 ++ id else id.take 20)

/-- `String()`: only type byte 1 prints as `cx`; everything else prints as `hx`. -/
def toString (a : Address) : Bytes :=
  match a with
  | [] => []            -- unreachable for a [21]byte
  | t :: id => (if t = 1 then [99, 120] else [104, 120]) ++ hexEncodeB id

/-- `strings.ToLower(body) != body`.  For a pure-ASCII body this is "contains A–Z".  For a body with a
    byte ≥ 0x80 the Go result depends on the Unicode tables, but `hex.DecodeString` rejects such a body
    on the next line anyway; the model rejects it here (all errors are one outcome, `none`). -/
def lowerDiffers (body : Bytes) : Bool := body.any (fun c => (65 ≤ c.toNat ∧ c.toNat ≤ 90) ∨ c.toNat ≥ 128)

def strictBody (ic : Bool) (body : Bytes) : Option Address :=
  if lowerDiffers body then none
  else match hexDecodeB body with
    | none => none
    | some b => some (setTypeAndID ic b)

/-- `SetStringStrict` -/
def setStringStrict (s : Bytes) : Option Address :=
  if s.length ≠ 42 then none
  else match s with
    | p0 :: p1 :: body =>
      if p0 = 99 ∧ p1 = 120 then strictBody true body          -- "cx"
      else if p0 = 104 ∧ p1 = 120 then strictBody false body   -- "hx"
      else none
    | _ => none

/-- the part of `SetString` after the prefix switch -/
def setStringBody (ic : Bool) (s1 : Bytes) : Option Address :=
  let s2 := if s1.length % 2 = 1 then 48 :: s1 else s1
  match hexDecodeB s2 with
  | none => none
  | some b => some (setTypeAndID ic b)

/-- `SetString` (lenient; also behind `UnmarshalJSON`): optional `cx`/`hx`/`0x`, odd length padded with
    a `0`, upper-case digits accepted, any length (padded/truncated by `SetTypeAndID`). -/
def setString (s : Bytes) : Option Address :=
  match s with
  | p0 :: p1 :: rest =>
    if p0 = 99 ∧ p1 = 120 then setStringBody true rest         -- "cx"
    else if p0 = 104 ∧ p1 = 120 then setStringBody false rest  -- "hx"
    else if p0 = 48 ∧ p1 = 120 then setStringBody false rest   -- "0x"
    else setStringBody false s
  | _ => setStringBody false s

/-- `Bytes()` -/
def bytes (a : Address) : Bytes := a

/-- `SetBytes`: 21 bytes with type byte 0/1, or 20 bytes (account). -/
def setBytes (b : Bytes) : Option Address :=
  if b.length = 21 then
    match b with
    | t :: _ => if t = 0 ∨ t = 1 then some b else none
    | [] => none
  else if b.length = 20 then some (0 :: b)
  else none

/-! ### server/jsonrpc validator: `^hx[0-9a-f]{40}$`, `^cx[0-9a-f]{40}$` -/

def isLowerHexB (c : UInt8) : Bool := (48 ≤ c.toNat ∧ c.toNat ≤ 57) ∨ (97 ≤ c.toNat ∧ c.toNat ≤ 102)

def matchAddr (p0 : UInt8) (s : Bytes) : Bool :=
  match s with
  | q0 :: q1 :: body => q0 = p0 ∧ q1 = 120 ∧ body.length = 40 ∧ body.all isLowerHexB
  | _ => false

def isEoaAddress (s : Bytes) : Bool := matchAddr 104 s
def isScoreAddress (s : Bytes) : Bool := matchAddr 99 s
/-- alias `t_addr` = `t_addr_eoa|t_addr_score` -/
def isAddress (s : Bytes) : Bool := isEoaAddress s || isScoreAddress s

end Goloop.C36
