/-
  Model/C09Retry: the executor's retry / rollback pattern on top of `Sim`:
  a retrying transaction takes `GetSnapshot()` as its first action, runs its program, may `Reset()`
  to that snapshot (once) and then runs the program again; it commits after the second run.

  GetSnapshot (worldvirtualstate.go):
  * world write lock: `realizeBaseInLock()` – waits until every predecessor is committed – and then
    `wvss.base = real.GetSnapshot()`: a copy of the real state (`wsnap`);
  * account locks: never blocks; records the account snapshots of the write-locked entries that are
    already resolved, i.e. (snapshot being the first action) the entries without dependency.
  Reset:
  * world write lock: `real.Reset(wvss.base)` – the real state becomes the copy;
  * account locks: every write-locked entry goes back to its account snapshot if the snapshot has
    one, else to `las.base`, the value it had when the entry was resolved at its first access.
    `start` holds both kinds of values: filled at the snapshot for the entries without dependency
    and at the first access for the others.

  `guarded = false` is the ordering of the seeded change C09-5 (snapshot of the real state taken
  BEFORE waiting for the predecessors), kept for the witness theorem.  Core Lean only.
-/
import Goloop.Model.C09
namespace Goloop.C09

structure RSt where
  snapped : Bool := false
  wsnap : Option (List Nat) := none
  start : List (Nat × Nat) := []
  rerun : Bool := false
  deriving Repr

structure RSim where
  sim : Sim
  rs : List RSt
  deriving Repr

inductive Ev
  | snap (i : Nat)    -- GetSnapshot of a retrying transaction
  | act (i : Nat)     -- next program step or Commit (an event of `Sim`)
  | reset (i : Nat)   -- Reset to the start snapshot, the program starts again
  deriving DecidableEq, Repr

def rsOf (r : RSim) (i : Nat) : RSt := r.rs.getD i {}

def hasKey (l : List (Nat × Nat)) (a : Nat) : Bool := l.any (fun p => p.1 = a)

def restore (real : List Nat) (l : List (Nat × Nat)) : List Nat :=
  l.foldl (fun r p => r.set p.1 p.2) real

/-- write-locked entries that are resolved when the virtual state is created (no dependency) -/
def startEntries (lk : Locks) (real : List Nat) : List (Nat × Nat) :=
  lk.las.filterMap (fun l => if l.lock = .write ∧ l.depend = none then some (l.acct, real.getD l.acct 0) else none)

def enabledEv (guarded : Bool) (txs : List Tx) (retry : List Bool) (lks : List Locks) (r : RSim) : Ev → Bool
  | .snap i =>
    i < txs.length && retry.getD i false && !(rsOf r i).snapped && !(r.sim.isCommitted i) &&
      (if (lks.getD i ⟨0, []⟩).world = 2 ∧ guarded then r.sim.allBefore i else true)
  | .act i =>
    i < txs.length && enabledTx txs lks r.sim i &&
      (!(retry.getD i false) ||
        ((rsOf r i).snapped &&
          ((rsOf r i).rerun || decide ((r.sim.sts.getD i {}).pc < (txs.getD i ⟨[], []⟩).prog.length))))
  | .reset i =>
    i < txs.length && retry.getD i false && (rsOf r i).snapped && !(rsOf r i).rerun &&
      !(r.sim.isCommitted i)

def fireEv (txs : List Tx) (lks : List Locks) (r : RSim) : Ev → RSim
  | .snap i =>
    let lk := lks.getD i ⟨0, []⟩
    let st := rsOf r i
    let st' : RSt :=
      if lk.world = 2 then { st with snapped := true, wsnap := some r.sim.real }
      else { st with snapped := true, start := startEntries lk r.sim.real }
    { r with rs := r.rs.set i st' }
  | .act i =>
    let lk := lks.getD i ⟨0, []⟩
    let st := rsOf r i
    let pc := (r.sim.sts.getD i {}).pc
    let st' : RSt :=
      match (txs.getD i ⟨[], []⟩).prog[pc]? with
      | some step =>
        (match access lk step.acct with
         | .rw _ =>
           if hasKey st.start step.acct then st
           else { st with start := st.start ++ [(step.acct, r.sim.real.getD step.acct 0)] }
         | _ => st)
      | none => st
    { sim := fire txs lks r.sim i, rs := r.rs.set i st' }
  | .reset i =>
    let lk := lks.getD i ⟨0, []⟩
    let st := rsOf r i
    let tst := r.sim.sts.getD i {}
    let real' := if lk.world = 2 then st.wsnap.getD r.sim.real else restore r.sim.real st.start
    { sim := { r.sim with real := real', sts := r.sim.sts.set i { tst with pc := 0, loc := ⟨0, []⟩ } },
      rs := r.rs.set i { st with rerun := true } }

def runEv (guarded : Bool) (txs : List Tx) (retry : List Bool) (lks : List Locks) : List Ev → RSim → Option RSim
  | [], r => some r
  | e :: rest, r =>
    if enabledEv guarded txs retry lks r e then runEv guarded txs retry lks rest (fireEv txs lks r e) else none

def rInit (nacc : Nat) (txs : List Tx) : RSim := { sim := simInit nacc txs, rs := txs.map (fun _ => {}) }

end Goloop.C09
