/-
  Model/C33: `PacketPool` (network/pool.go) and the non-control branch of
  `PeerToPeer.onPacket` (network/p2p.go), transcribed branch by branch.

  * A bucket (`map[uint64]*Packet`) is the list of its keys; `nil` map = `none`.
  * `len []int` is `lens`; note `Clear` does not reset `len[0]` (transcribed).
  * Peer ids are byte strings (`peerID.Equal` = `bytes.Equal`).
-/
import Goloop.Base.Bytes
namespace Goloop.C33

structure Pool where
  nb : Nat                              -- numOfBucket
  bl : Nat                              -- lenOfBucket
  buckets : List (Option (List UInt64))
  lens : List Nat
  cur : Nat

/-- `p.buckets[i]` (`none` also outside the slice; the code never indexes outside). -/
def Pool.B (p : Pool) (i : Nat) : Option (List UInt64) := p.buckets.getD i none

/-- `NewPacketPool(numOfBucket, lenOfBucket)` (for `numOfBucket = 0` the Go code panics). -/
def newPool (nb bl : Nat) : Pool :=
  { nb := nb, bl := bl
    buckets := (List.replicate nb none).set 0 (some [])
    lens := List.replicate nb 0
    cur := 0 }

/-- the loop of `_contains`: `fuel` iterations left, looking at bucket `c`. -/
def containsLoop (p : Pool) (h : UInt64) : Nat → Nat → Bool
  | 0, _ => false
  | fuel + 1, c =>
    match p.B c with
    | none => false                       -- `if m == nil { return false }`
    | some m =>
      if m.contains h then true
      else containsLoop p h fuel (if c < 1 then p.nb - 1 else c - 1)

def contains (p : Pool) (h : UInt64) : Bool := containsLoop p h p.nb p.cur

/-- `Put`: returns the new pool and whether the hash was new. -/
def put (p : Pool) (h : UInt64) : Pool × Bool :=
  if contains p h then (p, false)
  else
    let m := (p.B p.cur).getD []
    let buckets := p.buckets.set p.cur (some (h :: m))
    let l := p.lens.getD p.cur 0 + 1
    let lens := p.lens.set p.cur l
    if l ≥ p.bl then
      let cur' := if p.cur + 1 ≥ p.nb then 0 else p.cur + 1
      ({ p with buckets := buckets.set cur' (some []), lens := lens.set cur' 0, cur := cur' }, true)
    else
      ({ p with buckets := buckets, lens := lens }, true)

/-- `Clear` (does not touch `len`). -/
def clear (p : Pool) : Pool :=
  { p with buckets := (List.replicate p.nb none).set 0 (some []), cur := 0 }

/-! ### onPacket -/

def destAny : UInt8 := 0x00
def destPeer : UInt8 := 0xFF
def roleRoot : UInt8 := 2       -- p2pRoleRoot = module.RoleValidator

/-- everything `onPacket` reads, for a packet of a non-control protocol. -/
structure Ev where
  peerHasProto : Bool     -- p.ProtocolInfos().Exists(pkt.protocol)
  connNone : Bool         -- p.ConnType() == p2pConnTypeNone
  self : Bytes            -- p2p.ID()
  peerId : Bytes          -- p.ID()
  peerRole : UInt8        -- p.Role()
  src : Bytes             -- pkt.src
  dest : UInt8
  ttl : UInt8
  hasCb : Bool            -- p2p.onPacketCbFuncs[pkt.protocol] != nil
  hash : UInt64           -- pkt.hashOfPacket

inductive Outcome where
  | closeNotRegistered   -- p.CloseByError(ErrNotRegisteredProtocol), first guard
  | dropUndetermined
  | dropSelfSrc
  | dropOneHopSrc
  | dropNotAuthorized
  | deliver              -- cbFunc(pkt, p)
  | dropDuplicate
  | closeNoCallback
  deriving DecidableEq, Repr

def Ev.isSourcePeer (e : Ev) : Bool := e.peerId == e.src
def Ev.isOneHop (e : Ev) : Bool := e.ttl != 0 || e.dest == destPeer
def Ev.isBroadcast (e : Ev) : Bool := e.dest == destAny && e.ttl == 0
def Ev.hasRoot (e : Ev) : Bool := e.peerRole &&& roleRoot == roleRoot

def onPacket (pool : Pool) (e : Ev) : Pool × Outcome :=
  if !e.peerHasProto then (pool, .closeNotRegistered)
  else if e.connNone then (pool, .dropUndetermined)
  else if e.self == e.src then (pool, .dropSelfSrc)
  else if e.isOneHop && !e.isSourcePeer then (pool, .dropOneHopSrc)
  else if e.isBroadcast && e.isSourcePeer && !e.hasRoot then (pool, .dropNotAuthorized)
  else if e.hasCb then
    if e.isOneHop then (pool, .deliver)
    else
      let r := put pool e.hash
      if r.2 then (r.1, .deliver) else (r.1, .dropDuplicate)
  else (pool, .closeNoCallback)

end Goloop.C33
