/-
  Model/C33: `PacketPool` (network/pool.go) and the non-control branch of
  `PeerToPeer.onPacket` (network/p2p.go), transcribed branch by branch.

  * A bucket (`map[uint64]*Packet`) is the list of its keys; `nil` map = `none`.
  * `len []int` is `lens`; note `Clear` does not reset `len[0]` (transcribed).
  * Peer ids are byte strings (`peerID.Equal` = `bytes.Equal`).
-/
import Goloop.Base.Bytes
namespace Goloop.C33

structure Pool where
  nb : Nat                              -- numOfBucket
  bl : Nat                              -- lenOfBucket
  buckets : List (Option (List UInt64))
  lens : List Nat
  cur : Nat

/-- `p.buckets[i]` (`none` also outside the slice; the code never indexes outside). -/
def Pool.B (p : Pool) (i : Nat) : Option (List UInt64) := p.buckets.getD i none

/-- `NewPacketPool(numOfBucket, lenOfBucket)` (for `numOfBucket = 0` the Go code panics). -/
def newPool (nb bl : Nat) : Pool :=
  { nb := nb, bl := bl
    buckets := (List.replicate nb none).set 0 (some [])
    lens := List.replicate nb 0
    cur := 0 }

/-- the loop of `_contains`: `fuel` iterations left, looking at bucket `c`. -/
def containsLoop (p : Pool) (h : UInt64) : Nat → Nat → Bool
  | 0, _ => false
  | fuel + 1, c =>
    match p.B c with
    | none => false                       -- `if m == nil { return false }`
    | some m =>
      if m.contains h then true
      else containsLoop p h fuel (if c < 1 then p.nb - 1 else c - 1)

def contains (p : Pool) (h : UInt64) : Bool := containsLoop p h p.nb p.cur

/-- `Put`: returns the new pool and whether the hash was new. -/
def put (p : Pool) (h : UInt64) : Pool × Bool :=
  if contains p h then (p, false)
  else
    let m := (p.B p.cur).getD []
    let buckets := p.buckets.set p.cur (some (h :: m))
    let l := p.lens.getD p.cur 0 + 1
    let lens := p.lens.set p.cur l
    if l ≥ p.bl then
      let cur' := if p.cur + 1 ≥ p.nb then 0 else p.cur + 1
      ({ p with buckets := buckets.set cur' (some []), lens := lens.set cur' 0, cur := cur' }, true)
    else
      ({ p with buckets := buckets, lens := lens }, true)

/-- `Clear` (does not touch `len`). -/
def clear (p : Pool) : Pool :=
  { p with buckets := (List.replicate p.nb none).set 0 (some []), cur := 0 }

/-! ### onPacket -/

def destAny : UInt8 := 0x00
def destPeer : UInt8 := 0xFF
def roleRoot : UInt8 := 2       -- p2pRoleRoot = module.RoleValidator

/-- everything `onPacket` reads, for a packet of a non-control protocol. -/
structure Ev where
  peerHasProto : Bool     -- p.ProtocolInfos().Exists(pkt.protocol)
  connNone : Bool         -- p.ConnType() == p2pConnTypeNone
  self : Bytes            -- p2p.ID()
  peerId : Bytes          -- p.ID()
  peerRole : UInt8        -- p.Role()
  src : Bytes             -- pkt.src
  dest : UInt8
  ttl : UInt8
  hasCb : Bool            -- p2p.onPacketCbFuncs[pkt.protocol] != nil
  hash : UInt64           -- pkt.hashOfPacket
  protoId : UInt8 := 5    -- pkt.protocol.ID()      (0 = p2pProtoControl.ID())
  protoVer : UInt8 := 0   -- pkt.protocol.Version() (p2pProtoControl = 0x0000)
  sub : Nat := 0x0100     -- pkt.subProtocol

/-- handlers of the control protocol (topology management; their bodies are not modelled) -/
inductive Ctl where
  | queryReq | queryResp | rttReq | rttResp | connReq | connResp
  deriving DecidableEq, Repr

inductive Outcome where
  | control (c : Ctl)    -- dispatched to a p2p control handler: never reaches an application callback
  | closeCtlSub          -- control protocol, unknown sub protocol: CloseByError
  | closeCtlProto        -- protocol id of the control protocol but another version: CloseByError
  | closeNotRegistered   -- p.CloseByError(ErrNotRegisteredProtocol), first guard
  | dropUndetermined
  | dropSelfSrc
  | dropOneHopSrc
  | dropNotAuthorized
  | deliver              -- cbFunc(pkt, p)
  | dropDuplicate
  | closeNoCallback
  deriving DecidableEq, Repr

def Ev.isSourcePeer (e : Ev) : Bool := e.peerId == e.src
def Ev.isOneHop (e : Ev) : Bool := e.ttl != 0 || e.dest == destPeer
def Ev.isBroadcast (e : Ev) : Bool := e.dest == destAny && e.ttl == 0
def Ev.hasRoot (e : Ev) : Bool := e.peerRole &&& roleRoot == roleRoot

def onPacket (pool : Pool) (e : Ev) : Pool × Outcome :=
  if !e.peerHasProto then (pool, .closeNotRegistered)
  else if e.connNone then (pool, .dropUndetermined)
  else if e.self == e.src then (pool, .dropSelfSrc)
  else if e.isOneHop && !e.isSourcePeer then (pool, .dropOneHopSrc)
  else if e.isBroadcast && e.isSourcePeer && !e.hasRoot then (pool, .dropNotAuthorized)
  else if e.hasCb then
    if e.isOneHop then (pool, .deliver)
    else
      let r := put pool e.hash
      if r.2 then (r.1, .deliver) else (r.1, .dropDuplicate)
  else (pool, .closeNoCallback)

/-! ### the whole of `onPacket`: control-protocol branch + application branch -/

def ctlOf (sub : Nat) : Option Ctl :=
  if sub = 0x0700 then some .queryReq else if sub = 0x0800 then some .queryResp
  else if sub = 0x0B00 then some .rttReq else if sub = 0x0C00 then some .rttResp
  else if sub = 0x0900 then some .connReq else if sub = 0x0A00 then some .connResp
  else none

/-- `PeerToPeer.onPacket`, every branch. -/
def onPacketFull (pool : Pool) (e : Ev) : Pool × Outcome :=
  if !e.peerHasProto then (pool, .closeNotRegistered)
  else if e.protoId == 0 then
    if e.protoVer == 0 then
      match ctlOf e.sub with
      | some c => (pool, .control c)
      | none => (pool, .closeCtlSub)
    else (pool, .closeCtlProto)
  else onPacket pool e

/-! ### relaying (protocolHandler.onPacketResult → manager.send → PeerToPeer.Send →
    sendRoutine → Peer.send), for a packet that was received and delivered -/

def ctParent : Nat := 1
def ctChildren : Nat := 2
def ctUncle : Nat := 3
def ctNephew : Nat := 4
def ctFriend : Nat := 5
def ctOther : Nat := 6
def destSeed : UInt8 := 1
def destRoot : UInt8 := 2

/-- a connected peer as far as sending is concerned -/
structure PeerInfo where
  id : Bytes
  connType : Nat
  hasProto : Bool
  known : List UInt64       -- hashes in `p.pool` (packets received from / written to that peer)
  closed : Bool := false

/-- `onPacketResult`: relay iff the reactor asked for it, the packet is BroadcastAll (ttl 0) and
    not addressed to a single peer. -/
def relayWanted (isRelay : Bool) (e : Ev) : Bool := isRelay && e.ttl == 0 && e.dest != destPeer

/-- `Peer.isDuplicatedToSend` (relayed packets have `forceSend = false`; `sender` is the peer the
    packet was received from) -/
def dupToSend (p : PeerInfo) (src sender : Bytes) (hash : UInt64) : Bool :=
  p.id == src || p.id == sender || p.known.contains hash

def hasRootFlag (role : UInt8) : Bool := role &&& roleRoot == roleRoot

/-- first-round targets of `sendRoutine` for a ttl-0 packet: (selective flooding to friends?,
    connection types for `sendToPeers`) -/
def relayTargets (selfRole : UInt8) (dest : UInt8) : Bool × List Nat :=
  if dest == destAny then (hasRootFlag selfRole, [ctChildren, ctOther])
  else if dest == destRoot then
    if hasRootFlag selfRole then (true, []) else (false, [ctParent])
  else if dest == destSeed then
    if hasRootFlag selfRole then (true, if selfRole == roleRoot then [ctChildren] else [])
    else (false, [ctParent])
  else (false, [])

def countProto (peers : List PeerInfo) (cts : List Nat) : Nat :=
  (peers.filter (fun p => p.hasProto && cts.contains p.connType)).length

/-- `PeerToPeer.available(pkt)` for a ttl-0 packet not addressed to a single peer -/
def available (selfRole : UInt8) (peers : List PeerInfo) (dest : UInt8) : Bool :=
  if dest == destAny then
    countProto peers ([ctChildren, ctNephew, ctOther] ++ (if hasRootFlag selfRole then [ctFriend] else [])) ≥ 1
  else if dest == destRoot then
    countProto peers (if hasRootFlag selfRole then [ctFriend] else [ctParent, ctUncle]) ≥ 1
  else countProto peers [ctParent, ctChildren, ctUncle, ctNephew, ctFriend, ctOther] ≥ 1

/-- ids of the peers the relayed packet is enqueued to (at most 3 friends: then selective
    flooding selects every friend but the source). -/
def relaySend (selfRole : UInt8) (peers : List PeerInfo) (e : Ev) (sender : Bytes) : List Bytes :=
  if !available selfRole peers e.dest then []
  else
    let t := relayTargets selfRole e.dest
    let cand := peers.filter (fun p => p.hasProto && !p.closed &&
      ((t.1 && p.connType == ctFriend) || t.2.contains p.connType))
    (cand.filter (fun p => !dupToSend p e.src sender e.hash)).map (·.id)

structure Node where
  pool : Pool
  selfRole : UInt8
  peers : List PeerInfo

/-- `receiveRoutine` + `onPacket` + reactor answer `isRelay` + relay: a packet arrives from the
    peer at index `from`. Returns the new node, the outcome and the ids the packet is relayed to. -/
def nodeStep (n : Node) (frm : Nat) (e : Ev) (isRelay : Bool) : Node × Outcome × List Bytes :=
  -- receiveRoutine: p.pool.Put(pkt.hashOfPacket) for the sending peer, before the callback
  let peers := n.peers.mapIdx (fun i p => if i = frm then { p with known := e.hash :: p.known } else p)
  let r := onPacketFull n.pool e
  let relays := if r.2 = .deliver ∧ relayWanted isRelay e then relaySend n.selfRole peers e e.peerId else []
  ({ n with pool := r.1, peers := peers }, r.2, relays)

end Goloop.C33
