/-
  Model/C28: the hexary (16-ary) block-hash accumulator and merkle tree of
  icon/merkle/hexary (node.go, accumulator.go, merkletree.go), transcribed
  function by function.

  * hash function = parameter `H` (Go: crypto.SHA3Sum256).
  * a `node` is its `bytes` field (concatenated 32 byte child hashes); the
    memoised `_hash` is recomputed (pure function).
  * `[]byte` results that may be nil (`node.Hash()` of an empty node,
    `node.Get(i)` past the end, the header's root hash) are `Option Bytes`;
    `bytes.Equal` and map keys do not distinguish nil from empty (`.getD []`).
  * buckets are association lists (`DB`); `Set` never fails. The node cache of
    `nodeDB` is transparent (it only holds what the bucket holds; equal up to
    hash collisions) and is not modelled.
  * `log.Panicf` / slice-bounds panics are the explicit `panic` results.
  * keys, lengths are `Nat` (Go `int64 ≥ 0`); `from` of `Prove` is an `Int`.
  * the codec round trip of `accumulatorData` through the accumulator bucket is
    modelled as keeping the decoded value (`persisted`).
-/
import Goloop.Base.Bytes
namespace Goloop.C28

def hashLen : Nat := 32
def maxChildren : Nat := 16
def maxNodeBytes : Nat := hashLen * maxChildren

abbrev DB := List (Bytes × Bytes)

def DB.get (db : DB) (k : Bytes) : Option Bytes :=
  match db with
  | [] => none
  | (k', v) :: rest => if k' = k then some v else DB.get rest k

def DB.set (db : DB) (k v : Bytes) : DB := (k, v) :: db

/-! ### node.go -/

/-- `validateNodeBytes` -/
def validNode (b : Bytes) : Bool := b.length % hashLen = 0 ∧ b.length ≤ maxNodeBytes

def nodeLen (b : Bytes) : Nat := b.length / hashLen
def nodeFull (b : Bytes) : Bool := b.length = maxNodeBytes

/-- `node.Get(i)` for `i < 16` -/
def nodeGet (b : Bytes) (i : Nat) : Option Bytes :=
  if i < nodeLen b then some ((b.drop (i * hashLen)).take hashLen) else none

/-- `node.Hash()` -/
def nodeHash (H : Bytes → Bytes) (b : Bytes) : Option Bytes :=
  if b.isEmpty then none else some (H b)

/-- `node.Add(hash)`; none = `log.Panicf` -/
def nodeAdd (b : Bytes) (hash : Bytes) : Option Bytes :=
  if hash.length ≠ hashLen then none
  else if nodeFull b then none
  else some (b ++ hash)

/-! ### accumulator.go -/

structure Acc where
  len : Nat := 0
  roots : List Bytes := []
  deriving Repr, DecidableEq

/-- `accumulator.add(i, hash)` with `rs = Roots[i:]`; the Bool is false when a `node.Add` panicked. -/
def addAt (H : Bytes → Bytes) : List Bytes → Bytes → DB → List Bytes × DB × Bool
  | [], hash, db =>
    -- Roots = append(Roots, newNode()); rb.Add(hash)
    match nodeAdd [] hash with
    | none => ([[]], db, false)
    | some rb =>
      if nodeFull rb then ([[]], db.set (H rb) rb, false)  -- unreachable: 32 ≠ 512
      else ([rb], db, true)
  | r :: rest, hash, db =>
    match nodeAdd r hash with
    | none => (r :: rest, db, false)
    | some rb =>
      if nodeFull rb then
        let db' := db.set (H rb) rb
        let (rest', db'', ok) := addAt H rest (H rb) db'
        ([] :: rest', db'', ok)
      else (rb :: rest, db, true)

/-- `Accumulator.Add`: result `none` = panic (state still mutated as in Go). -/
def Acc.add (H : Bytes → Bytes) (a : Acc) (db : DB) (hash : Bytes) : Acc × DB × Bool :=
  let (rs, db', ok) := addAt H a.roots hash db
  if ok then ({ len := a.len + 1, roots := rs }, db', true)
  else ({ a with roots := rs }, db', false)

/-- `if carry != nil { r.Add(carry) }`: the node the iteration works on; none = `node.Add` panicked -/
def addCarry (r : Bytes) : Option Bytes → Option Bytes
  | some c => nodeAdd r c
  | none => some r

/-- the carry loop shared by `GetMerkleHeader` (store = false) and `Finalize` (store = true).
    `none` = a `node.Add` panicked. -/
def carryFold (H : Bytes → Bytes) (store : Bool) : List Bytes → Option Bytes → DB → Option (Option Bytes × DB)
  | [], carry, db => some (carry, db)
  | r :: rest, carry, db =>
    match addCarry r carry with
    | none => none
    | some r' =>
      if rest.isEmpty ∧ nodeLen r' = 1 then
        carryFold H store rest (some ((nodeGet r' 0).getD [])) db
      else
        match nodeHash H r' with
        | some h => carryFold H store rest (some h) (if store then db.set h r' else db)
        | none => carryFold H store rest none db

structure Header where
  root : Option Bytes
  leaves : Nat
  deriving Repr, DecidableEq

def Acc.header (H : Bytes → Bytes) (a : Acc) : Option Header :=
  (carryFold H false a.roots none []).map fun (c, _) => ⟨c, a.len⟩

def Acc.finalize (H : Bytes → Bytes) (a : Acc) (db : DB) : Option (Header × DB) :=
  (carryFold H true a.roots none db).map fun (c, db') => (⟨c, a.len⟩, db')

/-- `bits.Len64` -/
def bitLen (n : Nat) : Nat := if n = 0 then 0 else Nat.log2 n + 1

/-- `LevelFromLen` -/
def levelFromLen (len : Nat) : Nat := if len = 0 then 0 else (bitLen (len - 1) + 3) / 4

/-- `powerOf16` (loop with fuel; 16 nibbles suffice for uint64) -/
def powerOf16Loop : Nat → Nat → Bool
  | 0, n => n == 1
  | fuel + 1, n => if n > 0xf then (if n % 16 ≠ 0 then false else powerOf16Loop fuel (n / 16)) else n == 1

def powerOf16 (n : Nat) : Bool := powerOf16Loop 16 n

/-! ### merkletree.go -/

structure Tree where
  db : DB
  level : Nat
  root : Bytes
  cap : Nat
  deriving Repr

/-- `NewMerkleTree(bk, header, _)`; none = error from `newNodeFromBytes` -/
def newTree (db : DB) (hd : Header) : Option Tree :=
  let rb := hd.root.getD []
  if validNode rb then some { db := db, level := levelFromLen hd.leaves, root := rb, cap := hd.leaves } else none

/-- `nodeDB.Get(hash)` -/
def fetch (db : DB) (hash : Option Bytes) : Option Bytes :=
  match db.get (hash.getD []) with
  | none => none
  | some bs => if validNode bs then some bs else none

/-- `(key >> (shift*4)) & 0xf` -/
def digit (key shift : Nat) : Nat := (key / 16 ^ shift) % 16

/-- `bits.TrailingZeros64` of a value < 2^64 -/
def tz64Loop : Nat → Nat → Nat
  | 0, _ => 0
  | fuel + 1, x => if x % 2 = 1 then 0 else 1 + tz64Loop fuel (x / 2)

def tz64 (x : Nat) : Nat := if x = 0 then 64 else tz64Loop 64 x

/-- `minProofLenForKey` with the Go bit expression on 64 bit words -/
def minProofLen (level key : Nat) : Nat :=
  let k : BitVec 64 := BitVec.ofNat 64 key
  let x : BitVec 64 := ~~~(k ^^^ (k - 1))
  let m := (tz64 x.toNat + 3) / 4 - 1
  if m > level then level else m

/-- the loop of `Prove`: `n` levels left (shift = n), current branch `br` -/
def proveLoop (db : DB) (key : Nat) : Nat → Bytes → Option (List Bytes)
  | 0, _ => some []
  | n + 1, br =>
    match fetch db (nodeGet br (digit key (n + 1))) with
    | none => none
    | some b => (proveLoop db key n b).map (b :: ·)

inductive PRes where
  | ok (proof : List Bytes)
  | err
  | panic
  deriving Repr

/-- `merkleTree.Prove(key, from)` -/
def Tree.prove (t : Tree) (key : Nat) (frm : Int) : PRes :=
  match proveLoop t.db key t.level t.root with
  | none => .err
  | some res =>
    let frm' : Int := if frm < 0 then
        let f : Int := (t.level : Int) - (minProofLen t.level key : Int)
        if f < 0 then 0 else f
      else frm
    if frm' > (t.level : Int) then .panic else .ok (res.drop frm'.toNat)

inductive ARes | ok | verr | err | panic
  deriving Repr, DecidableEq

/-- the verification loop of `Add`: `n` levels left, `omit` levels still taken from the DB,
    remaining proof elements `proof`. Result: final branch or the failure. -/
def addLoop (H : Bytes → Bytes) (db : DB) (key : Nat) : Nat → Nat → List Bytes → Bytes → Except ARes Bytes
  | 0, _, _, br => .ok br
  | n + 1, omt, proof, br =>
    let cur := nodeGet br (digit key (n + 1))
    match omt with
    | o + 1 =>
      match fetch db cur with
      | none => .error .err
      | some b => addLoop H db key n o proof b
    | 0 =>
      match proof with
      | [] => .error .panic   -- unreachable: index out of range
      | p :: ps =>
        if ¬ validNode p then .error .err
        else if (nodeHash H p).getD [] ≠ cur.getD [] then .error .verr
        else addLoop H db key n 0 ps p

/-- `nodeDB.Put` of every proof node -/
def putAll (H : Bytes → Bytes) (db : DB) : List Bytes → DB
  | [] => db
  | p :: ps => putAll H (db.set ((nodeHash H p).getD []) p) ps

/-- `merkleTree.Add(key, hash, proof)`. `guard = true` is the repaired code
    (fixes/F11_hexary_overlong_proof.diff: a proof longer than the tree is high is rejected);
    `guard = false` is the code as found, which dereferences a nil `*node` in that case. -/
def Tree.addCore (guard : Bool) (H : Bytes → Bytes) (t : Tree) (key : Nat) (hash : Bytes) (proof : List Bytes) : Tree × ARes :=
  if proof.length < minProofLen t.level key then (t, .verr)
  else if guard ∧ proof.length > t.level then (t, .verr)
  else
    -- proof longer than level: the first len-level elements are never looked at
    let extra := proof.length - t.level
    let omt := t.level - proof.length
    match addLoop H t.db key t.level omt (proof.drop extra) t.root with
    | .error e => (t, e)
    | .ok br =>
      if (nodeGet br (key % 16)).getD [] ≠ hash then (t, .verr)
      else if extra > 0 then (t, .panic)   -- proofBr[0] is a nil *node: Put dereferences it
      else ({ t with db := putAll H t.db proof }, .ok)

def Tree.add := Tree.addCore true
def Tree.addOld := Tree.addCore false

/-! ### SetLen -/

inductive SRes | ok | err | panic
  deriving Repr, DecidableEq

def truncRoots : List Bytes → Nat → Option (List Bytes)
  | [], _ => some []
  | p :: ps, d =>
    if ¬ validNode p then none
    else (truncRoots ps (d / 16)).map ((p.take (d % 16 * hashLen)) :: ·)

/-- `accumulator.SetLen(l)`; returns the new accumulator, tree bucket, whether the
    accumulator data was written to the accumulator bucket, and the result. -/
def Acc.setLen (H : Bytes → Bytes) (a : Acc) (db : DB) (l : Nat) : Acc × DB × Bool × SRes :=
  if l > a.len then (a, db, false, .err)
  else if l = 0 then ({ len := 0, roots := [] }, db, false, .ok)
  else if l = a.len then (a, db, false, .ok)
  else
    match a.finalize H db with
    | none => (a, db, false, .panic)
    | some (hd, db') =>
      match newTree db' hd with
      | none => (a, db', false, .err)
      | some mt =>
        match mt.prove (l - 1) 0 with
        | .err => (a, db', false, .err)
        | .panic => (a, db', false, .panic)
        | .ok proof =>
          let lvl := levelFromLen l + (if powerOf16 l then 1 else 0)
          let proof? : Option (List Bytes) :=
            if proof.length < lvl then
              (if proof.length + 1 ≠ lvl then none else some (hd.root.getD [] :: proof))
            else some (proof.drop (proof.length - lvl))
          match proof? with
          | none => (a, db', false, .panic)
          | some pr =>
            -- roots[i] from proof[len-1-i], i < lvl
            -- (`node.SetLen` beyond the node's length cannot happen for a consistent tree bucket: `take`)
            match truncRoots (pr.reverse.take lvl) l with
            | none => (a, db', false, .err)
            | some roots => ({ len := l, roots := roots }, db', true, .ok)

end Goloop.C28
