/-
  Model/C34: stake / unstake / delegation / bond / unbond accounting of the
  ICON extension at the current revision (icon/iiss/extension.go SetStake,
  SetDelegation, SetBond; icstate/account.go; icstate/unstake.go;
  timerhandler.go), as driven by icsim (one operation = one block: the
  transaction runs at height h = previous+1, then the timers of h fire).

  Parameters (not computed by the model): unstake lock period, unbonding
  period, slot maximum, who may bond to whom (`allowed`), claimed and issued
  amounts.  The set of registered / active P-Reps is state: `register` and
  `unregister` transactions change it the way `State.RegisterPRep` /
  `State.DisablePRep(Unregistered)` do (total delegation follows the cached
  per-P-Rep `delegated`; an unregistering P-Rep must have no bond).
  `rest` is all ICX held outside the modelled accounts (treasury, others).
-/
namespace Goloop.C34

abbrev Votes := List (Nat × Int)

structure Account where
  balance : Int := 0
  stake : Int := 0
  unstakes : List (Int × Int) := []        -- (value, expireHeight), ascending expire
  delegs : Votes := []
  bonds : Votes := []
  unbonds : List (Nat × Int × Int) := []   -- (to, value, expireHeight)
  utimers : List Int := []                 -- heights whose unstaking timer (a set of addresses) contains this account
  deriving Repr, Inhabited

def sumInt (l : List Int) : Int := l.foldr (· + ·) 0

def Account.unstaking (a : Account) : Int := sumInt (a.unstakes.map (·.1))
def Account.delegating (a : Account) : Int := sumInt (a.delegs.map (·.2))
def Account.bonded (a : Account) : Int := sumInt (a.bonds.map (·.2))
def Account.unbonding (a : Account) : Int := sumInt (a.unbonds.map (·.2.1))
def Account.usingStake (a : Account) : Int := a.delegating + a.bonded + a.unbonding
def Account.totalStake (a : Account) : Int := a.stake + a.unstaking
/-- all ICX of the account: liquid + staked + unstaking -/
def Account.holdings (a : Account) : Int := a.balance + a.stake + a.unstaking

structure World where
  height : Int := 0
  accts : List Account := []
  rest : Int := 0
  totalSupply : Int := 0
  totalStake : Int := 0
  totalDeleg : Int := 0
  totalBond : Int := 0
  lock : Int := 0
  slotMax : Nat := 1
  unbondPeriod : Int := 0
  unbondMax : Nat := 100
  registered : Nat → Bool := fun _ => false   -- has a PRepBase
  active : Nat → Bool := fun _ => false       -- PRepStatus.IsActive
  pDelegated : Nat → Int := fun _ => 0        -- PRepStatus.delegated (kept for every target, P-Rep or not)
  pBonded : Nat → Int := fun _ => 0           -- PRepStatus.bonded
  deriving Inhabited

/-- Unstakes.decreaseUnstake at revision ≥ MultipleUnstakes, on the reversed list (last slot first) -/
def decreaseRev : List (Int × Int) → Int → List (Int × Int)
  | [], _ => []
  | u :: rest, remain =>
    if remain ≥ u.1 then
      if remain = u.1 then rest else decreaseRev rest (remain - u.1)
    else (u.1 - remain, u.2) :: rest

def decreaseUnstake (us : List (Int × Int)) (v : Int) : List (Int × Int) :=
  (decreaseRev us.reverse v).reverse

/-- Unstakes.findIndex + insert -/
def insertUnstake (us : List (Int × Int)) (u : Int × Int) : List (Int × Int) :=
  (decreaseRevInsert us.reverse u).reverse
where
  decreaseRevInsert : List (Int × Int) → (Int × Int) → List (Int × Int)
    | [], u => [u]
    | x :: rest, u => if u.2 ≥ x.2 then u :: x :: rest else x :: decreaseRevInsert rest u

/-- Unstakes.increaseUnstake at revision ≥ MultipleUnstakes -/
def increaseUnstake (us : List (Int × Int)) (v eh : Int) (slotMax : Nat) : List (Int × Int) :=
  if us.length ≥ slotMax then
    match us.reverse with
    | [] => us   -- slotMax = 0 and no slot: the Go code would index -1 (not generated)
    | last :: rest => ((last.1 + v, if eh > last.2 then eh else last.2) :: rest).reverse
  else insertUnstake us (v, eh)

inductive Tx where
  | none
  | register (k : Nat)
  | unregister (k : Nat)
  | stake (i : Nat) (v : Int)
  | deleg (i : Nat) (ds : Votes)
  | bond (i : Nat) (bs : Votes) (allowed : Bool)   -- allowed: every target is a P-Rep listing `i` as bonder
  | xfer (i j : Nat) (v : Int)
  | claim (i : Nat) (icx : Int) (ok : Bool)
  | burn (i : Nat) (fee : Int)               -- fee moved to the system address and burnt (HandleBurn)
  | regPRep (i : Nat) (k : Nat) (fee : Int)  -- icsim registerPRep: account `i` (vote target `k`) pays and burns the fee, then registers
  deriving Repr

def getAcct (w : World) (i : Nat) : Account := w.accts.getD i {}
def setAcct (w : World) (i : Nat) (a : Account) : World := { w with accts := w.accts.set i a }

def activeSum (act : Nat → Bool) (vs : Votes) : Int :=
  sumInt ((vs.filter (fun v => act v.1)).map (·.2))

/-- sum of the entries of a vote list for target `k` -/
def votesTo (k : Nat) (vs : Votes) : Int := sumInt ((vs.filter (fun v => v.1 == k)).map (·.2))

/-- the entry a Go map built from the list holds for `k` (the last one wins), 0 if absent -/
def lookupLast (vs : Votes) (k : Nat) : Int :=
  match vs.reverse.find? (fun v => v.1 == k) with
  | some v => v.2
  | none => 0

/-- Delegations.Delta / Bonds.Delta for key `k`: old entries are overwritten (negated), new ones added up -/
def deltaVote (old new : Votes) (k : Nat) : Int := votesTo k new - lookupLast old k

/-- timer jobs of decreaseUnstake (last slot first): one `Remove` per removed slot -/
def decreaseJobsRev : List (Int × Int) → Int → List (Bool × Int)
  | [], _ => []
  | u :: rest, remain =>
    if remain ≥ u.1 then
      (false, u.2) :: (if remain = u.1 then [] else decreaseJobsRev rest (remain - u.1))
    else []

/-- timer jobs `(isAdd, height)` returned by decreaseUnstake / increaseUnstake -/
def stakeJobs (us : List (Int × Int)) (stakeInc expire : Int) (slotMax : Nat) : List (Bool × Int) :=
  if stakeInc ≥ 0 then decreaseJobsRev us.reverse stakeInc
  else if us.length ≥ slotMax then
    match us.reverse with
    | [] => []
    | last :: _ => if expire > last.2 then [(false, last.2), (true, expire)] else []
  else [(true, expire)]

/-- ScheduleTimerJob on the timers of the account's address: `TimerState.Add` is idempotent,
    `TimerState.Delete` drops the address from the timer of that height — whether or not another
    slot of the account still expires there -/
def applyJobs (ts : List Int) (jobs : List (Bool × Int)) : List Int :=
  jobs.foldl (fun ts j => if j.1 then (if ts.contains j.2 then ts else ts ++ [j.2]) else ts.filter (· != j.2)) ts

/-- the `switch stakeInc.Sign()` of SetStake -/
def newUnstakes (us : List (Int × Int)) (stakeInc expire : Int) (slotMax : Nat) : List (Int × Int) :=
  if stakeInc ≥ 0 then decreaseUnstake us stakeInc else increaseUnstake us (-stakeInc) expire slotMax

/-- ExtensionStateImpl.SetStake; `none` = the transaction fails and is rolled back -/
def setStake (w : World) (i : Nat) (v : Int) : Option World :=
  let a := getAcct w i
  if v < a.usingStake then none else
  let stakeInc := v - a.stake
  if stakeInc = 0 then some w else
  let maxStake := a.balance + a.totalStake
  if maxStake < v then none else
  let expire := w.height + w.lock
  let us := newUnstakes a.unstakes stakeInc expire w.slotMax
  if v < 0 then none else
  let a1 := { a with unstakes := us, stake := v,
                     utimers := applyJobs a.utimers (stakeJobs a.unstakes stakeInc expire w.slotMax) }
  let diff := a1.totalStake - a.totalStake
  if diff < 0 then none    -- the Go code panics here
  else if a.balance < diff then none
  else some { setAcct w i { a1 with balance := a.balance - diff } with totalStake := w.totalStake + stakeInc }

/-- ExtensionStateImpl.SetDelegation (accounting part) -/
def setDelegation (w : World) (i : Nat) (ds : Votes) : Option World :=
  let a := getAcct w i
  let usingNew := sumInt (ds.map (·.2)) + a.unbonding + a.bonded
  if a.stake < usingNew then none else
  some { setAcct w i { a with delegs := ds } with
         totalDeleg := w.totalDeleg + activeSum w.active ds - activeSum w.active a.delegs,
         pDelegated := fun k => w.pDelegated k + deltaVote a.delegs ds k }

def lookupVote (vs : Votes) (k : Nat) : Int :=
  match vs.find? (fun v => v.1 == k) with
  | some v => v.2
  | none => 0

/-- one key of AccountState.UpdateUnbonds: `delta` = new bond − old bond for target `k` -/
def updateUnbond (ubs : List (Nat × Int × Int)) (k : Nat) (delta : Int) (expire : Int) : List (Nat × Int × Int) :=
  if delta = 0 then ubs
  else if delta < 0 then
    if ubs.any (fun u => u.1 == k) then
      ubs.map (fun u => if u.1 == k then (k, u.2.1 - delta, expire) else u)
    else ubs ++ [(k, -delta, expire)]
  else
    (ubs.map (fun u => if u.1 == k then (k, u.2.1 - delta, u.2.2) else u)).filter
      (fun u => !(u.1 == k && decide (u.2.1 ≤ 0)))

def voteKeys (a b : Votes) : List Nat := ((a.map (·.1)) ++ (b.map (·.1))).eraseDups

/-- ExtensionStateImpl.SetBond (accounting part) -/
def setBond (w : World) (i : Nat) (bs : Votes) (allowed : Bool) : Option World :=
  let a := getAcct w i
  if !allowed then none else
  if !bs.all (fun b => w.registered b.1) then none else   -- GetPRepBaseByOwner(bond.To()) == nil
  if a.stake < sumInt (bs.map (·.2)) + a.delegating then none else
  let expire := w.unbondPeriod + w.height
  let ubs := (voteKeys a.bonds bs).foldl
    (fun ubs k => updateUnbond ubs k (lookupVote bs k - lookupVote a.bonds k) expire) a.unbonds
  let a1 := { a with bonds := bs, unbonds := ubs }
  if ubs.length > w.unbondMax then none
  else if a1.stake < a1.usingStake then none
  else some { setAcct w i a1 with
              totalBond := w.totalBond + activeSum w.active bs - activeSum w.active a.bonds,
              pBonded := fun k => w.pBonded k + deltaVote a.bonds bs k }

/-- worldContext.Transfer -/
def transfer (w : World) (i j : Nat) (v : Int) : Option World :=
  if v < 0 then none
  else if v = 0 ∨ i = j then some w
  else
    let a := getAcct w i
    if a.balance < v then none else
    let w1 := setAcct w i { a with balance := a.balance - v }
    let b := getAcct w1 j
    some (setAcct w1 j { b with balance := b.balance + v })

/-- ClaimIScore: `icx` is paid by the treasury (part of `rest`); amount and success are parameters -/
def claim (w : World) (i : Nat) (icx : Int) (ok : Bool) : Option World :=
  if !ok then none else
  let a := getAcct w i
  some { setAcct w i { a with balance := a.balance + icx } with rest := w.rest - icx }

/-- State.RegisterPRep (accounting part): a never registered address becomes an active P-Rep -/
def registerPRep (w : World) (k : Nat) : Option World :=
  if w.registered k then none else
  some { w with registered := fun x => if x = k then true else w.registered x,
                active := fun x => if x = k then true else w.active x,
                totalDeleg := if w.pDelegated k > 0 then w.totalDeleg + w.pDelegated k else w.totalDeleg }

/-- State.DisablePRep(Unregistered) (accounting part) -/
def unregisterPRep (w : World) (k : Nat) : Option World :=
  if !w.active k then none else
  if w.pBonded k > 0 then none else
  some { w with active := fun x => if x = k then false else w.active x,
                totalDeleg := w.totalDeleg - w.pDelegated k }

/-- the acting accounts exist (the drivers reject other lines) -/
def Tx.inRange (n : Nat) : Tx → Bool
  | .none => true
  | .register _ => true
  | .unregister _ => true
  | .stake i _ => decide (i < n)
  | .deleg i _ => decide (i < n)
  | .bond i _ _ => decide (i < n)
  | .xfer i j _ => decide (i < n) && decide (j < n)
  | .claim i _ _ => decide (i < n)
  | .burn i _ => decide (i < n)
  | .regPRep i _ _ => decide (i < n)

/-- Transfer(from, SystemAddress, fee) + Withdraw(SystemAddress, fee) + HandleBurn(fee) -/
def burnFee (w : World) (i : Nat) (fee : Int) : Option World :=
  let a := getAcct w i
  if fee < 0 then none
  else if a.balance < fee then none
  else some { setAcct w i { a with balance := a.balance - fee } with totalSupply := w.totalSupply - fee }

/-- the single-step transactions -/
def applyTx0 (w : World) (tx : Tx) : Option World :=
  if !tx.inRange w.accts.length then none else
  match tx with
  | .none => some w
  | .register k => registerPRep w k
  | .unregister k => unregisterPRep w k
  | .stake i v => setStake w i v
  | .deleg i ds => setDelegation w i ds
  | .bond i bs al => setBond w i bs al
  | .xfer i j v => transfer w i j v
  | .claim i icx ok => claim w i icx ok
  | .burn i fee => burnFee w i fee
  | .regPRep _ _ _ => none

/-- a transaction: `regPRep` is the fee payment followed by the registration (both or nothing) -/
def applyTx (w : World) (tx : Tx) : Option World :=
  match tx with
  | .regPRep i k fee => (applyTx0 w (.burn i fee)).bind (fun w1 => applyTx0 w1 (.register k))
  | t => applyTx0 w t

/-- handleTimerJob for one account at height h: the unbonding timer (reference counted in
    UpdateUnbonds, modelled as derived from the entries) and, only if the account is in the unstaking
    timer of `h`, RemoveUnstake(h) + Deposit.  (RemoveUnstake returns an error when the timer
    holds an account without a slot at `h`; that state is not reachable from the generated histories.) -/
def fire (h : Int) (a : Account) : Account :=
  let a1 := { a with unbonds := a.unbonds.filter (fun u => u.2.2 != h) }
  if a.utimers.contains h then
    { a1 with
      unstakes := a.unstakes.filter (fun u => u.2 != h),
      balance := a.balance + sumInt ((a.unstakes.filter (fun u => u.2 == h)).map (·.1)),
      utimers := a.utimers.filter (· != h) }
  else a1

/-- the transactions of a block in order; a failing one is rolled back, the others stay -/
def applyTxs (w : World) : List Tx → World × List Bool
  | [] => (w, [])
  | tx :: rest =>
    match applyTx w tx with
    | some w' => let r := applyTxs w' rest; (r.1, true :: r.2)
    | none => let r := applyTxs w rest; (r.1, false :: r.2)

/-- one block: height+1, the transactions, then the timers of the new height.
    `issue` = ICX minted to the treasury by the base transaction (a parameter). -/
def block (w : World) (txs : List Tx) (issue : Int := 0) : World × List Bool :=
  let w0 := { w with height := w.height + 1, rest := w.rest + issue, totalSupply := w.totalSupply + issue }
  let r := applyTxs w0 txs
  ({ r.1 with accts := r.1.accts.map (fire r.1.height) }, r.2)

/-- the state of a block after its transactions, before the timers -/
def preFire (w : World) (txs : List Tx) (issue : Int := 0) : World :=
  (applyTxs { w with height := w.height + 1, rest := w.rest + issue, totalSupply := w.totalSupply + issue } txs).1

/-- any history: a sequence of blocks, each with any transactions and an issued amount -/
def run (w : World) : List (List Tx × Int) → World
  | [] => w
  | op :: rest => run (block w op.1 op.2).1 rest

end Goloop.C34

namespace Goloop.C34

/-! ### penalties (parameterised step, outside `Tx` / `run`: not covered by the theorems)

`ExtensionStateImpl.slash` for P-Rep `k` with slashing `rate` (< 100 %) over the bonder accounts
`bonders` (the P-Rep's bonder list — a parameter): every bonder loses rate·bond and rate·unbond
for `k` from its bond entry, its unbond entry and its stake; the network stake and the supply
(burn) go down by the sum of both, the P-Rep's bonded amount and the total bond by the bond part. -/

def rateMul (rate v : Int) : Int := (v * rate).tdiv 10000

def slashAcct (a : Account) (k : Nat) (rate : Int) : Account × Int × Int :=
  let sb := sumInt ((a.bonds.filter (fun b => b.1 == k)).map (fun b => rateMul rate b.2))
  let su := sumInt ((a.unbonds.filter (fun u => u.1 == k)).map (fun u => rateMul rate u.2.1))
  ({ a with
     bonds := a.bonds.map (fun b => if b.1 == k then (b.1, b.2 - rateMul rate b.2) else b),
     unbonds := a.unbonds.map (fun u => if u.1 == k then (u.1, u.2.1 - rateMul rate u.2.1, u.2.2) else u),
     stake := a.stake - (sb + su) }, sb, su)

def slashWorld (w : World) (k : Nat) (rate : Int) (bonders : List Nat) : World :=
  bonders.foldl (fun w i =>
    let r := slashAcct (getAcct w i) k rate
    { setAcct w i r.1 with
      totalStake := w.totalStake - (r.2.1 + r.2.2),
      totalSupply := w.totalSupply - (r.2.1 + r.2.2),
      totalBond := w.totalBond - r.2.1,
      pBonded := fun x => if x = k then w.pBonded x - r.2.1 else w.pBonded x }) w

/-- a block whose only transaction is a penalty with slashing (`applied = false`: the report was
    ignored, e.g. the P-Rep is already in jail — observed, a parameter) -/
def penaltyBlock (w : World) (k : Nat) (rate : Int) (bonders : List Nat) (applied : Bool) : World :=
  let w0 := { w with height := w.height + 1 }
  let w1 := if applied then slashWorld w0 k rate bonders else w0
  { w1 with accts := w1.accts.map (fire w1.height) }

end Goloop.C34
