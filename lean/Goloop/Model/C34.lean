/-
  Model/C34: stake / unstake / delegation / bond / unbond accounting of the
  ICON extension at the current revision (icon/iiss/extension.go SetStake,
  SetDelegation, SetBond; icstate/account.go; icstate/unstake.go;
  timerhandler.go), as driven by icsim (one operation = one block: the
  transaction runs at height h = previous+1, then the timers of h fire).

  Parameters (not computed by the model): unstake lock period, unbonding
  period, slot maximum, the set of active P-Reps (`nPreps`: targets below it
  are active P-Reps), who may bond to whom (`mayBond`), claimed reward amounts.
  `rest` is all ICX held outside the modelled accounts (treasury, others).
-/
namespace Goloop.C34

abbrev Votes := List (Nat × Int)

structure Account where
  balance : Int := 0
  stake : Int := 0
  unstakes : List (Int × Int) := []        -- (value, expireHeight), ascending expire
  delegs : Votes := []
  bonds : Votes := []
  unbonds : List (Nat × Int × Int) := []   -- (to, value, expireHeight)
  deriving Repr, Inhabited

def sumInt (l : List Int) : Int := l.foldr (· + ·) 0

def Account.unstaking (a : Account) : Int := sumInt (a.unstakes.map (·.1))
def Account.delegating (a : Account) : Int := sumInt (a.delegs.map (·.2))
def Account.bonded (a : Account) : Int := sumInt (a.bonds.map (·.2))
def Account.unbonding (a : Account) : Int := sumInt (a.unbonds.map (·.2.1))
def Account.usingStake (a : Account) : Int := a.delegating + a.bonded + a.unbonding
def Account.totalStake (a : Account) : Int := a.stake + a.unstaking
/-- all ICX of the account: liquid + staked + unstaking -/
def Account.holdings (a : Account) : Int := a.balance + a.stake + a.unstaking

structure World where
  height : Int := 0
  accts : List Account := []
  rest : Int := 0
  totalSupply : Int := 0
  totalStake : Int := 0
  totalDeleg : Int := 0
  totalBond : Int := 0
  lock : Int := 0
  slotMax : Nat := 1
  unbondPeriod : Int := 0
  unbondMax : Nat := 100
  nPreps : Nat := 0
  deriving Repr, Inhabited

/-- Unstakes.decreaseUnstake at revision ≥ MultipleUnstakes, on the reversed list (last slot first) -/
def decreaseRev : List (Int × Int) → Int → List (Int × Int)
  | [], _ => []
  | u :: rest, remain =>
    if remain ≥ u.1 then
      if remain = u.1 then rest else decreaseRev rest (remain - u.1)
    else (u.1 - remain, u.2) :: rest

def decreaseUnstake (us : List (Int × Int)) (v : Int) : List (Int × Int) :=
  (decreaseRev us.reverse v).reverse

/-- Unstakes.findIndex + insert -/
def insertUnstake (us : List (Int × Int)) (u : Int × Int) : List (Int × Int) :=
  (decreaseRevInsert us.reverse u).reverse
where
  decreaseRevInsert : List (Int × Int) → (Int × Int) → List (Int × Int)
    | [], u => [u]
    | x :: rest, u => if u.2 ≥ x.2 then u :: x :: rest else x :: decreaseRevInsert rest u

/-- Unstakes.increaseUnstake at revision ≥ MultipleUnstakes -/
def increaseUnstake (us : List (Int × Int)) (v eh : Int) (slotMax : Nat) : List (Int × Int) :=
  if us.length ≥ slotMax then
    match us.reverse with
    | [] => us   -- slotMax = 0 and no slot: the Go code would index -1 (not generated)
    | last :: rest => ((last.1 + v, if eh > last.2 then eh else last.2) :: rest).reverse
  else insertUnstake us (v, eh)

inductive Tx where
  | none
  | stake (i : Nat) (v : Int)
  | deleg (i : Nat) (ds : Votes)
  | bond (i : Nat) (bs : Votes) (allowed : Bool)   -- allowed: every target is a P-Rep listing `i` as bonder
  | xfer (i j : Nat) (v : Int)
  | claim (i : Nat) (icx : Int) (ok : Bool)
  deriving Repr

def getAcct (w : World) (i : Nat) : Account := w.accts.getD i {}
def setAcct (w : World) (i : Nat) (a : Account) : World := { w with accts := w.accts.set i a }

def activeSum (w : World) (vs : Votes) : Int :=
  sumInt ((vs.filter (fun v => decide (v.1 < w.nPreps))).map (·.2))

/-- the `switch stakeInc.Sign()` of SetStake -/
def newUnstakes (us : List (Int × Int)) (stakeInc expire : Int) (slotMax : Nat) : List (Int × Int) :=
  if stakeInc ≥ 0 then decreaseUnstake us stakeInc else increaseUnstake us (-stakeInc) expire slotMax

/-- ExtensionStateImpl.SetStake; `none` = the transaction fails and is rolled back -/
def setStake (w : World) (i : Nat) (v : Int) : Option World :=
  let a := getAcct w i
  if v < a.usingStake then none else
  let stakeInc := v - a.stake
  if stakeInc = 0 then some w else
  let maxStake := a.balance + a.totalStake
  if maxStake < v then none else
  let expire := w.height + w.lock
  let us := newUnstakes a.unstakes stakeInc expire w.slotMax
  if v < 0 then none else
  let a1 := { a with unstakes := us, stake := v }
  let diff := a1.totalStake - a.totalStake
  if diff < 0 then none    -- the Go code panics here
  else if a.balance < diff then none
  else some { setAcct w i { a1 with balance := a.balance - diff } with totalStake := w.totalStake + stakeInc }

/-- ExtensionStateImpl.SetDelegation (accounting part) -/
def setDelegation (w : World) (i : Nat) (ds : Votes) : Option World :=
  let a := getAcct w i
  let usingNew := sumInt (ds.map (·.2)) + a.unbonding + a.bonded
  if a.stake < usingNew then none else
  some { setAcct w i { a with delegs := ds } with
         totalDeleg := w.totalDeleg + activeSum w ds - activeSum w a.delegs }

def lookupVote (vs : Votes) (k : Nat) : Int :=
  match vs.find? (fun v => v.1 == k) with
  | some v => v.2
  | none => 0

/-- one key of AccountState.UpdateUnbonds: `delta` = new bond − old bond for target `k` -/
def updateUnbond (ubs : List (Nat × Int × Int)) (k : Nat) (delta : Int) (expire : Int) : List (Nat × Int × Int) :=
  if delta = 0 then ubs
  else if delta < 0 then
    if ubs.any (fun u => u.1 == k) then
      ubs.map (fun u => if u.1 == k then (k, u.2.1 - delta, expire) else u)
    else ubs ++ [(k, -delta, expire)]
  else
    (ubs.map (fun u => if u.1 == k then (k, u.2.1 - delta, u.2.2) else u)).filter
      (fun u => !(u.1 == k && decide (u.2.1 ≤ 0)))

def voteKeys (a b : Votes) : List Nat := ((a.map (·.1)) ++ (b.map (·.1))).eraseDups

/-- ExtensionStateImpl.SetBond (accounting part) -/
def setBond (w : World) (i : Nat) (bs : Votes) (allowed : Bool) : Option World :=
  let a := getAcct w i
  if !allowed then none else
  if a.stake < sumInt (bs.map (·.2)) + a.delegating then none else
  let expire := w.unbondPeriod + w.height
  let ubs := (voteKeys a.bonds bs).foldl
    (fun ubs k => updateUnbond ubs k (lookupVote bs k - lookupVote a.bonds k) expire) a.unbonds
  let a1 := { a with bonds := bs, unbonds := ubs }
  if ubs.length > w.unbondMax then none
  else if a1.stake < a1.usingStake then none
  else some { setAcct w i a1 with totalBond := w.totalBond + activeSum w bs - activeSum w a.bonds }

/-- worldContext.Transfer -/
def transfer (w : World) (i j : Nat) (v : Int) : Option World :=
  if v < 0 then none
  else if v = 0 ∨ i = j then some w
  else
    let a := getAcct w i
    if a.balance < v then none else
    let w1 := setAcct w i { a with balance := a.balance - v }
    let b := getAcct w1 j
    some (setAcct w1 j { b with balance := b.balance + v })

/-- ClaimIScore: `icx` is paid by the treasury (part of `rest`); amount and success are parameters -/
def claim (w : World) (i : Nat) (icx : Int) (ok : Bool) : Option World :=
  if !ok then none else
  let a := getAcct w i
  some { setAcct w i { a with balance := a.balance + icx } with rest := w.rest - icx }

/-- the acting accounts exist (the drivers reject other lines) -/
def Tx.inRange (n : Nat) : Tx → Bool
  | .none => true
  | .stake i _ => decide (i < n)
  | .deleg i _ => decide (i < n)
  | .bond i _ _ => decide (i < n)
  | .xfer i j _ => decide (i < n) && decide (j < n)
  | .claim i _ _ => decide (i < n)

def applyTx (w : World) (tx : Tx) : Option World :=
  if !tx.inRange w.accts.length then none else
  match tx with
  | .none => some w
  | .stake i v => setStake w i v
  | .deleg i ds => setDelegation w i ds
  | .bond i bs al => setBond w i bs al
  | .xfer i j v => transfer w i j v
  | .claim i icx ok => claim w i icx ok

/-- handleTimerJob for one account at height h -/
def fire (h : Int) (a : Account) : Account :=
  { a with
    unbonds := a.unbonds.filter (fun u => u.2.2 != h),
    unstakes := a.unstakes.filter (fun u => u.2 != h),
    balance := a.balance + sumInt ((a.unstakes.filter (fun u => u.2 == h)).map (·.1)) }

/-- one block: height+1, the transaction (rolled back on failure), then the timers.
    `issue` = ICX minted to the treasury by the base transaction (a parameter). -/
def block (w : World) (tx : Tx) (issue : Int := 0) : World × Bool :=
  let w0 := { w with height := w.height + 1, rest := w.rest + issue, totalSupply := w.totalSupply + issue }
  let (w1, ok) := match applyTx w0 tx with
    | some w' => (w', true)
    | none => (w0, false)
  ({ w1 with accts := w1.accts.map (fire w1.height) }, ok)

end Goloop.C34

namespace Goloop.C34

/-- any history: a sequence of blocks, each with one (possibly failing) transaction and an issued amount -/
def run (w : World) : List (Tx × Int) → World
  | [] => w
  | op :: rest => run (block w op.1 op.2).1 rest

end Goloop.C34
