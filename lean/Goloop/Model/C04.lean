/-
  Model/C04: `consensus/voteset.go` — `voteSet` transcribed field by field.

  * `msgs []*VoteMessage`      → `slots : List (Option Vote)`
  * `counters []counter`        → `counters : List Counter` (append at the end, swap-remove)
  * `maxIndex int` (‑1 = unset) → `maxIndex : Option Nat`
  * `count int`                 → `count : Nat`
  * `mask *BitArray`            → `mask : List Bool`
  * `round int32`               → `round : Int`

  A vote is what `add` looks at: height/round/type/timestamp (for
  `EqualExceptSigs`) and its round decision digest `d` (an abstract id; the
  real digest is SHA3 of (BlockID, PartSetIDAndAppData, NTSVoteBases) – never a
  nil slice, so the Go test `rdd != nil` is constantly true when `ok`, also for
  the digest of a *nil vote*).  Index-out-of-range panics of Go are explicit
  (`Dec.panic`, `none` of `add`).
-/
import Goloop.Base.Bytes
namespace Goloop.C04

structure Vote where
  h : Nat
  r : Int
  t : Nat
  d : Nat
  ts : Int
deriving DecidableEq, Repr

structure Counter where
  d : Nat
  cnt : Nat
deriving DecidableEq, Repr

structure VS where
  slots : List (Option Vote)
  maxIndex : Option Nat
  mask : List Bool
  round : Int
  counters : List Counter
  count : Nat
deriving Repr

/-- `newVoteSet(n)` -/
def new (n : Nat) : VS :=
  { slots := List.replicate n none, maxIndex := none, mask := List.replicate n false,
    round := -1, counters := [], count := 0 }

/-- `VoteMessage.EqualExceptSigs` = `voteBase.Equal` ∧ same timestamp -/
def equalExceptSigs (a b : Vote) : Bool :=
  a.h == b.h && a.r == b.r && a.t == b.t && a.d == b.d && a.ts == b.ts

/-- result of `getOverTwoThirdsRoundDecisionDigest` -/
inductive Dec where
  | decided (d : Nat)
  | no
  | panic
deriving DecidableEq, Repr

/-- the `for i, c := range vs.counters { if c.count > max {vs.maxIndex = i; max = c.count} }` loop;
    `i` = current index, `mi` = vs.maxIndex so far, `mx` = max so far. -/
def argmaxLoop : List Counter → Nat → Option Nat → Nat → Option Nat × Nat
  | [], _, mi, mx => (mi, mx)
  | c :: cs, i, mi, mx =>
    if c.cnt > mx then argmaxLoop cs (i + 1) (some i) c.cnt else argmaxLoop cs (i + 1) mi mx

/-- `getOverTwoThirdsRoundDecisionDigest` (mutates the cache `maxIndex`). -/
def getDecision (s : VS) : VS × Dec :=
  match s.maxIndex with
  | none =>
    let r := argmaxLoop s.counters 0 none 0
    let s' := { s with maxIndex := r.1 }
    if r.2 > s.slots.length * 2 / 3 then
      match r.1 with
      | some i => match s.counters[i]? with
        | some c => (s', Dec.decided c.d)
        | none => (s', Dec.panic)
      | none => (s', Dec.panic)          -- vs.counters[-1]
    else (s', Dec.no)
  | some i =>
    match s.counters[i]? with
    | none => (s, Dec.panic)             -- vs.counters[vs.maxIndex] out of range
    | some c =>
      if c.cnt > s.slots.length * 2 / 3 then (s, Dec.decided c.d) else (s, Dec.no)

/-- index of the first counter with digest `d` -/
def findCounter (cs : List Counter) (d : Nat) : Option Nat := cs.findIdx? (fun c => c.d == d)

/-- the decrement loop of `add` for the replaced vote's digest:
    `counters[i].count--; if 0 { counters[i] = counters[last]; counters = counters[:last] }` -/
def decCounter (cs : List Counter) (d : Nat) : List Counter :=
  match findCounter cs d with
  | none => cs
  | some i =>
    match cs[i]? with
    | none => cs
    | some c =>
      if c.cnt - 1 = 0 then
        match cs.getLast? with
        | some l => (cs.set i l).dropLast
        | none => cs
      else cs.set i { c with cnt := c.cnt - 1 }

/-- the increment loop of `add` for the new vote's digest (append a fresh counter if not found) -/
def incCounter (cs : List Counter) (d : Nat) : List Counter :=
  match findCounter cs d with
  | some i =>
    match cs[i]? with
    | some c => cs.set i { c with cnt := c.cnt + 1 }
    | none => cs
  | none => cs ++ [{ d := d, cnt := 1 }]

/-- the part of `add` after the early returns -/
def place (s : VS) (index : Nat) (v : Vote) (removeOld : Option Vote) : VS :=
  let cs1 := match removeOld with
    | some o => decCounter s.counters o.d
    | none => s.counters
  let cnt1 := match removeOld with
    | some _ => s.count - 1
    | none => s.count
  { slots := s.slots.set index (some v),
    maxIndex := none,
    mask := s.mask.set index true,
    round := v.r,
    counters := incCounter cs1 v.d,
    count := cnt1 + 1 }

/-- `voteSet.add(index, v)`; `none` = Go panics (index out of range) before touching anything. -/
def add (s : VS) (index : Nat) (v : Vote) : Option (VS × Bool) :=
  match s.slots[index]? with
  | none => none
  | some none => some (place s index v none, true)
  | some (some o) =>
    if equalExceptSigs o v then some (s, false)
    else
      let r := getDecision s
      match r.2 with
      | Dec.panic => none
      | Dec.decided rdd =>
        if rdd = o.d then some (r.1, false) else some (place r.1 index v (some o), true)
      | Dec.no => some (place r.1 index v (some o), true)

/-- `hasOverTwoThirds` -/
def hasOverTwoThirds (s : VS) : Bool := s.count > s.slots.length * 2 / 3

/-- number of slots currently holding a vote with digest `d` (the independent recount) -/
def countSlots (slots : List (Option Vote)) (d : Nat) : Nat :=
  slots.countP (fun o => match o with | some v => v.d == d | none => false)

def filled (slots : List (Option Vote)) : Nat := slots.countP (fun o => o.isSome)

/-- pure view of the decision (drops the cache update) -/
def decision (s : VS) : Dec := (getDecision s).2

/-- run a sequence of adds, ignoring results (a panicking add leaves the state) -/
def addAll (s : VS) : List (Nat × Vote) → VS
  | [] => s
  | (i, v) :: rest =>
    match add s i v with
    | some (s', _) => addAll s' rest
    | none => addAll s rest

end Goloop.C04
