/-
  Model/C15 (shared by C15 and C16): ICX accounting of one block.

  Transcribed from
    service/transaction/transactionhandler.go  Execute / DoExecute / checkBalance
    service/transaction/transaction_v3.go      PreValidate (cumulative balance check)
    service/contract/transferhandler.go        DoExecuteSync
    service/contract/callhandler.go            TransferAndCallHandler (transfer to a contract address)
    service/contract/callcontext.go, callframe.go  pushFrame / popFrame / deductSteps / logs
    service/transition.go, transition_se.go    validateTxs, executeTxsSequential, fee gathering

  Accounts are `Fin n` (a finite universe, so that "sum of all balances" is a
  finite sum); the world is balance + a storage word per (account, key) + the object graph of
  the account's current contract.
  World snapshots and `Reset` are value copies here; that this is what the real
  world state does is property C14.  Fee sharing / deposits are outside the
  property ("without fee sharing") and not modelled: `redeemed == nil`.
  Contract bodies are abstract programs (`Op`).  The program interpreter takes
  a fuel = maximal call depth (Go: bounded by the step limit / stack).
-/
namespace Goloop.C15

/-- object graph of a contract's current code: (nextHash, graph data) -/
abbrev Graph := Nat × Nat
/-- objectGraph.Changed with hasData = true: independent of the old graph; (0, empty) is nil -/
def graphChanged (nh g : Nat) : Option Graph := if nh = 0 ∧ g = 0 then none else some (nh, g)

structure World (n : Nat) where
  bal : Fin n → Int
  store : Fin n → Nat → Nat
  graph : Fin n → Option Graph

def updF {n : Nat} {α : Type} (f : Fin n → α) (a : Fin n) (v : α) : Fin n → α :=
  fun x => if x = a then v else f x

def World.setBal {n} (w : World n) (a : Fin n) (v : Int) : World n := { w with bal := updF w.bal a v }
def World.setStore {n} (w : World n) (a : Fin n) (k v : Nat) : World n :=
  { w with store := updF w.store a (fun k' => if k' = k then v else w.store a k') }

def World.setGraph {n} (w : World n) (a : Fin n) (g : Option Graph) : World n := { w with graph := updF w.graph a g }

/-- chain configuration read by the code through the world context -/
structure Cfg (n : Nat) where
  price : Nat              -- StepPrice
  dflt : Nat               -- StepsFor(StepTypeDefault, 1)
  input : Nat              -- StepsFor(StepTypeInput, 1)
  call : Nat               -- StepsFor(StepTypeContractCall, 1)
  invoke : Nat             -- GetStepLimit(StepLimitTypeInvoke)
  legacyFee : Bool         -- Revision().LegacyFeeCharge()
  legacyBal : Bool         -- Revision().LegacyBalanceCheck()
  isContract : Fin n → Bool  -- Address.IsContract()
  hasContract : Fin n → Bool -- AccountState.IsContract() (a contract account exists)
  treasury : Fin n

/-- status codes (module.Status) -/
def stOutOfStep : Nat := 10
def stOutOfBalance : Nat := 11
def stTimeout : Nat := 12
def stInvalidParameter : Nat := 6
def stContractNotFound : Nat := 2
def stUnknown : Nat := 1
def stReverted : Nat := 32

/-- abstract contract program -/
inductive Op (n : Nat) where
  | setv (k v : Nat)                       -- mutate own storage
  | setg (nh g : Nat)                      -- SetObjGraph of the own current contract (no-op without contract)
  | emit (t : Nat)                         -- event log
  | btp (nid : Nat)                        -- BTP message
  | burn (steps : Nat)                     -- consume steps
  | xfer (to : Fin n) (v : Int) (propagate : Bool)   -- inter-call: plain transfer in its own frame
  | call (to : Fin n) (v : Int) (lim : Nat) (body : List (Op n)) (propagate : Bool) -- inter-call: nested program
  | fail (code : Nat)                      -- revert
  | timeout                                -- the frame ends with the Timeout status (cleanUpFrames class)

/-- callFrame.deductSteps: returns new stepUsed and ok -/
def deduct (used limit s : Nat) : Nat × Bool :=
  if used + s > limit then (limit, false) else (used + s, true)

/-- TransferHandler.DoExecuteSync on the world; status 0 = ok.  NB the sender
    is debited before the recipient check. -/
def doTransfer {n} (cfg : Cfg n) (w : World n) (frm to : Fin n) (v : Int) : Nat × World n :=
  if cfg.hasContract frm != cfg.isContract frm then (stInvalidParameter, w)
  else if v < 0 then (stInvalidParameter, w)
  else if w.bal frm < v then (stOutOfBalance, w)
  else
    let w1 := w.setBal frm (w.bal frm - v)
    if cfg.hasContract to != cfg.isContract to then (stInvalidParameter, w1)
    else (0, w1.setBal to (w1.bal to + v))

/-- tag of the ICXTransfer event log in the model's log lists -/
def icxTransferTag : Nat := 1000

/-- DoExecuteSync emits an ICXTransfer event log when the sender is a contract address and value > 0 -/
def xferLogs {n} (cfg : Cfg n) (frm : Fin n) (v : Int) : List Nat :=
  if cfg.isContract frm ∧ v > 0 then [icxTransferTag] else []

/-- what `cc.Call` hands back to the caller after handleResult/popFrame -/
structure FrameOut (n : Nat) where
  status : Nat
  w : World n
  logs : List Nat
  btp : Nat
  used : Nat

/-- popFrame(success): on success the frame's logs/BTP messages go to the
    parent; on failure `cc.Reset(frame.snapshot)` and the frame's logs are dropped. -/
def closeFrame {n} (w0 : World n) (status : Nat) (w : World n) (logs : List Nat) (btp used : Nat) : FrameOut n :=
  if status = 0 then ⟨0, w, logs, btp, used⟩ else ⟨status, w0, [], 0, used⟩

/-- inter-call TransferHandler.ExecuteSync in its own frame -/
def xferFrame {n} (cfg : Cfg n) (w0 : World n) (frm to : Fin n) (v : Int) (limit : Nat) : FrameOut n :=
  let (used, ok) := deduct 0 limit cfg.call          -- ApplyStepsForInterCall → ApplyCallSteps
  if !ok then closeFrame w0 stOutOfStep w0 [] 0 used
  else
    let (st, w) := doTransfer cfg w0 frm to v
    closeFrame w0 st w (xferLogs cfg frm v) 0 used

structure OpsOut (n : Nat) where
  status : Nat
  w : World n
  logs : List Nat
  btp : Nat
  used : Nat

/-- the body of a scripted handler, running in the frame (logs, btp, used, limit);
    `callF` runs a nested program frame. After every `cc.Call` the caller does
    `cc.DeductSteps(used)`, which cannot fail because the callee's limit is at
    most the caller's available steps.  A Timeout of a nested frame cannot be caught:
    `handleResult` → `cleanUpFrames(target)` unwinds every frame up to the target of the
    waiting `Call`, resets the world to the target frame's snapshot and drops all their logs. -/
def runOps {n} (cfg : Cfg n)
    (callF : (frm to : Fin n) → Int → List (Op n) → World n → Nat → FrameOut n)
    (self : Fin n) (limit : Nat) :
    List (Op n) → World n → List Nat → Nat → Nat → OpsOut n
  | [], w, logs, btp, used => ⟨0, w, logs, btp, used⟩
  | op :: rest, w, logs, btp, used =>
    match op with
    | .setv k v => runOps cfg callF self limit rest (w.setStore self k v) logs btp used
    | .setg nh g =>
      runOps cfg callF self limit rest
        (if cfg.hasContract self then w.setGraph self (graphChanged nh g) else w) logs btp used
    | .emit t => runOps cfg callF self limit rest w (logs ++ [t]) btp used
    | .btp _ => runOps cfg callF self limit rest w logs (btp + 1) used
    | .burn s =>
      let (u, ok) := deduct used limit s
      if ok then runOps cfg callF self limit rest w logs btp u
      else ⟨stOutOfStep, w, logs, btp, u⟩
    | .xfer to v prop =>
      let r := xferFrame cfg w self to v (limit - used)
      let u := (deduct used limit r.used).1
      if r.status ≠ 0 && (prop || r.status == stTimeout) then ⟨r.status, r.w, logs ++ r.logs, btp + r.btp, u⟩
      else runOps cfg callF self limit rest r.w (logs ++ r.logs) (btp + r.btp) u
    | .call to v lim body prop =>
      let avail := limit - used
      let l := if lim > 0 ∧ lim < avail then lim else avail
      let r := callF self to v body w l
      let u := (deduct used limit r.used).1
      if r.status ≠ 0 && (prop || r.status == stTimeout) then ⟨r.status, r.w, logs ++ r.logs, btp + r.btp, u⟩
      else runOps cfg callF self limit rest r.w (logs ++ r.logs) (btp + r.btp) u
    | .fail code => ⟨stReverted + code % 8, w, logs, btp, used⟩
    | .timeout => ⟨stTimeout, w, logs, btp, used⟩

/-- a scripted handler in its own frame (`inter` = it is an inter-call and pays
    the contractCall step first); a positive value is moved first, as
    TransferAndCallHandler does. -/
def scriptFrame {n} (cfg : Cfg n) : Nat → Bool → (frm self : Fin n) → Int → List (Op n) → World n → Nat → FrameOut n
  | 0, _, _, _, _, _, w0, _ => ⟨stUnknown, w0, [], 0, 0⟩
  | fuel + 1, inter, frm, self, v, ops, w0, limit =>
    let (used, ok) := if inter then deduct 0 limit cfg.call else (0, true)
    if !ok then closeFrame w0 stOutOfStep w0 [] 0 used
    else
      let (st, w1) := if v > 0 then doTransfer cfg w0 frm self v else (0, w0)
      if st ≠ 0 then closeFrame w0 st w1 [] 0 used
      else
        let r := runOps cfg (fun f t v' b w l => scriptFrame cfg fuel true f t v' b w l) self limit ops w1
          (if v > 0 then xferLogs cfg frm v else []) 0 used
        closeFrame w0 r.status r.w r.logs r.btp r.used

inductive TxKind (n : Nat) where
  | transfer
  | message
  | call (prog : List (Op n))

structure Tx (n : Nat) where
  frm : Fin n
  to : Fin n
  value : Int
  limit : Nat          -- stepLimit of the transaction
  inputBytes : Nat     -- MeasureBytesOfData(rev, data)
  kind : TxKind n

/-- `cc.Call(th.chandler, cc.StepAvailable())` for the handler ContractManager.GetHandler picks -/
def topFrame {n} (cfg : Cfg n) (fuel : Nat) (tx : Tx n) (w0 : World n) (limit : Nat) : FrameOut n :=
  match tx.kind with
  | .call prog => scriptFrame cfg fuel false tx.frm tx.to tx.value prog w0 limit
  | _ =>
    if cfg.isContract tx.to then
      -- TransferAndCallHandler.ExecuteAsync: transfer, then (no API info) ContractNotFound;
      -- on any error the deferred ApplyCallSteps charges the call step and may turn it into OutOfStep
      let (st, w) := doTransfer cfg w0 tx.frm tx.to tx.value
      let st := if st = 0 then stContractNotFound else st
      let (used, ok) := deduct 0 limit cfg.call
      closeFrame w0 (if ok then st else stOutOfStep) w [] 0 used
    else
      let (st, w) := doTransfer cfg w0 tx.frm tx.to tx.value
      closeFrame w0 st w (xferLogs cfg tx.frm tx.value) 0 0

structure Receipt where
  status : Nat
  stepUsed : Nat
  stepPrice : Nat
  logs : List Nat
  btp : Nat

/-- `Execute`: step limit clipped to the invoke limit -/
def clipLimit {n} (cfg : Cfg n) (tx : Tx n) : Nat := if tx.limit > cfg.invoke then cfg.invoke else tx.limit

/-- transactionHandler.DoExecute in the base frame: status, world, logs of the base
    frame and `cc.StepUsed()`. `wInit` is the block's initial snapshot (legacy balance
    check), `w` the world before the transaction. -/
def doExecute {n} (cfg : Cfg n) (fuel : Nat) (wInit w : World n) (tx : Tx n) : FrameOut n :=
  let limit := clipLimit cfg tx
  let need : Int := (cfg.price : Int) * tx.limit + tx.value
  let cbal := if cfg.legacyBal then wInit.bal tx.frm else w.bal tx.frm
  if cbal < need then ⟨stOutOfBalance, w, [], 0, 0⟩            -- checkBalance
  else
    let (u1, ok1) := deduct 0 limit cfg.dflt                     -- ApplySteps(default, 1)
    if !ok1 then ⟨stOutOfStep, w, [], 0, u1⟩
    else
      let (u2, ok2) := deduct u1 limit (cfg.input * tx.inputBytes)  -- ApplySteps(input, cnt)
      if !ok2 then ⟨stOutOfStep, w, [], 0, u2⟩
      else
        let f := topFrame cfg fuel tx w (limit - u2)
        -- `code == scoreresult.TimeoutError`: it consumes all steps
        ⟨f.status, f.w, f.logs, f.btp, if f.status = stTimeout then limit else (deduct u2 limit f.used).1⟩

/-- the fee part of `Execute`: sustain the minimum, the `for bal.Cmp(fee) < 0` loop
    unrolled (it runs at most twice), the charge, the receipt. `w` = wcs, the
    snapshot taken before the transaction; `r` = outcome of DoExecute. -/
def settle {n} (cfg : Cfg n) (w : World n) (frm : Fin n) (r : FrameOut n) : Receipt × World n :=
  let stepUsed := if r.used < cfg.dflt then cfg.dflt else r.used   -- sustain minimum
  let fee : Int := (stepUsed : Int) * cfg.price
  let bal := r.w.bal frm
  let (status, wB, stepUsed, price) : Nat × World n × Nat × Nat :=
    if bal < fee then
      if cfg.legacyFee then (r.status, r.w, 0, cfg.price)
      else if r.status = 0 then
        -- rollback all changes, status := OutOfBalance, retry with the initial balance
        if w.bal frm < fee then (stOutOfBalance, w, stepUsed, 0)
        else (stOutOfBalance, w, stepUsed, cfg.price)
      else (stOutOfBalance, r.w, stepUsed, 0)
    else (r.status, r.w, stepUsed, cfg.price)
  let fee' : Int := (stepUsed : Int) * price
  let w' := wB.setBal frm (wB.bal frm - fee')
  (⟨status, stepUsed, price, if status = 0 then r.logs else [], if status = 0 then r.btp else 0⟩, w')

/-- transactionHandler.Execute (normal group, not estimate) -/
def execTx {n} (cfg : Cfg n) (fuel : Nat) (wInit w : World n) (tx : Tx n) : Receipt × World n :=
  settle cfg w tx.frm (doExecute cfg fuel wInit w tx)

/-- transactionV3.PreValidate(wc, update = true) on the validation world (balances only) -/
def preValidate {n} (cfg : Cfg n) (vb : Fin n → Int) (tx : Tx n) : Option (Fin n → Int) :=
  if tx.limit < cfg.dflt + cfg.input * tx.inputBytes then none
  else
    let trans : Int := (tx.limit : Int) * cfg.price + tx.value
    if vb tx.frm < trans then none
    else
      let vb1 := updF vb tx.frm (vb tx.frm - trans)
      some (updF vb1 tx.to (vb1 tx.to + tx.value))

def validateTxs {n} (cfg : Cfg n) : (Fin n → Int) → List (Tx n) → Bool
  | _, [] => true
  | vb, tx :: rest =>
    -- Verify(): value >= 0 (stepLimit >= 0 holds by type)
    if tx.value < 0 then false
    else match preValidate cfg vb tx with
      | none => false
      | some vb' => validateTxs cfg vb' rest

/-- executeTxsSequential -/
def execTxs {n} (cfg : Cfg n) (fuel : Nat) (wInit : World n) : World n → List (Tx n) → List Receipt × World n
  | w, [] => ([], w)
  | w, tx :: rest =>
    let (r, w1) := execTx cfg fuel wInit w tx
    let (rs, w2) := execTxs cfg fuel wInit w1 rest
    (r :: rs, w2)

def gatheredFee : List Receipt → Int
  | [] => 0
  | r :: rs => (r.stepUsed : Int) * r.stepPrice + gatheredFee rs

/-- transition.doExecute: `none` = the block is rejected by validation -/
def execBlock {n} (cfg : Cfg n) (fuel : Nat) (w : World n) (txs : List (Tx n)) : Option (List Receipt × World n) :=
  if validateTxs cfg w.bal txs then
    let (rs, w1) := execTxs cfg fuel w w txs
    some (rs, w1.setBal cfg.treasury (w1.bal cfg.treasury + gatheredFee rs))
  else none

def total {n} (w : World n) : Int := ((List.finRange n).map w.bal).sum

end Goloop.C15
