/-
  Model/C19: common/db/layer_db.go (layerDB / layerBucket) over a map database
  (common/db/map_db.go), transcribed method by method.

  Representation choices (the only abstractions):
  * the underlying `mapDatabase` is an association list `Store` keyed by
    (bucket id, key); `sget/sset/sdel` are `mapBucket.Get/Set/Delete`.
  * Go keeps, per layer bucket, `data map[string]*list.Element` pointing into
    the one shared `list.List` of `layerBucketItem{bk,key,value}`.  The model
    keeps the shared list (`items`, front → back) and represents
    `bk.data[key]` by "the element of `items` whose (bk,key) is this one"
    (`findItem`).  `bk.data == nil` (after a committing flush) is the Boolean
    stored per bucket in `buckets`.
  * a Go `nil` value is `none`; `Set` copies its argument into a fresh non-nil
    slice (`make([]byte,len)`), so a stored value is always `some bytes`.
-/
import Goloop.Base.Bytes
namespace Goloop.C19

abbrev BK := Bytes × Bytes
abbrev Store := List (BK × Bytes)

/-- `mapBucket.Get` (and `Has` = `isSome`) -/
def sget : Store → BK → Option Bytes
  | [], _ => none
  | (k', v) :: r, k => if k' = k then some v else sget r k

/-- `mapBucket.Delete` -/
def sdel (s : Store) (k : BK) : Store := s.filter (fun e => decide (e.1 ≠ k))

/-- `mapBucket.Set` -/
def sset (s : Store) (k : BK) (v : Bytes) : Store := (k, v) :: sdel s k

structure Item where
  bk : Bytes
  key : Bytes
  value : Option Bytes
  deriving DecidableEq, Repr

def Item.bkey (it : Item) : BK := (it.bk, it.key)

/-- `layerDB` -/
structure LDB where
  real : Store
  flushed : Bool
  /-- `ldb.buckets`: id ↦ (`bk.data != nil`) -/
  buckets : List (Bytes × Bool)
  /-- `ldb.list`, front first -/
  items : List Item
  deriving Repr

def newLayerDB (real : Store) : LDB := { real := real, flushed := false, buckets := [], items := [] }

/-- what `GetBucket` hands out: a `*layerBucket` or (after a commit) the real bucket -/
inductive Handle where
  | layer (id : Bytes)
  | real (id : Bytes)
  deriving DecidableEq, Repr

def Handle.id : Handle → Bytes
  | .layer id => id
  | .real id => id

def lookupBucket (bs : List (Bytes × Bool)) (id : Bytes) : Option Bool :=
  match bs with
  | [] => none
  | (i, b) :: r => if i = id then some b else lookupBucket r id

/-- `layerDB.GetBucket` (the map database never fails) -/
def getBucket (s : LDB) (id : Bytes) : LDB × Handle :=
  match lookupBucket s.buckets id with
  | some _ => (s, .layer id)
  | none =>
    if s.flushed then (s, .real id)
    else ({ s with buckets := (id, true) :: s.buckets }, .layer id)

def findItem (items : List Item) (k : BK) : Option Item :=
  items.find? (fun it => decide (it.bkey = k))

/-- `if element, ok := bk.data[key]; ok { return element.value } ; return <fallback>` -/
def ival (items : List Item) (k : BK) (d : Option Bytes) : Option Bytes :=
  match findItem items k with
  | some it => it.value
  | none => d

/-- `bk.data != nil` of an existing layer bucket -/
def dataLive (s : LDB) (id : Bytes) : Bool := (lookupBucket s.buckets id).getD false

/-- `layerBucket.Get` / real `Get` -/
def bkGet (s : LDB) (h : Handle) (key : Bytes) : Option Bytes :=
  match h with
  | .real id => sget s.real (id, key)
  | .layer id =>
    if dataLive s id then ival s.items (id, key) (sget s.real (id, key))
    else sget s.real (id, key)

/-- `layerBucket.Has` / real `Has` -/
def bkHas (s : LDB) (h : Handle) (key : Bytes) : Bool :=
  match h with
  | .real id => (sget s.real (id, key)).isSome
  | .layer id =>
    if dataLive s id then
      match findItem s.items (id, key) with
      | some it => it.value.isSome
      | none => (sget s.real (id, key)).isSome
    else (sget s.real (id, key)).isSome

/-- `MoveToBack(element)` followed by the assignment of the element's value;
    or `PushBack` of a new item when the key has no element yet. -/
def touch (items : List Item) (k : BK) (v : Option Bytes) : List Item :=
  match findItem items k with
  | some it => items.erase it ++ [{ it with value := v }]
  | none => items ++ [{ bk := k.1, key := k.2, value := v }]

/-- `layerBucket.Set` -/
def bkSet (s : LDB) (h : Handle) (key value : Bytes) : LDB :=
  match h with
  | .real id => { s with real := sset s.real (id, key) value }
  | .layer id =>
    if dataLive s id then { s with items := touch s.items (id, key) (some value) }
    else { s with real := sset s.real (id, key) value }

/-- `layerBucket.Delete` -/
def bkDelete (s : LDB) (h : Handle) (key : Bytes) : LDB :=
  match h with
  | .real id => { s with real := sdel s.real (id, key) }
  | .layer id =>
    if dataLive s id then { s with items := touch s.items (id, key) none }
    else { s with real := sdel s.real (id, key) }

def applyItem (st : Store) (it : Item) : Store :=
  match it.value with
  | some v => sset st it.bkey v
  | none => sdel st it.bkey

/-- the replay loop of `Flush(true)` -/
def replay (st : Store) (items : List Item) : Store := items.foldl applyItem st

/-- `layerDB.Flush`; the Boolean result is `err == nil` -/
def flush (s : LDB) (write : Bool) : LDB × Bool :=
  if s.flushed then
    if !write then (s, false) else (s, true)
  else if write then
    ({ real := replay s.real s.items, flushed := true,
       buckets := s.buckets.map (fun b => (b.1, false)), items := [] }, true)
  else
    ({ s with buckets := s.buckets.map (fun b => (b.1, true)), items := [], flushed := false }, true)

/-! ### observation functions used by the theorems -/

/-- what a client sees through the layer: `GetBucket(id)` then `Get(key)` -/
def view (s : LDB) (k : BK) : Option Bytes :=
  let r := getBucket s k.1
  bkGet r.1 r.2 k.2

/-- what is in the underlying database -/
def base (s : LDB) (k : BK) : Option Bytes := sget s.real k

/-! ### histories and the specification they are compared with -/

/-- a handle is usable if `GetBucket` has handed it out: a layer bucket that is
    registered in `ldb.buckets`, or a real bucket (only handed out after a commit). -/
def Valid (s : LDB) : Handle → Prop
  | .layer id => (lookupBucket s.buckets id).isSome = true
  | .real _ => s.flushed = true

inductive Op where
  | open (id : Bytes)
  | set (h : Handle) (key value : Bytes)
  | del (h : Handle) (key : Bytes)
  | flush (write : Bool)

def step (s : LDB) : Op → LDB
  | .open id => (getBucket s id).1
  | .set h k v => bkSet s h k v
  | .del h k => bkDelete s h k
  | .flush w => (flush s w).1

def run (s : LDB) (ops : List Op) : LDB := ops.foldl step s

def OpOk (s : LDB) : Op → Prop
  | .set h _ _ => Valid s h
  | .del h _ => Valid s h
  | _ => True

/-- every bucket operation of the history goes through a handle obtained earlier -/
def HistOk : LDB → List Op → Prop
  | _, [] => True
  | s, o :: r => OpOk s o ∧ HistOk (step s o) r

/-- states reachable from a fresh layer over any database by any history -/
def Reachable (s : LDB) : Prop :=
  ∃ (st : Store) (ops : List Op), HistOk (newLayerDB st) ops ∧ s = run (newLayerDB st) ops

/-- pointwise update of a `Key → Option Val` function -/
def upd (f : BK → Option Bytes) (k : BK) (v : Option Bytes) : BK → Option Bytes :=
  fun k' => if k = k' then v else f k'

/-- the specification: two plain functions and the mode -/
structure Abs where
  base : BK → Option Bytes
  view : BK → Option Bytes
  flushed : Bool

def abs (s : LDB) : Abs := { base := base s, view := view s, flushed := s.flushed }

def specStep (a : Abs) : Op → Abs
  | .open _ => a
  | .set h k v =>
    if a.flushed then { a with base := upd a.base (h.id, k) (some v), view := upd a.view (h.id, k) (some v) }
    else { a with view := upd a.view (h.id, k) (some v) }
  | .del h k =>
    if a.flushed then { a with base := upd a.base (h.id, k) none, view := upd a.view (h.id, k) none }
    else { a with view := upd a.view (h.id, k) none }
  | .flush true => if a.flushed then a else { base := a.view, view := a.view, flushed := true }
  | .flush false => if a.flushed then a else { base := a.base, view := a.base, flushed := false }

def specRun (a : Abs) (ops : List Op) : Abs := ops.foldl specStep a

end Goloop.C19
