/-
  Model/C18: `Prove` of common/trie/ompt on the byte level.

  `mpt.Prove(k, proof)` on a trie that only knows its root hash walks
  hash.prove → deserialize → {leaf,extension,branch}.prove.  This file
  transcribes the RLP parser (rlp.go: rlpParseHeader / rlpReadSize /
  rlpParseList / rlpParseBytes), `deserialize`, `nodeFromLink`, `decodeKeys`
  (node.go) and the three `prove` methods.  Results:
    ok v      value proved
    notfound  common.ErrNotFound
    reject    any other error (ErrIllegalArgument, RLP errors, ...)
    panic     the Go code panics (index out of range / nil dereference) —
              only reachable when the *root itself* is the hash of malformed bytes.
  The model describes the code *with* fix F8: branch.prove returns ErrNotFound
  for a value-less branch instead of (nil, nil) which crashed mptForBytes.Prove;
  deserialize refuses an empty key header (was: index out of range) and an
  extension whose next link is empty (was: nil dereference in extension.prove).
  With the fix `panic` is unreachable for any input (Props: `prove_never_panics`).
-/
import Goloop.Model.C17
namespace Goloop.C18
open Goloop.C17

inductive Res (α : Type) where
  | ok (a : α)
  | err
  | panic

def Res.bind {α β : Type} (r : Res α) (f : α → Res β) : Res β :=
  match r with
  | .ok a => f a
  | .err => .err
  | .panic => .panic

instance : Monad Res where
  pure := .ok
  bind := Res.bind

/-- `rlpReadSize(b, slen)` (slen ≥ 1) -/
def readSize (b : Bytes) (slen : Nat) : Res Nat :=
  if slen > b.length then .err
  else
    let s := beNat (b.take slen)
    if s < 56 ∨ b.head? = some 0 then .err else .ok s

/-- `len(buf) > 1 && buf[1] < 128` -/
def headLt128 : Bytes → Bool
  | x :: _ => x < 128
  | [] => false

/-- `rlpParseHeader`: (islist, tagsize, contentsize) -/
def parseHeader (buf : Bytes) : Res (Bool × Nat × Nat) :=
  match buf with
  | [] => .err
  | b :: rest =>
    let r : Res (Bool × Nat × Nat) :=
      if b < 0x80 then .ok (false, 0, 1)
      else if b < 0xB8 then
        if b.toNat - 0x80 = 1 ∧ headLt128 rest = true then .err
        else .ok (false, 1, b.toNat - 0x80)
      else if b < 0xC0 then
        (readSize rest (b.toNat - 0xB7)).bind fun s => .ok (false, b.toNat - 0xB7 + 1, s)
      else if b < 0xF8 then .ok (true, 1, b.toNat - 0xC0)
      else (readSize rest (b.toNat - 0xF7)).bind fun s => .ok (true, b.toNat - 0xF7 + 1, s)
    r.bind fun (l, ts, cs) => if cs > buf.length - ts then .err else .ok (l, ts, cs)

/-- the item loop of `rlpParseList` -/
def splitItems : Nat → Bytes → Res (List Bytes)
  | 0, _ => .ok []
  | f + 1, b =>
    match b with
    | [] => .ok []
    | _ =>
      (parseHeader b).bind fun (_, ts, cs) =>
        (splitItems f (b.drop (ts + cs))).bind fun r => .ok (b.take (ts + cs) :: r)

/-- `rlpParseList`: bytes after the list payload are ignored -/
def parseList (b : Bytes) : Res (List Bytes) :=
  (parseHeader b).bind fun (l, ts, cs) =>
    if !l then .err else splitItems (b.length + 1) ((b.drop ts).take cs)

/-- `rlpParseBytes` -/
def parseBytes (b : Bytes) : Res Bytes :=
  (parseHeader b).bind fun (l, ts, cs) =>
    if l then .err else .ok ((b.drop ts).take cs)

/-- `decodeKeys`; `bytes[0]` on an empty slice panics -/
def decodeKeys : Bytes → Res (List Nibble)
  | [] => .panic
  | b0 :: r =>
    let body := r.flatMap fun b => [hiNib b, loNib b]
    if b0 &&& 0x10 ≠ 0 then .ok (loNib b0 :: body) else .ok body

/-- a deserialised node: children are nil, a hash reference, or an embedded node -/
inductive PNode where
  | nil
  | hash (h : Bytes)
  | leaf (keys : List Nibble) (val : Bytes)
  | ext (keys : List Nibble) (next : PNode)
  | branch (ch : Fin 16 → PNode) (val : Option Bytes)

instance : Inhabited PNode := ⟨.nil⟩

def PNode.isNil : PNode → Bool
  | .nil => true
  | _ => false

def mapRes {α β : Type} (f : α → Res β) : List α → Res (List β)
  | [] => .ok []
  | a :: r => (f a).bind fun x => (mapRes f r).bind fun xs => .ok (x :: xs)

/-- `deserialize` (with `nodeFromLink` inlined); fuel bounds the nesting depth of embedded nodes -/
def deserialize : Nat → Bytes → Res PNode
  | 0, _ => .err
  | f + 1, s =>
    let fromLink : Bytes → Res PNode := fun b =>
      match b with
      | [] => .panic
      | b0 :: _ =>
        if b0 ≥ 0xC0 then deserialize f b
        else (parseBytes b).bind fun v => if v = [] then .ok .nil else .ok (.hash v)
    (parseList s).bind fun bl =>
      if bl.length = 2 then
        let a := bl.getD 0 []
        let b := bl.getD 1 []
        (parseBytes a).bind fun kh =>
          match kh with
          | [] => .err                                 -- fix F8: was keyheader[0] index out of range
          | h0 :: _ =>
            if h0 &&& 0x20 = 0 then
              (fromLink b).bind fun nx =>
                if nx.isNil then .err                    -- fix F8: was a nil `next`, dereferenced by prove
                else (decodeKeys kh).bind fun ks => .ok (.ext ks nx)
            else
              (decodeKeys kh).bind fun ks => (parseBytes b).bind fun v => .ok (.leaf ks v)
      else if bl.length = 17 then
        (mapRes fromLink (bl.take 16)).bind fun cs =>
          (parseBytes (bl.getD 16 [])).bind fun v =>
            .ok (.branch (fun i => cs.getD i.val .nil) (if v = [] then none else some v))
      else .err

inductive Walk where
  | value (v : Bytes)
  | notFound
  | jump (h : Bytes) (k : List Nibble)
  | nilPanic

/-- `prove` through the embedded (hash-less) nodes of one proof item -/
def walk : PNode → List Nibble → Walk
  | .nil, _ => .nilPanic                                 -- `n.next.prove` on a nil interface
  | .hash h, k => .jump h k
  | .leaf ks v, k => if ks = k then .value v else .notFound
  | .ext ks nx, k => if cpl ks k < ks.length then .notFound else walk nx (k.drop (cpl ks k))
  | .branch _ v, [] =>
    match v with
    | some x => .value x
    | none => .notFound                                  -- fix F8 (was: (nil, nil) → nil dereference)
  | .branch ch _, i :: k =>
    if (ch i).isNil then .notFound else walk (ch i) k

inductive PRes where
  | ok (v : Bytes)
  | notfound
  | reject
  | panic
deriving DecidableEq, Repr

def PNode.isLeaf : PNode → Bool
  | .leaf _ _ => true
  | _ => false

section
variable (H : Bytes → Bytes)

/-- `hash.prove` + the `prove` of the node it deserialises to -/
def proveHash : List Bytes → Bytes → List Nibble → PRes
  | [], _, _ => .reject
  | b :: rest, h, k =>
    if H b ≠ h then .reject
    else
      match deserialize (b.length + 1) b with
      | .err => .reject
      | .panic => .panic
      | .ok n =>
        if n.isLeaf && !rest.isEmpty then .reject         -- leaf.prove: len(proof) != 1
        else
          match walk n k with
          | .value v => .ok v
          | .notFound => .notfound
          | .nilPanic => .panic
          | .jump h' k' => proveHash rest h' k'

/-- `NewImmutable(root).Prove(key, proof)` -/
def prove (root : Bytes) (key : Bytes) (proof : List Bytes) : PRes :=
  if root = [] then .reject else proveHash H proof root (bytesToNibs key)

end
end Goloop.C18
