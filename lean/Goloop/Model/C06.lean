/-
  Model/C06: `consensus/doublesigndata.go` (`matchNID`, `dsVote.IsConflictWith`,
  `dsProposal.IsConflictWith`) and `consensus/dsmlog.go` (`dsmLog`), transcribed.

  A signed message is reduced to what the code reads:
  * `signer`  — the address recovered from the signature (`msg.address()`),
  * the signed fields themselves (`VoteC` / `PropC`): the message hash is the
    SHA3 of their canonical encoding, so `hash v = hash v2 ↔ content v = content v2`
    is the (collision-freeness) assumption under which `bytes.Equal(v.msg.hash(),
    v2.msg.hash())` is modelled by equality of contents,
  * `nid` — `VoteMessage.NID()`: for a block vote the upper bits of the part-set
    app data, for a nil vote the decoded `BlockID`; both are *part of the signed
    content*, which is why `nid` is a field of the content.
  The model describes the code *after* fix F3 (`nid2` is read from `v2`);
  `voteConflictF3` keeps the unfixed formula for the witness theorem.
-/
import Goloop.Base.Bytes
namespace Goloop.C06

/-- `matchNID` -/
def matchNID (nid1 nid2 : Nat) : Bool :=
  if nid1 == 0 || nid2 == 0 then true else nid1 == nid2

/-- signed content of a vote: height, round, type, and the round decision
    (nil vote: `isNil`, network id in BlockID; block vote: block id, part set id, app data = nid, nts count), timestamp -/
structure VoteC where
  h : Int
  r : Int
  t : Nat
  isNil : Bool
  nid : Nat
  blk : Nat
  ps : Nat
  ts : Int
deriving DecidableEq, Repr

structure Vote where
  signer : Nat
  c : VoteC
deriving DecidableEq, Repr

/-- signed content of a proposal -/
structure PropC where
  h : Int
  r : Int
  nid : Nat
  ps : Nat
  pol : Int
deriving DecidableEq, Repr

structure Proposal where
  signer : Nat
  c : PropC
deriving DecidableEq, Repr

/-- `dsVote.IsConflictWith` on two non-nil `*dsVote` (fixed code: `nid2` from `v2`). -/
def voteConflict (v v2 : Vote) : Bool :=
  let nid1 := v.c.nid
  let nid2 := v2.c.nid
  if !matchNID nid1 nid2 then false
  else if v2.c.t != v.c.t || v2.c.h != v.c.h || v2.c.r != v.c.r || v2.signer != v.signer then false
  else !(v.c == v2.c)

/-- the code as it was before fix F3: `nid2, _ := v.msg.NID()` -/
def voteConflictF3 (v v2 : Vote) : Bool :=
  let nid1 := v.c.nid
  let nid2 := v.c.nid
  if !matchNID nid1 nid2 then false
  else if v2.c.t != v.c.t || v2.c.h != v.c.h || v2.c.r != v.c.r || v2.signer != v.signer then false
  else !(v.c == v2.c)

/-- `dsProposal.IsConflictWith` -/
def propConflict (d d2 : Proposal) : Bool :=
  if !matchNID d.c.nid d2.c.nid then false
  else if d.c.h != d2.c.h || d.c.r != d2.c.r || d2.signer != d.signer then false
  else !(d.c == d2.c)

/-- `module.DoubleSignData` values of this package -/
inductive DS where
  | vote (v : Vote)
  | prop (p : Proposal)
deriving DecidableEq, Repr

/-- `IsConflictWith` through the interface: the type assertion fails across kinds. -/
def conflict : DS → DS → Bool
  | DS.vote v, DS.vote v2 => voteConflict v v2
  | DS.prop p, DS.prop p2 => propConflict p p2
  | _, _ => false

/-! ### dsmLog (cache without eviction: capacity is never reached in the model) -/

/-- `dsmCacheKey` -/
structure Key where
  isVote : Bool
  vt : Nat
  addr : Nat
  h : Int
  r : Int
deriving DecidableEq, Repr

def keyOf : DS → Key
  | DS.vote v => { isVote := true, vt := v.c.t, addr := v.signer, h := v.c.h, r := v.c.r }
  | DS.prop p => { isVote := false, vt := 0, addr := p.signer, h := p.c.h, r := p.c.r }

abbrev Log := List (Key × DS)

def Log.get (l : Log) (k : Key) : Option DS :=
  match l.find? (fun e => e.1 == k) with
  | some e => some e.2
  | none => none

def Log.put (l : Log) (k : Key) (m : DS) : Log :=
  (k, m) :: l.filter (fun e => !(e.1 == k))

/-- `LogAndCheckVoteMessage`: a conflict is reported and nothing stored; otherwise the message
    replaces whatever was stored under its key. -/
def logVote (l : Log) (v : Vote) : Log × Option (DS × DS) :=
  let m := DS.vote v
  match l.get (keyOf m) with
  | some o =>
    if conflict o m then (l, some (o, m)) else (l.put (keyOf m) m, none)
  | none => (l.put (keyOf m) m, none)

/-- `LogAndCheckProposalMessage`: when a message is stored under the key, nothing is stored. -/
def logProp (l : Log) (p : Proposal) : Log × Option (DS × DS) :=
  let m := DS.prop p
  match l.get (keyOf m) with
  | some o =>
    if conflict o m then (l, some (o, m)) else (l, none)
  | none => (l.put (keyOf m) m, none)

def logMsg (l : Log) : DS → Log × Option (DS × DS)
  | DS.vote v => logVote l v
  | DS.prop p => logProp l p

end Goloop.C06
