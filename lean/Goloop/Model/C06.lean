/-
  Model/C06: `consensus/doublesigndata.go` (`matchNID`, `dsVote.IsConflictWith`,
  `dsProposal.IsConflictWith`) and `consensus/dsmlog.go` (`dsmLog`), transcribed.

  A signed message is reduced to what the code reads:
  * `signer`  — the address recovered from the signature (`msg.address()`),
  * the signed fields themselves (`VoteC` / `PropC`): the message hash is the
    SHA3 of their canonical encoding, so `hash v = hash v2 ↔ content v = content v2`
    is the (collision-freeness) assumption under which `bytes.Equal(v.msg.hash(),
    v2.msg.hash())` is modelled by equality of contents,
  * `nid` — `VoteMessage.NID()`: for a block vote the upper bits of the part-set
    app data, for a nil vote the decoded `BlockID`; both are *part of the signed
    content*, which is why `nid` is a field of the content.
  The model describes the code *after* fix F3 (`nid2` is read from `v2`);
  `voteConflictF3` keeps the unfixed formula for the witness theorem.
-/
import Goloop.Base.Bytes
namespace Goloop.C06

/-- `matchNID` -/
def matchNID (nid1 nid2 : Nat) : Bool :=
  if nid1 == 0 || nid2 == 0 then true else nid1 == nid2

/-- signed content of a vote: height, round, type, and the round decision
    (nil vote: `isNil`, network id in BlockID; block vote: block id, part set id, app data = nid, nts count), timestamp -/
structure VoteC where
  h : Int
  r : Int
  t : Nat
  isNil : Bool
  nid : Nat
  blk : Nat
  ps : Nat
  ts : Int
  ntsCnt : Nat := 0      -- NTS vote count in the part-set app data (block votes)
deriving DecidableEq, Repr

/-- A vote message: `c` is exactly what the signature covers (`blockVoteByteser.bytes()`:
    `blockVoteBase` = height, round, type, BlockID, BlockPartSetIDAndNTSVoteCount, plus Timestamp).
    `u` stands for everything a `VoteMessage` carries outside the signed payload: the NTS vote
    bases (network type id + section hash) and the NTS proof parts. -/
structure Vote where
  signer : Nat
  c : VoteC
  u : Nat := 0
deriving DecidableEq, Repr

/-- signed content of a proposal -/
structure PropC where
  h : Int
  r : Int
  nid : Nat
  ps : Nat
  pol : Int
deriving DecidableEq, Repr

structure Proposal where
  signer : Nat
  c : PropC
deriving DecidableEq, Repr

/-- `dsVote.IsConflictWith` on two non-nil `*dsVote` (fixed code: `nid2` from `v2`). -/
def voteConflict (v v2 : Vote) : Bool :=
  let nid1 := v.c.nid
  let nid2 := v2.c.nid
  if !matchNID nid1 nid2 then false
  else if v2.c.t != v.c.t || v2.c.h != v.c.h || v2.c.r != v.c.r || v2.signer != v.signer then false
  else !(v.c == v2.c)

/-- the code as it was before fix F3: `nid2, _ := v.msg.NID()` -/
def voteConflictF3 (v v2 : Vote) : Bool :=
  let nid1 := v.c.nid
  let nid2 := v.c.nid
  if !matchNID nid1 nid2 then false
  else if v2.c.t != v.c.t || v2.c.h != v.c.h || v2.c.r != v.c.r || v2.signer != v.signer then false
  else !(v.c == v2.c)

/-- `dsProposal.IsConflictWith` -/
def propConflict (d d2 : Proposal) : Bool :=
  if !matchNID d.c.nid d2.c.nid then false
  else if d.c.h != d2.c.h || d.c.r != d2.c.r || d2.signer != d.signer then false
  else !(d.c == d2.c)

/-- `module.DoubleSignData` values of this package -/
inductive DS where
  | vote (v : Vote)
  | prop (p : Proposal)
deriving DecidableEq, Repr

/-- `IsConflictWith` through the interface: the type assertion fails across kinds. -/
def conflict : DS → DS → Bool
  | DS.vote v, DS.vote v2 => voteConflict v v2
  | DS.prop p, DS.prop p2 => propConflict p p2
  | _, _ => false

/-! ### dsmLog (cache without eviction: capacity is never reached in the model) -/

/-- `dsmCacheKey` -/
structure Key where
  isVote : Bool
  vt : Nat
  addr : Nat
  h : Int
  r : Int
deriving DecidableEq, Repr

def keyOf : DS → Key
  | DS.vote v => { isVote := true, vt := v.c.t, addr := v.signer, h := v.c.h, r := v.c.r }
  | DS.prop p => { isVote := false, vt := 0, addr := p.signer, h := p.c.h, r := p.c.r }

abbrev Log := List (Key × DS)

def Log.get (l : Log) (k : Key) : Option DS :=
  match l.find? (fun e => e.1 == k) with
  | some e => some e.2
  | none => none

def Log.put (l : Log) (k : Key) (m : DS) : Log :=
  (k, m) :: l.filter (fun e => !(e.1 == k))

/-- `LogAndCheckVoteMessage`: a conflict is reported and nothing stored; otherwise the message
    replaces whatever was stored under its key. -/
def logVote (l : Log) (v : Vote) : Log × Option (DS × DS) :=
  let m := DS.vote v
  match l.get (keyOf m) with
  | some o =>
    if conflict o m then (l, some (o, m)) else (l.put (keyOf m) m, none)
  | none => (l.put (keyOf m) m, none)

/-- `LogAndCheckProposalMessage`: when a message is stored under the key, nothing is stored. -/
def logProp (l : Log) (p : Proposal) : Log × Option (DS × DS) :=
  let m := DS.prop p
  match l.get (keyOf m) with
  | some o =>
    if conflict o m then (l, some (o, m)) else (l, none)
  | none => (l.put (keyOf m) m, none)

def logMsg (l : Log) : DS → Log × Option (DS × DS)
  | DS.vote v => logVote l v
  | DS.prop p => logProp l p

/-! ### the evidence acceptance path

`service/transaction/doublesignreport.go` (`doubleSignReportTx.Verify`, `PreValidate`,
`GetHandler`), `service/contract/dsrhandler.go` (`DoubleSignReport.Decode`,
`DSRHandler.DoExecuteSync`, `verifyHashOfHeight`), `service/contract/dscontext.go`
(`DSContextHistory.Get`), `service/state/dsrcontext.go` (`dsValidators.AddressOf`).
A report carries a type tag, data items (byte strings), and a context (the encoded validator
list of the evidence's height).  What the code reads of them:
* an item is the encoding of a signed vote, of a signed proposal, or neither (`garbage`);
  `DecodeDoubleSignData(tag, bytes)` succeeds exactly for a message of the tagged kind,
* `ord` = `bytes.Compare(data1, data2)` (0 less, 1 equal, 2 greater),
* the context decodes to a validator list (`some vals`: the signer ids in it) or not; its hash
  is the hash of that list, modelled by the list itself (collision freeness). -/

inductive Item where
  | msg (m : DS)
  | garbage (j : Nat)
deriving DecidableEq, Repr

/-- `DoubleSignReport.Type` -/
inductive Tag where
  | vote
  | proposal
  | other
deriving DecidableEq, Repr

/-- who sent the transaction: `From == nil` (system), `From` set with a valid signature, `From` set unsigned -/
inductive From where
  | none
  | signed
  | unsigned
deriving DecidableEq, Repr

structure Report where
  hasData : Bool
  tag : Tag
  items : List Item
  ord : Nat
  ctx : Option (List Nat)
  sender : From
deriving Repr

/-- what the execution environment provides -/
structure Env where
  revOn : Bool                         -- revision has ReportDoubleSign
  blockHeight : Int
  history : List (Int × List Nat)      -- DSContextHistory: (height, validator list)
  callOk : Bool                        -- result of the chain SCORE call handleDoubleSignReport
deriving Repr

def DS.signer : DS → Nat
  | DS.vote v => v.signer
  | DS.prop p => p.signer

def DS.height : DS → Int
  | DS.vote v => v.c.h
  | DS.prop p => p.c.h

/-- `consensus.DecodeDoubleSignData(tag, bytes)` -/
def decodeItem (t : Tag) : Item → Option DS
  | Item.msg (DS.vote v) => if t = Tag.vote then some (DS.vote v) else none
  | Item.msg (DS.prop p) => if t = Tag.proposal then some (DS.prop p) else none
  | Item.garbage _ => none

/-- `DoubleSignReport.Decode` -/
def decodeReport (r : Report) : Option (DS × DS × List Nat) :=
  match r.items with
  | [i1, i2] =>
    if r.ord = 2 then none                              -- "InvalidDataOrder"
    else match decodeItem r.tag i1, decodeItem r.tag i2 with
      | some d1, some d2 =>
        if r.tag = Tag.other then none                  -- decodeDoubleSignContext: "InvalidType"
        else match r.ctx with
          | some c => some (d1, d2, c)
          | none => none
      | _, _ => none
  | _ => none                                           -- "InvalidDataLength"

/-- `doubleSignReportTx.Verify` -/
def verifyTx (r : Report) : Bool :=
  r.hasData && r.items.length == 2 && (r.sender == From.none || r.sender == From.signed)

inductive Pre where
  | ok | disabled | fromSet | decode | invalid
deriving DecidableEq, Repr

/-- `doubleSignReportTx.PreValidate` (`ValidateNetwork` of both kinds of evidence is constantly true) -/
def preValidate (r : Report) (e : Env) : Pre :=
  if !e.revOn then Pre.disabled
  else if r.sender != From.none then Pre.fromSet
  else match decodeReport r with
    | none => Pre.decode
    | some (d1, d2, c) =>
      if !conflict d1 d2 || !(c.contains d1.signer) then Pre.invalid else Pre.ok

/-- `DSContextHistory.Get` -/
def histGetLoop (height : Int) : List (Int × List Nat) → Option (List Nat)
  | [] => none
  | (h, v) :: rest => if h ≤ height then some v else histGetLoop height rest

def histGet (hist : List (Int × List Nat)) (height : Int) : Option (List Nat) :=
  match hist with
  | [] => none
  | (h0, _) :: _ => if height < h0 then none else histGetLoop height hist.reverse

inductive Hnd where
  | ok            -- the chain SCORE was called and succeeded
  | noHandler     -- GetHandler fails: From is set
  | format | conflict | future | signer | context | call
deriving DecidableEq, Repr

/-- `GetHandler` + `DSRHandler.DoExecuteSync` (with fix F15: non-conflicting data is an error) -/
def handler (r : Report) (e : Env) : Hnd :=
  if r.sender != From.none then Hnd.noHandler
  else match decodeReport r with
    | none => Hnd.format
    | some (d1, d2, c) =>
      if !conflict d1 d2 then Hnd.conflict
      else if d1.height > e.blockHeight then Hnd.future
      else if !(c.contains d1.signer) then Hnd.signer
      else if histGet e.history (d1.height - 2) != some c then Hnd.context
      else if e.callOk then Hnd.ok else Hnd.call

/-- the report transaction is accepted: Verify and PreValidate pass and the handler succeeds -/
def accepted (r : Report) (e : Env) : Bool :=
  verifyTx r && preValidate r e == Pre.ok && handler r e == Hnd.ok

end Goloop.C06
