/-
  Model/C11 — replay protection: common/txlocator/manager.go (manager, tracker),
  service/tschecker.go (CheckTxTimestamp), service/txidmanager.go (txIDLogger glue).

  Transcription notes
  * ids are `Nat` (the harness maps them to 32-byte ids), timestamps/thresholds are `Int`
    (Go int64; no overflow is an assumption).
  * group: `false` = module.TransactionGroupPatch (0), `true` = TransactionGroupNormal (1).
  * `m.locators` (map id -> *locator) is modelled by its key list; the locator objects of a
    txList by `live` (ids not blanked by `loc.id = ""` in commitTracker); `ids` is the id list
    recorded by Add (never read by an operation that produces output after commit: ghost).
  * the flush worker (handleFlushJobs) is one atomic step `flushStep` (DB write of the list,
    then addListAndClearOldInLock); any interleaving of `flushStep` with the other operations
    is covered by the theorems.  DB errors / Term() (m.locators == nil) are not modelled.
  * `Cfg` selects, for the three guards concerned by the findings F5, F5b, F5c, the pinned or
    the repaired form.  `Cfg.tree` is the code in the working tree (F5b and F5c repaired by
    fixes/F5bc_*.diff; F5 left as a known finding because the package's own unit test
    TestTracker_Basic asserts the `>=` behaviour at the boundary).  The driver uses `Cfg.tree`.
    `Cfg.pinned` (the pinned commit) is kept for the witness theorems, `Cfg.repaired` (all
    three repaired) for the theorem that shows what the one-character F5 change would give.
-/
import Goloop.Base.Bytes
namespace Goloop.C11

abbrev Id := Nat

structure Cfg where
  /-- tracker.Has guard compares with `>` (repaired) instead of `>=` (pinned) -/
  f5 : Bool
  /-- the guard only skips the tracker's own block (repaired) instead of returning false (pinned) -/
  f5b : Bool
  /-- hasLocatorInCache compares `maxTSInDB < ts` (repaired) instead of `<=` (pinned) -/
  f5c : Bool
deriving Repr, DecidableEq

def Cfg.repaired : Cfg := ⟨true, true, true⟩
def Cfg.pinned : Cfg := ⟨false, false, false⟩
/-- the code in the working tree -/
def Cfg.tree : Cfg := ⟨false, true, true⟩

/-! ### service/tschecker.go -/

inductive TsVerdict | ok | expired | future
deriving Repr, DecidableEq

/-- CheckTxTimestamp(min, max, tx) -/
def checkTxTimestamp (min max ts : Int) : TsVerdict :=
  if ts ≤ min then .expired
  else if ts > max then .future
  else .ok

/-- NewTimestampRange(bts, th).CheckTx(tx) -/
def windowCheck (bts th ts : Int) : TsVerdict := checkTxTimestamp (bts - th) (bts + th) ts

/-! ### txlocator: manager -/

structure TxList where
  normal : Bool
  ts : Int
  th : Int
  ids : List Id
  live : List Id
deriving Repr

structure Cache where
  lists : List TxList := []
  maxTS : Int := 0
deriving Repr

structure Manager where
  locators : List Id := []
  pending : List TxList := []
  cacheP : Cache := {}
  cacheN : Cache := {}
  db : List Id := []
  /-- ghost: every list handed to commitTracker, in order -/
  log : List TxList := []
deriving Repr

def Manager.cache (m : Manager) (normal : Bool) : Cache := if normal then m.cacheN else m.cacheP
def Manager.setCache (m : Manager) (normal : Bool) (c : Cache) : Manager :=
  if normal then { m with cacheN := c } else { m with cacheP := c }

/-- manager.Has = hasLocatorInCache then hasLocatorInDB -/
def Manager.has (c : Cfg) (m : Manager) (normal : Bool) (id : Id) (ts : Int) : Bool :=
  if id ∈ m.locators then true
  else
    let l := (m.cache normal).maxTS
    if l ≠ 0 ∧ (if c.f5c then l < ts else l ≤ ts) then false
    else decide (id ∈ m.db)

/-- the loop of addListAndClearOldInLock over the cached lists -/
def evictLoop (listMin : Int) : List TxList → List Id → Int → List TxList × List Id × Int
  | [], locs, mx => ([], locs, mx)
  | p :: rest, locs, mx =>
    if p.ts + p.th > listMin then (p :: rest, locs, mx)
    else
      evictLoop listMin rest (locs.filter (fun k => !(p.live.contains k)))
        (if p.ts ≠ 0 ∧ mx < p.ts + p.th then p.ts + p.th else mx)

def Manager.addListAndClearOld (m : Manager) (l : TxList) : Manager :=
  let c := m.cache l.normal
  let r := evictLoop (l.ts - l.th) c.lists m.locators c.maxTS
  { m.setCache l.normal ⟨r.1 ++ [l], r.2.2⟩ with locators := r.2.1 }

def TxList.blank (ks : List Id) (x : TxList) : TxList :=
  { x with live := x.live.filter (fun k => !(ks.contains k)) }

def Cache.blank (ks : List Id) (c : Cache) : Cache := { c with lists := c.lists.map (TxList.blank ks) }

/-- flushList followed by addListAndClearOld -/
def Manager.flushAndCache (m : Manager) (l : TxList) : Manager :=
  ({ m with db := m.db ++ l.live }).addListAndClearOld l

/-- commitTracker: blank older locators with the same id, publish the ids, queue/flush the list -/
def Manager.commitTracker (m : Manager) (l : TxList) : Manager :=
  let m1 : Manager :=
    { m with
      locators := m.locators ++ l.ids
      pending := m.pending.map (TxList.blank l.ids)
      cacheP := m.cacheP.blank l.ids
      cacheN := m.cacheN.blank l.ids
      log := m.log ++ [l] }
  if l.normal then { m1 with pending := m1.pending ++ [l] }
  else m1.flushAndCache l

/-- one iteration of handleFlushJobs -/
def Manager.flushStep (m : Manager) : Manager :=
  match m.pending with
  | [] => m
  | l :: rest => ({ m with pending := rest }).flushAndCache l

def Manager.flushAll : Nat → Manager → Manager
  | 0, m => m
  | n + 1, m => Manager.flushAll n m.flushStep

/-! ### txlocator: tracker -/

structure Tracker where
  normal : Bool
  ts : Int
  th : Int
  /-- keys of t.locators = ids of t.list, in insertion order -/
  ids : List Id
  /-- t.locators == nil -/
  committed : Bool
  parent : Option Nat
deriving Repr, DecidableEq

structure State where
  mgr : Manager := {}
  trackers : List Tracker := []
deriving Repr

def State.init : State := {}

/-- tracker.Has, with a fuel argument for the walk along the parent pointers
    (parents are created before their children, so `i + 1` steps always suffice). -/
def trackerHasF (c : Cfg) (s : State) : Nat → Nat → Id → Int → Bool
  | 0, _, _, _ => false
  | fuel + 1, i, id, ts =>
    match s.trackers[i]? with
    | none => false
    | some t =>
      let beyond : Bool := if c.f5 then decide (ts > t.ts + t.th) else decide (ts ≥ t.ts + t.th)
      if !c.f5b && beyond then false
      else if !beyond && !t.committed && t.ids.contains id then true
      else
        match t.parent with
        | some p => trackerHasF c s fuel p id ts
        | none => s.mgr.has c t.normal id ts

def trackerHas (c : Cfg) (s : State) (i : Nat) (id : Id) (ts : Int) : Bool :=
  trackerHasF c s (i + 1) i id ts

/-- parentHasInLock -/
def parentHas (c : Cfg) (s : State) (t : Tracker) (id : Id) (ts : Int) : Bool :=
  match t.parent with
  | some p => trackerHas c s p id ts
  | none => s.mgr.has c t.normal id ts

inductive AddResult
  | ok (cnt : Nat)
  | dup (cnt : Nat)
  | alreadyAdded
  | alreadyCommitted
  | noTracker
deriving Repr, DecidableEq

/-- the loop of tracker.Add: `acc` = ids recorded so far (in reverse), returns recorded ids and verdict -/
def addLoop (c : Cfg) (s : State) (t : Tracker) (force : Bool) :
    List (Id × Int) → List Id → List Id × Bool
  | [], acc => (acc, true)
  | (id, ts) :: rest, acc =>
    if acc.contains id then (acc, false)
    else if !force && parentHas c s t id ts then (acc, false)
    else addLoop c s t force rest (acc ++ [id])

def State.setTracker (s : State) (i : Nat) (t : Tracker) : State :=
  { s with trackers := s.trackers.set i t }

/-- tracker.Add -/
def State.add (c : Cfg) (s : State) (i : Nat) (txs : List (Id × Int)) (force : Bool) : State × AddResult :=
  match s.trackers[i]? with
  | none => (s, .noTracker)
  | some t =>
    if t.ids.length > 0 && !t.committed then (s, .alreadyAdded)
    else if t.committed then (s, .alreadyCommitted)
    else
      let r := addLoop c s t force txs []
      (s.setTracker i { t with ids := r.1 }, if r.2 then .ok r.1.length else .dup r.1.length)

/-- manager.NewTracker -/
def State.newRoot (s : State) (normal : Bool) (ts th : Int) : State :=
  { s with trackers := s.trackers ++ [⟨normal, ts, th, [], false, none⟩] }

/-- tracker.New -/
def State.newChild (s : State) (p : Nat) (ts th : Int) : Option State :=
  match s.trackers[p]? with
  | none => none
  | some t =>
    if t.committed && t.parent.isNone then some (s.newRoot t.normal ts th)
    else some { s with trackers := s.trackers ++ [⟨t.normal, ts, th, [], false, some p⟩] }

/-- tracker.Commit: ancestors first, then the tracker itself (fuel as in `trackerHasF`) -/
def State.commitF (s : State) : Nat → Nat → State
  | 0, _ => s
  | fuel + 1, i =>
    match s.trackers[i]? with
    | none => s
    | some t0 =>
      let s1 : State :=
        match t0.parent with
        | some p => s.commitF fuel p
        | none => s
      let t := (s1.trackers[i]?).getD t0
      -- t.parent = nil
      if t.committed then s1.setTracker i { t with parent := none }
      else
        { mgr := s1.mgr.commitTracker ⟨t.normal, t.ts, t.th, t.ids, t.ids⟩
          trackers := s1.trackers.set i { t with parent := none, committed := true } }

def State.commit (s : State) (i : Nat) : State := s.commitF (i + 1) i

def State.flushStep (s : State) : State := { s with mgr := s.mgr.flushStep }

/-- node restart: NewManager over the same database.  The database content persists; locators,
    cached lists, maxTSInDB and the flush queue start empty; every tracker of the old manager is
    gone (handles of the driver keep counting, see Driver/C11).  The ghost `log` restarts too:
    the theorems speak about lists finalized since the last restart (lists finalized before it
    are known to the new manager only through the database — differential testing only). -/
def State.restart (s : State) : State := { mgr := { db := s.mgr.db }, trackers := [] }

end Goloop.C11
