/-
  Model/C16: C16 ("a failed transaction changes nothing but the fee") is stated on
  the same executable model as C15 — see Model/C15.lean: call frames with
  snapshot / rollback and per-frame logs (`closeFrame`, `runOps`, `scriptFrame`),
  `doExecute` and the fee part `settle` of transactionHandler.Execute.
-/
import Goloop.Model.C15
