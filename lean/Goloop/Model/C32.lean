/-
  Model/C32: `Authenticator` (network/authenticator.go): `VerifySignature` and the
  four-message handshake (SecureRequest / SecureResponse / SignatureRequest /
  SignatureResponse) as a state machine of one local peer object, transcribed
  handler by handler.  The remote side is the environment: it chooses every
  received message.

  Parameters (`Crypto`): public-key parsing, ECDSA verification, SHA3-256 and the
  id derivation `NewPeerIDFromPublicKey`; and `kdf`, the session secret
  (`secureKey.extra`: HKDF over the ECDH of the local ephemeral key with the
  received `SecureParam`) — `none` when `secureKey.setup` fails.
-/
import Goloop.Base.Bytes
namespace Goloop.C32

structure Crypto (PK : Type) where
  parsePub : Bytes → Option PK             -- crypto.ParsePublicKey
  verify : Bytes → Bytes → PK → Bool       -- Signature.Verify(hash, pk) on the [R|S] part
  sha3 : Bytes → Bytes                     -- crypto.SHA3Sum256
  idOf : PK → Bytes                        -- NewPeerIDFromPublicKey(pk).Bytes()

/-- `crypto.ParseSignature`: only 64 ([R|S]) or 65 ([R|S|V]) bytes; `Verify` uses R|S only. -/
def parseSig (sig : Bytes) : Option Bytes :=
  if sig.length = 65 ∨ sig.length = 64 then some (sig.take 64) else none

inductive VR where
  | badKey                  -- (nil, "fail to parse public key")
  | badSig                  -- (nil, "fail to parse signature")
  | invalid (id : Bytes)    -- (id, ErrInvalidSignature)
  | ok (id : Bytes)         -- (id, nil)
  deriving DecidableEq, Repr

/-- `Authenticator.VerifySignature(publicKey, signature, content)` -/
def verifySignature {PK : Type} (c : Crypto PK) (pub sig content : Bytes) : VR :=
  match c.parsePub pub with
  | none => .badKey
  | some pk =>
    match parseSig sig with
    | none => .badSig
    | some rs =>
      let h := c.sha3 content
      if !c.verify rs h pk then .invalid (c.idOf pk) else .ok (c.idOf pk)

/-! ### handshake -/

inductive Sub where
  | secReq | secResp | sigReq | sigResp
  deriving DecidableEq, Repr

inductive Msg where
  | secureRequest (suites aeads : List Nat) (param : Bytes)
  | secureResponse (suite aead : Nat) (param : Bytes) (secErr : Bool)   -- secErr: SecureError ≠ ""
  | signatureRequest (pub sig : Bytes)
  | signatureResponse (pub sig : Bytes) (err : Bool)                    -- err: Error ≠ ""
  | garbage (sub : Sub)      -- payload that does not decode
  | unknownSub               -- unregistered sub protocol of p2pProtoAuth

def Msg.sub : Msg → Option Sub
  | .secureRequest .. => some .secReq
  | .secureResponse .. => some .secResp
  | .signatureRequest .. => some .sigReq
  | .signatureResponse .. => some .sigResp
  | .garbage s => some s
  | .unknownSub => none

inductive SigRespKind where
  | ok | errKey | errSig | errInvalid | selfAddress
  deriving DecidableEq, Repr

/-- messages the local side sends -/
inductive Out where
  | secureRequest
  | secureResponse (suite aead : Nat) (secErr : Bool)
  | signatureRequest              -- {own public key, Signature(extra)}
  | signatureResponse (k : SigRespKind)
  deriving DecidableEq, Repr

def suiteUnknown : Nat := 0
def suiteNone : Nat := 1
def aeadNone : Nat := 0

structure Config where
  self : Bytes                   -- a.self
  suites : List Nat              -- supported SecureSuites of the channel
  aeads : List Nat               -- supported SecureAeadSuites of the channel
  kdf : Bytes → Nat → Option Bytes   -- extra for (received SecureParam, aead suite)

structure PeerSt where
  inbound : Bool
  wait : Option (Sub × Bool)     -- waitInfo {pi, processing}; none = attribute absent
  extra : Option Bytes           -- p.secureKey.extra once set up
  id : Option Bytes              -- p.ID() (none = nil)
  closed : Bool
  handed : Bool                  -- nextOnPeer(p) was called
  deriving DecidableEq, Repr

/-- `Authenticator.onPeer` on a fresh peer -/
def onPeer (inbound : Bool) : PeerSt × List Out :=
  if !inbound then
    ({ inbound := false, wait := some (.secResp, false), extra := none, id := none,
       closed := false, handed := false }, [.secureRequest])
  else
    ({ inbound := true, wait := some (.secReq, false), extra := none, id := none,
       closed := false, handed := false }, [])

/-- `resolveSecureSuite` / `resolveSecureAeadSuite`: first offered that is supported, else 0. -/
def resolve (supported : List Nat) : List Nat → Nat
  | [] => 0
  | x :: xs => if supported.contains x then x else resolve supported xs

/-- `checkWaitInfo`: `none` = sequence error (peer is closed). -/
def checkWait (s : PeerSt) (sub : Sub) : Option PeerSt :=
  match s.wait with
  | none => some s
  | some (w, processing) =>
    if !processing && w == sub then some { s with wait := some (w, true) } else none

def close (s : PeerSt) : PeerSt := { s with closed := true }

/-- `applySecureConn` as far as the session secret is concerned (`none` = error). -/
def applySecure (cfg : Config) (suite aead : Nat) (param : Bytes) : Option Bytes :=
  if !cfg.suites.contains suite then none
  else
    let sas := if suite = suiteNone then aeadNone else aead
    if suite ≠ suiteNone ∧ !cfg.aeads.contains aead then none
    else cfg.kdf param sas

def handleSecureRequest (cfg : Config) (s : PeerSt) (suites aeads : List Nat) (param : Bytes) :
    PeerSt × List Out :=
  let suite := resolve cfg.suites suites
  let aead := if suite = suiteUnknown then aeadNone else resolve cfg.aeads aeads
  let secErr := suite = suiteUnknown ∨ (suite ≠ suiteNone ∧ aead = aeadNone)
  if secErr then (close s, [.secureResponse suite aead true])
  else
    let s1 := { s with wait := some (.sigReq, false) }
    match applySecure cfg suite aead param with
    | none => (close s1, [.secureResponse suite aead false])
    | some x => ({ s1 with extra := some x }, [.secureResponse suite aead false])

def handleSecureResponse (cfg : Config) (s : PeerSt) (suite aead : Nat) (param : Bytes)
    (secErr : Bool) : PeerSt × List Out :=
  if secErr then (close s, [])
  else
    match applySecure cfg suite aead param with
    | none => (close s, [])
    | some x => ({ s with extra := some x, wait := some (.sigResp, false) }, [.signatureRequest])

def handleSignatureRequest {PK : Type} (c : Crypto PK) (cfg : Config) (s : PeerSt)
    (pub sig : Bytes) : PeerSt × List Out :=
  match verifySignature c pub sig (s.extra.getD []) with
  | .badKey => (close { s with id := none }, [.signatureResponse .errKey])
  | .badSig => (close { s with id := none }, [.signatureResponse .errSig])
  | .invalid id => (close { s with id := some id }, [.signatureResponse .errInvalid])
  | .ok id =>
    if id = cfg.self then (close { s with id := some id }, [.signatureResponse .selfAddress])
    else ({ s with id := some id, wait := none, handed := true }, [.signatureResponse .ok])

def handleSignatureResponse {PK : Type} (c : Crypto PK) (s : PeerSt)
    (pub sig : Bytes) (err : Bool) : PeerSt × List Out :=
  if err then (close s, [])
  else
    match verifySignature c pub sig (s.extra.getD []) with
    | .ok id => ({ s with id := some id, wait := none, handed := true }, [])
    | _ => (close s, [])

/-- the `switch pkt.subProtocol` of `Authenticator.onPacket` after `checkWaitInfo` and decoding -/
def dispatch {PK : Type} (c : Crypto PK) (cfg : Config) (s1 : PeerSt) : Msg → PeerSt × List Out
  | .garbage _ => (close s1, [])            -- decodePeerPacket fails
  | .unknownSub => (close s1, [])
  | .secureRequest suites aeads param => handleSecureRequest cfg s1 suites aeads param
  | .secureResponse suite aead param e => handleSecureResponse cfg s1 suite aead param e
  | .signatureRequest pub sig => handleSignatureRequest c cfg s1 pub sig
  | .signatureResponse pub sig e => handleSignatureResponse c s1 pub sig e

/-- `Authenticator.onPacket` for a packet of protocol p2pProtoAuth. Packets reach the
    authenticator only while the peer is open and not yet handed to the next handler. -/
def onPacket {PK : Type} (c : Crypto PK) (cfg : Config) (s : PeerSt) (m : Msg) : PeerSt × List Out :=
  if s.closed ∨ s.handed then (s, [])
  else
    match m.sub with
    | none => (close s, [])                       -- ErrNotRegisteredProtocol
    | some sub =>
      match checkWait s sub with
      | none => (close s, [])                     -- ErrInvalidMessageSequence
      | some s1 => dispatch c cfg s1 m

/-- a whole session: `onPeer`, then any sequence of received messages. -/
def run {PK : Type} (c : Crypto PK) (cfg : Config) (s : PeerSt) : List Msg → PeerSt
  | [] => s
  | m :: ms => run c cfg (onPacket c cfg s m).1 ms

end Goloop.C32
