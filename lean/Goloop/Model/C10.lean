/-
  Model/C10: block execution (service/transition.go:executeTxs,
  transition_se.go:executeTxsSequential, transition_pe.go:executeTxsConcurrent
  with executionContext.Report/Error/Ready/Done) as a small state machine.

  A transaction is described by what its stub handler does in every execution
  attempt (`Att`) plus whether `Prepare` fails.  The sequential executor is a
  function; the concurrent executor is a transition system whose
  nondeterminism (which blocked goroutine runs next: the dispatcher or one of
  the workers waiting in `Execute`) is resolved by a schedule of natural
  numbers, so that theorems can quantify over every schedule.

  `fixed = true` is the code with fixes/F4_pe_error_latch.diff applied
  (`Report` latches when `lastError == nil`; the dispatcher returns `ec.Error()`
  after the final `Realize`); `fixed = false` is the original code, kept for
  the witness theorem.  Core Lean only.
-/
import Goloop.Base.Bytes
namespace Goloop.C10

/-- what one execution attempt of a transaction does -/
inductive Att
  | ok          -- Execute and OnTransactionEnd succeed
  | efail       -- Execute fails with ExecutionFailError (retryable)
  | crerun      -- Execute fails with CriticalRerunError (retryable)
  | fatal       -- Execute fails with another error
  | tendFatal   -- OnTransactionEnd fails with a non-retryable error
  | tendRetry   -- OnTransactionEnd fails with ExecutionFailError
  | hfail       -- GetHandler for this attempt fails
  deriving DecidableEq, Repr

inductive ARes | succ | retry | fail
  deriving DecidableEq, Repr

/-- `err == nil` / `ExecutionFailError.Equals(err) || CriticalRerunError.Equals(err)` / otherwise -/
def Att.res : Att → ARes
  | .ok => .succ
  | .efail => .retry
  | .crerun => .retry
  | .tendRetry => .retry
  | .fatal => .fail
  | .tendFatal => .fail
  | .hfail => .fail

structure Tx where
  prep : Bool        -- handler.Prepare fails
  atts : List Att    -- per attempt; missing = ok
  deriving Repr

instance : Inhabited Tx := ⟨⟨false, []⟩⟩

def Tx.att (t : Tx) (k : Nat) : Att := t.atts.getD k .ok

/-- `RetryCount` of service/transition.go -/
def retryCount : Nat := 2

/-- identity of an injected error: (transaction index, attempt); attempt `prepCode` = Prepare -/
abbrev Err := Nat × Nat
def prepCode : Nat := 1000

/-- outcome of one pass through a retry loop body -/
inductive Iter
  | receipt (k : Nat)   -- `rctBuf[cnt] = rct; break`
  | report (e : Err)    -- `return err` (sequential) / `ec.Report(err); break` (concurrent)
  | again               -- next `retry`
  deriving DecidableEq, Repr

/-- transition_se.go, body of `for retry := 0; ; retry++` with `retry = k` -/
def seqIter (t : Tx) (i k : Nat) : Iter :=
  if t.att k = .hfail then .report (i, k)          -- txo.GetHandler fails
  else match (t.att k).res with
    | .succ => .receipt k
    | .fail => .report (i, k)                       -- not ExecutionFail / CriticalRerun
    | .retry => if k ≥ retryCount then .report (i, k) else .again   -- ctx.Reset(wcs) succeeds

/-- transition_pe.go, body of the worker's `for retry := 0; ; retry++` from `txh.Execute` on,
    with `retry = k`; the handler of attempt `k+1` is fetched at the end of pass `k`. -/
def workerIter (t : Tx) (i k : Nat) : Iter :=
  match (t.att k).res with
  | .succ => .receipt k
  | .fail => .report (i, k)
  | .retry =>
    if k ≥ retryCount then .report (i, k)
    else if t.att (k + 1) = .hfail then .report (i, k + 1)   -- wvs.Reset ok, GetHandler fails
    else .again

/-- result of one transaction: the attempt that produced its receipt, or its error -/
inductive TxRes
  | ok (k : Nat)
  | error (e : Err)
  deriving DecidableEq, Repr

def seqFrom (t : Tx) (i : Nat) : Nat → Nat → TxRes
  | 0, k => .error (i, k)
  | f + 1, k =>
    match seqIter t i k with
    | .receipt r => .ok r
    | .report e => .error e
    | .again => seqFrom t i f (k + 1)

/-- the sequential retry loop for transaction `i` -/
def txSeq (t : Tx) (i : Nat) : TxRes := seqFrom t i (retryCount + 1) 0

def wFrom (t : Tx) (i : Nat) : Nat → Nat → TxRes
  | 0, k => .error (i, k)
  | f + 1, k =>
    match workerIter t i k with
    | .receipt r => .ok r
    | .report e => .error e
    | .again => wFrom t i f (k + 1)

/-- dispatcher part (GetHandler, Prepare) followed by the worker loop for transaction `i` -/
def txPar (t : Tx) (i : Nat) : TxRes :=
  if t.att 0 = .hfail then .error (i, 0)
  else if t.prep then .error (i, prepCode)
  else wFrom t i (retryCount + 1) 0

/-- number of `Execute` calls of the sequential loop for one transaction -/
def seqExecs (t : Tx) : Nat → Nat → Nat
  | 0, _ => 0
  | f + 1, k =>
    if t.att k = .hfail then 0
    else match seqIter t 0 k with
      | .again => 1 + seqExecs t f (k + 1)
      | _ => 1

abbrev Buf := List (Option Nat)

inductive Result
  | ok (rcts : Buf)      -- executor returned nil; receipt buffer as it left it
  | error (e : Err)      -- executor returned an error
  | stuck                -- no result (never happens: theorem `par_total`)
  deriving DecidableEq, Repr

/-- transition_se.go:executeTxsSequential (no skipping, never canceled) -/
def seqLoop : List Tx → Nat → Buf → Result
  | [], _, buf => .ok buf
  | t :: rest, cnt, buf =>
    match txSeq t cnt with
    | .ok k => seqLoop rest (cnt + 1) (buf.set cnt (some k))
    | .error e => .error e

def execSeq (txs : List Tx) : Result := seqLoop txs 0 (List.replicate txs.length none)

def seqLoopExecs : List Tx → Nat
  | [] => 0
  | t :: rest =>
    seqExecs t (retryCount + 1) 0 +
      (match txSeq t 0 with
       | .ok _ => seqLoopExecs rest
       | .error _ => 0)

/-! ### concurrent executor -/

structure Cfg where
  txs : List Tx
  level : Nat
  fixed : Bool

def Cfg.n (c : Cfg) : Nat := c.txs.length
def Cfg.tx (c : Cfg) (i : Nat) : Tx := c.txs.getD i default

inductive WSt
  | idle                 -- not dispatched yet
  | blocked (k : Nat)    -- worker goroutine waits in `txh.Execute` of attempt `k`
  | done                 -- worker called `wvs.Commit(); ec.Done()`
  deriving DecidableEq, Repr

inductive Disp
  | gate (i : Nat)       -- in the loop body for index `i`, before `txo.GetHandler`
  | ready (i : Nat)      -- blocked in `ec.Ready()` for index `i`
  | realize              -- after the loop: waits for every worker, then `Realize`
  | fin (r : Option Err) -- returned `r`
  deriving DecidableEq, Repr

structure PS where
  disp : Disp
  tokens : Nat               -- free slots in `ec.waiter`
  ws : Nat → WSt
  latch : Option Err         -- `ec.lastError`
  buf : Nat → Option Nat     -- `rctBuf`
  execs : Nat                -- number of Execute calls so far (output only)

def upd {α : Type} (f : Nat → α) (i : Nat) (v : α) : Nat → α := fun j => if j = i then v else f j

/-- `executionContext.Report` -/
def report (fixed : Bool) (latch : Option Err) (e : Err) : Option Err :=
  if fixed then
    (match latch with            -- `if c.lastError == nil { c.lastError = e }`
     | none => some e
     | some x => some x)
  else
    (match latch with            -- original: `if c.lastError != nil { c.lastError = e }`
     | none => none
     | some _ => some e)

def isBlocked : WSt → Bool
  | .blocked _ => true
  | _ => false

def noneBlocked (c : Cfg) (s : PS) : Bool := (List.range c.n).all (fun j => !isBlocked (s.ws j))

/-- after the loop: `wvs.Realize()` returns once every virtual state is committed;
    then `return ec.Error()` (fixed) / `return nil` (original). -/
def tryRealize (c : Cfg) (s : PS) : PS :=
  if noneBlocked c s then { s with disp := .fin (if c.fixed then s.latch else none) } else s

/-- loop head for index `i`: `i.Has()`, `ec.Error()` check -/
def head (c : Cfg) (s : PS) (i : Nat) : PS :=
  if i ≥ c.n then tryRealize c { s with disp := .realize }
  else match s.latch with
    | some e => { s with disp := .fin (some e) }
    | none => { s with disp := .gate i }

/-- `ec.Ready()` obtained a slot: `go func(...)`, `cnt++`, next loop head -/
def launch (c : Cfg) (s : PS) (i : Nat) : PS :=
  head c { s with tokens := s.tokens - 1, ws := upd s.ws i (.blocked 0) } (i + 1)

/-- the dispatcher runs from `txo.GetHandler` of index `i` to its next blocking point -/
def stepD (c : Cfg) (s : PS) (i : Nat) : PS :=
  if (c.tx i).att 0 = .hfail then { s with disp := .fin (some (i, 0)) }
  else if (c.tx i).prep then { s with disp := .fin (some (i, prepCode)) }
  else if s.tokens > 0 then launch c s i
  else { s with disp := .ready i }

/-- worker `j` leaves its loop: `wvs.Commit(); ec.Done()`; a dispatcher blocked in
    `Ready`/`Realize` continues -/
def finishWorker (c : Cfg) (s : PS) (j : Nat) : PS :=
  let s1 : PS := { s with ws := upd s.ws j .done, tokens := s.tokens + 1 }
  match s1.disp with
  | .ready i => launch c s1 i
  | .realize => tryRealize c s1
  | _ => s1

/-- worker `j`, blocked in Execute of attempt `k`, runs to its next blocking point -/
def stepW (c : Cfg) (s : PS) (j k : Nat) : PS :=
  let s1 : PS := { s with execs := s.execs + 1 }
  match workerIter (c.tx j) j k with
  | .again => { s1 with ws := upd s1.ws j (.blocked (k + 1)) }
  | .receipt r => finishWorker c { s1 with buf := upd s1.buf j (some r) } j
  | .report e => finishWorker c { s1 with latch := report c.fixed s1.latch e } j

inductive Act
  | D
  | W (j : Nat)
  deriving DecidableEq, Repr

def enabled (c : Cfg) (s : PS) : List Act :=
  (match s.disp with
   | .gate _ => [Act.D]
   | _ => []) ++
  (List.range c.n).filterMap (fun j => if isBlocked (s.ws j) then some (Act.W j) else none)

def doAct (c : Cfg) (s : PS) : Act → PS
  | .D => (match s.disp with
           | .gate i => stepD c s i
           | _ => s)
  | .W j => (match s.ws j with
             | .blocked k => stepW c s j k
             | _ => s)

/-- one scheduling decision: `tok` picks among the enabled actions -/
def step (c : Cfg) (s : PS) (tok : Nat) : PS :=
  match s.disp with
  | .fin _ => s
  | _ =>
    match (enabled c s)[tok % (enabled c s).length]? with
    | none => s
    | some a => doAct c s a

def init (c : Cfg) : PS :=
  head c { disp := .gate 0, tokens := c.level, ws := fun _ => .idle, latch := none,
           buf := fun _ => none, execs := 0 } 0

def runFuel (c : Cfg) : Nat → PS → List Nat → PS
  | 0, s, _ => s
  | f + 1, s, sched =>
    match sched with
    | [] => runFuel c f (step c s 0) []
    | t :: r => runFuel c f (step c s t) r

def bound (c : Cfg) : Nat := c.n * (retryCount + 3) + 1

def PS.result (c : Cfg) (s : PS) : Result :=
  match s.disp with
  | .fin none => .ok ((List.range c.n).map s.buf)
  | .fin (some e) => .error e
  | _ => .stuck

def runPar (c : Cfg) (sched : List Nat) : PS := runFuel c (bound c) (init c) sched

def execPar (c : Cfg) (sched : List Nat) : Result := (runPar c sched).result c

/-- transition.go:executeTxs (skipping disabled): mode selection -/
def execTxs (txs : List Tx) (level : Nat) (fixed : Bool) (sched : List Nat) : Result :=
  if level > 1 then execPar ⟨txs, level, fixed⟩ sched else execSeq txs

/-- Execute calls up to the moment the executor returns -/
def execCount (txs : List Tx) (level : Nat) (fixed : Bool) (sched : List Nat) : Nat :=
  if level > 1 then (runPar ⟨txs, level, fixed⟩ sched).execs else seqLoopExecs txs

end Goloop.C10
