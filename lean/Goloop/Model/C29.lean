/-
  Model/C29: `secp256k1ProofContext.VerifyPart` / `.Verify` of
  btp/ntm/secp256k1proof.go, transcribed branch by branch.

  * A validator address is a byte string; a `nil` entry of `pc.Validators`
    (validator without a key) is the empty string (`bytes.Equal(nil, x)` is
    `len(x) == 0`).
  * Public-key recovery + address derivation (`secp256k1ProofPart.recover`,
    i.e. `Signature.RecoverPublicKey(dHash)` then `mod.AddressFromPubKey`) is the
    parameter `rec : σ → Option Bytes` (for the fixed decision hash); `none` is
    "recover returned an error".
  * Go `int` indices are `Int` in `verifyPart` (a part decoded from bytes can
    carry any index) and `Nat` in the `Verify` loop (`for i, sig := range`).
-/
import Goloop.Base.Bytes
import Goloop.Model.C24
namespace Goloop.C29

inductive Err where
  | index          -- "invalid proof part index=… numValidators=…"
  | recover        -- error from RecoverPublicKey / AddressFromPubKey
  | wrongIndex     -- "invalid proof part. maybe vote index is wrong?"
  | notValidator   -- "invalid proof part. not a validator."
  | duplicated     -- "duplicated proof parts" (unreachable, see Proofs)
  | notEnough      -- "not enough proof parts"
  deriving DecidableEq, Repr

/-- `pc.indexOf(addr)`: the map is built from the non-nil validators only. -/
def indexOfOk (vals : List Bytes) (addr : Bytes) : Bool :=
  vals.any (fun v => v ≠ [] ∧ v = addr)

/-- `VerifyPart(dHash, pp)`; returns the validator index. -/
def verifyPart {σ : Type} (rec : σ → Option Bytes) (vals : List Bytes) (idx : Int) (sig : σ) :
    Except Err Nat :=
  if idx < 0 ∨ idx ≥ (vals.length : Int) then .error .index
  else
    match rec sig with
    | none => .error .recover
    | some addr =>
      if vals[idx.toNat]? ≠ some addr then
        if indexOfOk vals addr then .error .wrongIndex else .error .notValidator
      else .ok idx.toNat

/-- the `for i, sig := range ep.Signatures` loop of `Verify`; `i` is the index of the head of
    the remaining list, `seen` the key set of `set`, `valid` the counter. -/
def verifyLoop {σ : Type} (rec : σ → Option Bytes) (vals : List Bytes) :
    List (Option σ) → Nat → List Nat → Nat → Except Err Nat
  | [], _, _, valid => .ok valid
  | none :: rest, i, seen, valid => verifyLoop rec vals rest (i + 1) seen valid
  | some sig :: rest, i, seen, valid =>
    match verifyPart rec vals (i : Int) sig with
    | .error e => .error e
    | .ok idx =>
      if idx ∈ seen then .error .duplicated
      else verifyLoop rec vals rest (i + 1) (idx :: seen) (valid + 1)

/-- `Verify(dHash, p)`; `none` = accepted (`nil` error). -/
def verify {σ : Type} (rec : σ → Option Bytes) (vals : List Bytes) (sigs : List (Option σ)) :
    Option Err :=
  match verifyLoop rec vals sigs 0 [] 0 with
  | .error e => some e
  | .ok valid =>
    if valid ≤ 2 * vals.length / 3 then some .notEnough else none

/-- number of non-nil signature slots -/
def present {σ : Type} (sigs : List (Option σ)) : Nat := (sigs.filter Option.isSome).length

/-! ### btp/proofcontextmap.go: `proofContextMap.Verify` and the decision bytes -/

/-- `rlpWriter.writeBytes` (`none` = nil slice → `f8 00`). -/
def rlpBytes : Option Bytes → Bytes
  | none => [0xf8, 0]
  | some b =>
    if b.length = 0 then [0x80]
    else if b.length = 1 ∧ (b.headD 0).toNat < 0x80 then b
    else if b.length ≤ 55 then UInt8.ofNat (0x80 + b.length) :: b
    else
      let sz := Goloop.C24.sizeToBytes b.length
      UInt8.ofNat (0x80 + 55 + sz.length) :: (sz ++ b)

/-- `rlpWriter.writeList` -/
def rlpList (b : Bytes) : Bytes :=
  if b.length = 0 then [0xc0]
  else if b.length ≤ 55 then UInt8.ofNat (0xc0 + b.length) :: b
  else
    let sz := Goloop.C24.sizeToBytes b.length
    UInt8.ofNat (0xc0 + 55 + sz.length) :: (sz ++ b)

def rlpInt (v : Int) : Bytes := rlpBytes (some (Goloop.C24.int64ToBytes v))

/-- `networkTypeSectionDecision` (btp/ntm/proof.go), built by `NewDecision`. -/
structure Decision where
  src : Option Bytes        -- SrcNetworkID
  ntid : Int                -- DstType
  height : Int
  round : Int               -- int32
  ntsHash : Option Bytes    -- NetworkTypeSectionHash

/-- `d.Bytes()`: codec (RLP) list of the five exported fields in declaration order. -/
def Decision.bytes (d : Decision) : Bytes :=
  rlpList (rlpBytes d.src ++ rlpInt d.ntid ++ rlpInt d.height ++ rlpInt d.round ++ rlpBytes d.ntsHash)

/-- a registered proof context: its module (hash + address scheme) and validators. -/
structure Ctx where
  uid : Nat
  vals : List Bytes

inductive MapErr where
  | invalidLen
  | newProof (i : Nat)
  | verify (i : Nat) (e : Err)
  deriving DecidableEq, Repr

/-- the second loop of `proofContextMap.Verify`; `i` indexes `ntsdProves`.
    `decode` = `pc.NewProofFromBytes`, `rec uid dbytes` = recovery for the hash (by module `uid`)
    of the decision bytes `dbytes`. -/
def verifyMapLoop {σ : Type} (pcm : Int → Option Ctx) (decode : Bytes → Option (List (Option σ)))
    (rec : Nat → Bytes → σ → Option Bytes) (src : Option Bytes) (height round : Int)
    (proofs : List Bytes) : List (Int × Option Bytes) → Nat → Option MapErr
  | [], _ => none
  | (ntid, h) :: rest, i =>
    match pcm ntid with
    | none => verifyMapLoop pcm decode rec src height round proofs rest i      -- `continue`
    | some ctx =>
      match decode (proofs.getD i []) with
      | none => some (.newProof i)
      | some sigs =>
        let d : Decision := { src := src, ntid := ntid, height := height, round := round, ntsHash := h }
        match verify (rec ctx.uid d.bytes) ctx.vals sigs with
        | some e => some (.verify i e)
        | none => verifyMapLoop pcm decode rec src height round proofs rest (i + 1)

/-- digests whose network type has a registered context -/
def registered (pcm : Int → Option Ctx) (digests : List (Int × Option Bytes)) : List (Int × Option Bytes) :=
  digests.filter (fun p => (pcm p.1).isSome)

/-- `proofContextMap.Verify(srcUID, height, round, bd, ntsdProves)`; `none` = nil error. -/
def verifyMap {σ : Type} (pcm : Int → Option Ctx) (decode : Bytes → Option (List (Option σ)))
    (rec : Nat → Bytes → σ → Option Bytes) (src : Option Bytes) (height round : Int)
    (digests : List (Int × Option Bytes)) (proofs : List Bytes) : Option MapErr :=
  if (registered pcm digests).length ≠ proofs.length then some .invalidLen
  else verifyMapLoop pcm decode rec src height round proofs digests 0

end Goloop.C29
