/-
  Model/C29: `secp256k1ProofContext.VerifyPart` / `.Verify` of
  btp/ntm/secp256k1proof.go, transcribed branch by branch.

  * A validator address is a byte string; a `nil` entry of `pc.Validators`
    (validator without a key) is the empty string (`bytes.Equal(nil, x)` is
    `len(x) == 0`).
  * Public-key recovery + address derivation (`secp256k1ProofPart.recover`,
    i.e. `Signature.RecoverPublicKey(dHash)` then `mod.AddressFromPubKey`) is the
    parameter `rec : σ → Option Bytes` (for the fixed decision hash); `none` is
    "recover returned an error".
  * Go `int` indices are `Int` in `verifyPart` (a part decoded from bytes can
    carry any index) and `Nat` in the `Verify` loop (`for i, sig := range`).
-/
import Goloop.Base.Bytes
namespace Goloop.C29

inductive Err where
  | index          -- "invalid proof part index=… numValidators=…"
  | recover        -- error from RecoverPublicKey / AddressFromPubKey
  | wrongIndex     -- "invalid proof part. maybe vote index is wrong?"
  | notValidator   -- "invalid proof part. not a validator."
  | duplicated     -- "duplicated proof parts" (unreachable, see Proofs)
  | notEnough      -- "not enough proof parts"
  deriving DecidableEq, Repr

/-- `pc.indexOf(addr)`: the map is built from the non-nil validators only. -/
def indexOfOk (vals : List Bytes) (addr : Bytes) : Bool :=
  vals.any (fun v => v ≠ [] ∧ v = addr)

/-- `VerifyPart(dHash, pp)`; returns the validator index. -/
def verifyPart {σ : Type} (rec : σ → Option Bytes) (vals : List Bytes) (idx : Int) (sig : σ) :
    Except Err Nat :=
  if idx < 0 ∨ idx ≥ (vals.length : Int) then .error .index
  else
    match rec sig with
    | none => .error .recover
    | some addr =>
      if vals[idx.toNat]? ≠ some addr then
        if indexOfOk vals addr then .error .wrongIndex else .error .notValidator
      else .ok idx.toNat

/-- the `for i, sig := range ep.Signatures` loop of `Verify`; `i` is the index of the head of
    the remaining list, `seen` the key set of `set`, `valid` the counter. -/
def verifyLoop {σ : Type} (rec : σ → Option Bytes) (vals : List Bytes) :
    List (Option σ) → Nat → List Nat → Nat → Except Err Nat
  | [], _, _, valid => .ok valid
  | none :: rest, i, seen, valid => verifyLoop rec vals rest (i + 1) seen valid
  | some sig :: rest, i, seen, valid =>
    match verifyPart rec vals (i : Int) sig with
    | .error e => .error e
    | .ok idx =>
      if idx ∈ seen then .error .duplicated
      else verifyLoop rec vals rest (i + 1) (idx :: seen) (valid + 1)

/-- `Verify(dHash, p)`; `none` = accepted (`nil` error). -/
def verify {σ : Type} (rec : σ → Option Bytes) (vals : List Bytes) (sigs : List (Option σ)) :
    Option Err :=
  match verifyLoop rec vals sigs 0 [] 0 with
  | .error e => some e
  | .ok valid =>
    if valid ≤ 2 * vals.length / 3 then some .notEnough else none

/-- number of non-nil signature slots -/
def present {σ : Type} (sigs : List (Option σ)) : Nat := (sigs.filter Option.isSome).length

end Goloop.C29
