/-
  Model/C09: lock-request bookkeeping of service/state/worldvirtualstate.go
  (applyLockRequests / getLocker / setLocker over the block's request lists)
  and two event systems on top of the dependency table it produces:

  * `Sim` – fine grained (one program step or one Commit of one transaction
    per event, enabled iff the real code would not block), used by the driver
    for the correspondence run against the real NewWorldVirtualState /
    GetFuture / GetAccountState / Commit / Realize;
  * `Coarse` – `start i` / `commit i` events with atomic transactions, the
    system the serializability theorem is stated for.

  Accounts are naturals, values are naturals. Core Lean only.
-/
import Goloop.Base.Bytes
namespace Goloop.C09

/-- `AccountReadLock = 1`, `AccountWriteLock = 2` -/
inductive Lk | read | write
  deriving DecidableEq, Repr

def Lk.num : Lk → Nat
  | .read => 1
  | .write => 2

/-- `LockRequest`; `acct = none` is `WorldIDStr` -/
structure Req where
  acct : Option Nat
  lock : Lk
  deriving DecidableEq, Repr

inductive Step
  | r (a : Nat)
  | w (a : Nat)
  deriving DecidableEq, Repr

def Step.acct : Step → Nat
  | .r a => a
  | .w a => a

structure Tx where
  reqs : List Req
  prog : List Step
  deriving Repr

/-- `worldVirtualContext.lastAccountLocker` / `lastWorldLocker` (transactions by index) -/
structure Ctx where
  lastAcct : Nat → Option Nat
  lastWorld : Option Nat

def Ctx.empty : Ctx := ⟨fun _ => none, none⟩

/-- `getLocker` for an account id -/
def Ctx.getLocker (c : Ctx) (a : Nat) : Option Nat :=
  match c.lastAcct a with
  | some t => some t
  | none => c.lastWorld

/-- `setLocker(id, wvs)` for an account id -/
def Ctx.setAcct (c : Ctx) (a i : Nat) : Ctx :=
  { c with lastAcct := fun b => if b = a then some i else c.lastAcct b }

/-- `setLocker(WorldIDStr, wvs)` -/
def Ctx.setWorld (_c : Ctx) (i : Nat) : Ctx := ⟨fun _ => none, some i⟩

/-- entry of `accountStates` -/
structure Las where
  acct : Nat
  lock : Lk
  depend : Option Nat
  deriving DecidableEq, Repr

/-- what applyLockRequests leaves in a virtual state -/
structure Locks where
  world : Nat            -- `worldLock`: 0 none, 1 read, 2 write
  las : List Las
  deriving Repr

/-- first loop of applyLockRequests: the strongest world request -/
def worldLockOf (reqs : List Req) : Nat :=
  reqs.foldl (fun wl r => if r.acct = none ∧ r.lock.num > wl then r.lock.num else wl) 0

/-- `accountStates[req.ID]`: insert or raise the lock -/
def addReq : List (Nat × Lk) → Nat → Lk → List (Nat × Lk)
  | [], a, l => [(a, l)]
  | (b, m) :: rest, a, l =>
    if b = a then (b, if m.num < l.num then l else m) :: rest else (b, m) :: addReq rest a l

/-- second loop: per-account requests stronger than the world lock -/
def acctStep (wl : Nat) (m : List (Nat × Lk)) (r : Req) : List (Nat × Lk) :=
  match r.acct with
  | none => m
  | some a => if r.lock.num ≤ wl then m else addReq m a r.lock

def acctMap (wl : Nat) (reqs : List Req) : List (Nat × Lk) := reqs.foldl (acctStep wl) []

/-- third loop, `setLocker` part.  (Go iterates a map of distinct ids; `getLocker(id)` reads only
    entry `id` and `lastWorldLocker`, `setLocker(id)` writes only entry `id`, so every `getLocker`
    sees the pre-loop context – `depend` below is computed from it.) -/
def setWriters (c : Ctx) (i : Nat) : List (Nat × Lk) → Ctx
  | [] => c
  | (a, l) :: rest => setWriters (if l = .write then c.setAcct a i else c) i rest

/-- applyLockRequests for transaction `i` -/
def applyLockRequests (c : Ctx) (i : Nat) (reqs : List Req) : Locks × Ctx :=
  let wl := worldLockOf reqs
  if wl = 2 then (⟨2, []⟩, c.setWorld i)
  else
    let m := acctMap wl reqs
    (⟨wl, m.map (fun (a, l) => ⟨a, l, c.getLocker a⟩)⟩, setWriters c i m)

/-- NewWorldVirtualState / GetFuture chain over the block, transaction indices from `i` -/
def buildFrom (c : Ctx) (i : Nat) : List Tx → List Locks
  | [] => []
  | t :: rest =>
    let (lk, c') := applyLockRequests c i t.reqs
    lk :: buildFrom c' (i + 1) rest

def build (txs : List Tx) : List Locks := buildFrom Ctx.empty 0 txs

/-- context after the first transactions of the block -/
def ctxAfter (c : Ctx) (i : Nat) : List Tx → Ctx
  | [] => c
  | t :: rest => ctxAfter (applyLockRequests c i t.reqs).2 (i + 1) rest

/-- the request list lets the transaction modify account `a` -/
def mayWrite (reqs : List Req) (a : Nat) : Bool :=
  reqs.any (fun r => r.lock = .write ∧ (r.acct = none ∨ r.acct = some a))

/-- the greatest `j < i` (relative to offset `base`) whose requests let it modify `a` -/
def lastWriter (base : Nat) : List Tx → Nat → Option Nat
  | [], _ => none
  | t :: rest, a =>
    match lastWriter (base + 1) rest a with
    | some j => some j
    | none => if mayWrite t.reqs a then some base else none

/-! ### values and programs -/

def M : Nat := 1000003

def readMix (acc v : Nat) : Nat := (acc * 31 + v + 7) % M
def writeVal (acc i a : Nat) : Nat := (acc * 17 + (i + 1) * 101 + a * 13 + 1) % M

def initBal (nacc : Nat) : List Nat := (List.range nacc).map (fun a => (a + 1) * 1000)

/-- how a transaction reaches an account -/
inductive Access
  | worldW                      -- world write lock: the live world state
  | rw (dep : Option Nat)       -- write-locked account
  | ro (dep : Option Nat)       -- read-locked account: read-only copy taken from `dep`
  | roBase                      -- world read lock: read-only copy of the realized base
  | nil                         -- not declared: GetAccountState returns nil
  deriving DecidableEq, Repr

def access (lk : Locks) (a : Nat) : Access :=
  if lk.world = 2 then .worldW
  else match lk.las.find? (fun l => l.acct = a) with
    | some l => if l.lock = .write then .rw l.depend else .ro l.depend
    | none => if lk.world = 1 then .roBase else .nil

/-! ### sequential reference -/

structure Local where
  acc : Nat
  obs : List (Option Nat)
  deriving Repr

/-- one program step on a store the transaction may use directly -/
def stepOn (i : Nat) (declared : Nat → Bool) (st : Step) (store : List Nat) (l : Local) : List Nat × Local :=
  if !declared st.acct then (store, { l with obs := l.obs ++ [none] })
  else match st with
    | .r a =>
      let v := store.getD a 0
      (store, { acc := readMix l.acc v, obs := l.obs ++ [some v] })
    | .w a =>
      let val := writeVal l.acc i a
      (store.set a val, { l with acc := (l.acc + val) % M })

def declaredBy (lk : Locks) (a : Nat) : Bool := access lk a ≠ .nil

def runTxSeq (i : Nat) (lk : Locks) (prog : List Step) (store : List Nat) : List Nat × Local :=
  prog.foldl (fun (p : List Nat × Local) st => stepOn i (declaredBy lk) st p.1 p.2) (store, ⟨0, []⟩)

/-- sequential execution of the block: final store and what every transaction observed -/
def runSeqFrom (i : Nat) : List (Tx × Locks) → List Nat → List Nat × List (List (Option Nat))
  | [], store => (store, [])
  | (t, lk) :: rest, store =>
    let (s', l) := runTxSeq i lk t.prog store
    let (sf, os) := runSeqFrom (i + 1) rest s'
    (sf, l.obs :: os)

def runSeq (nacc : Nat) (txs : List Tx) : List Nat × List (List (Option Nat)) :=
  runSeqFrom 0 (txs.zip (build txs)) (initBal nacc)

/-! ### fine grained event system (mirrors the blocking behaviour of the code) -/

structure TxSt where
  pc : Nat := 0
  loc : Local := ⟨0, []⟩
  committed : Bool := false
  base : Option (List Nat) := none      -- realized base of a world read locker
  deriving Repr

structure Sim where
  real : List Nat                       -- the real world state
  init : List Nat                       -- its content when the virtual states were created
  snaps : List (Option (List Nat))      -- world content at Commit of every transaction
  sts : List TxSt
  deriving Repr

def Sim.isCommitted (s : Sim) (j : Nat) : Bool := (s.sts.getD j {}).committed

def Sim.allBefore (s : Sim) (i : Nat) : Bool := (List.range i).all (fun j => s.isCommitted j)

def depOK (s : Sim) (d : Option Nat) : Bool :=
  match d with
  | none => true
  | some j => s.isCommitted j

/-- would the next action of transaction `i` return without blocking? -/
def enabledTx (txs : List Tx) (lks : List Locks) (s : Sim) (i : Nat) : Bool :=
  let st := s.sts.getD i {}
  let lk := lks.getD i ⟨0, []⟩
  let prog := (txs.getD i ⟨[], []⟩).prog
  if st.committed then false
  else match prog[st.pc]? with
    | some step =>
      (match access lk step.acct with
       | .worldW => s.allBefore i
       | .roBase => s.allBefore i
       | .rw d => depOK s d
       | .ro d => depOK s d
       | .nil => true)
    | none => lk.las.all (fun l => l.lock ≠ .write || depOK s l.depend)

/-- perform the next action (program step or Commit) of transaction `i` -/
def fire (txs : List Tx) (lks : List Locks) (s : Sim) (i : Nat) : Sim :=
  let st := s.sts.getD i {}
  let lk := lks.getD i ⟨0, []⟩
  let prog := (txs.getD i ⟨[], []⟩).prog
  match prog[st.pc]? with
  | none =>
    { s with snaps := s.snaps.set i (some s.real), sts := s.sts.set i { st with committed := true } }
  | some step =>
    let a := step.acct
    match access lk a with
    | .nil =>
      { s with sts := s.sts.set i { st with pc := st.pc + 1, loc := { st.loc with obs := st.loc.obs ++ [none] } } }
    | .ro d =>
      let src := match d with
        | some j => (s.snaps.getD j none).getD s.init
        | none => s.init
      let (_, l') := stepOn i (fun _ => true) step src st.loc
      { s with sts := s.sts.set i { st with pc := st.pc + 1, loc := l' } }
    | .roBase =>
      -- `realizeBaseInLock`: `base` is set at creation for the first virtual state, and for the
      -- second one when the first was created committed (no requests); otherwise it is
      -- `parent.committed`: the snapshot a world write locker took at its Commit, or else the
      -- snapshot `parent.Realize()` takes of the real state now
      let atCreation := i = 0 || (i = 1 && (txs.getD 0 ⟨[], []⟩).reqs.isEmpty)
      let parentSnap := if (lks.getD (i - 1) ⟨0, []⟩).world = 2 then (s.snaps.getD (i - 1) none).getD s.real else s.real
      let b := st.base.getD (if atCreation then s.init else parentSnap)
      let (_, l') := stepOn i (fun _ => true) step b st.loc
      { s with sts := s.sts.set i { st with pc := st.pc + 1, loc := l', base := some b } }
    | _ =>
      let (real', l') := stepOn i (fun _ => true) step s.real st.loc
      { s with real := real', sts := s.sts.set i { st with pc := st.pc + 1, loc := l' } }

/-- run a schedule: a list of transaction indices, each of which must be enabled when its turn
    comes (`none` if the schedule asks for an event that would block) -/
def runSched (txs : List Tx) (lks : List Locks) : List Nat → Sim → Option Sim
  | [], s => some s
  | i :: rest, s =>
    if i < txs.length ∧ enabledTx txs lks s i = true then runSched txs lks rest (fire txs lks s i) else none

def enabledList (txs : List Tx) (lks : List Locks) (s : Sim) : List Nat :=
  (List.range txs.length).filter (enabledTx txs lks s)

inductive Sched
  | toks (l : List Nat)
  | prio (l : List Nat)

def pick (txs : List Tx) (lks : List Locks) (s : Sim) (en : List Nat) : Sched → Option (Nat × Sched)
  | .toks [] => en.head?.map (fun i => (i, .toks []))
  | .toks (t :: r) => en[t % en.length]?.map (fun i => (i, .toks r))
  | .prio l =>
    match l.find? (fun i => enabledTx txs lks s i) with
    | some i => some (i, .prio l)
    | none => en.head?.map (fun i => (i, .prio l))

def simulate (txs : List Tx) (lks : List Locks) : Nat → Sim → Sched → Option Sim
  | 0, s, _ => some s
  | f + 1, s, sc =>
    if (List.range txs.length).all (fun i => s.isCommitted i) then some s
    else
      let en := enabledList txs lks s
      match pick txs lks s en sc with
      | none => none            -- deadlock
      | some (i, sc') => simulate txs lks f (fire txs lks s i) sc'

def simInit (nacc : Nat) (txs : List Tx) : Sim :=
  { real := initBal nacc, init := initBal nacc, snaps := txs.map (fun _ => none), sts := txs.map (fun _ => {}) }

def fuelFor (txs : List Tx) : Nat := txs.foldl (fun n t => n + t.prog.length + 1) 1

/-- a write step needs write access (a read-only account state panics on SetBalance) -/
def validTx (lk : Locks) (t : Tx) : Bool :=
  t.prog.all (fun st => match st with
    | .w a => (match access lk a with
               | .ro _ => false
               | .roBase => false
               | _ => true)
    | .r _ => true)

end Goloop.C09
