/-
  Model/C12: transaction identity across representations
  (service/transaction: serialize.go, transaction_json.go, transaction_v3.go, factory.go).

  * `JV`                 the value tree `json.Unmarshal` produces for `interface{}`
                         (numbers are already converted: Go keeps a float64 and
                         `serializeValue` prints `int64(float64)`; the tree keeps that integer)
  * `serString/serValue/serDictTop`   serialize.go, transcribed
  * `unser…`             an explicit inverse parser of `serValue` (not in the Go code; used to
                         state injectivity)
  * `TxData`, `structPreimage`        transactionV3Data.calcHash (struct order)
  * `parseV3JSON`, `txID`, `txBytes`, `newTransaction`   the decision logic of
                         parseV3JSON / TxHash / Bytes / SetBytes / newTransaction
  * `rlp…`, `encodeTx/decodeTx`       the binary form (codec RLP list of 11 items)
  The hash is a parameter everywhere.
-/
import Goloop.Base.Bytes
namespace Goloop.C12

/-! ## JSON value tree -/

inductive JV where
  | null
  | bool (b : Bool)
  | num (n : Int)
  | str (s : Bytes)
  | list (xs : List JV)
  | dict (kvs : List (Bytes × JV))
  deriving Inhabited

/-! ## serialize.go -/

def cBsl : UInt8 := 0x5c  -- '\'
def cDot : UInt8 := 0x2e  -- '.'
def cLBr : UInt8 := 0x5b  -- '['
def cRBr : UInt8 := 0x5d  -- ']'
def cLBc : UInt8 := 0x7b  -- '{'
def cRBc : UInt8 := 0x7d  -- '}'
def cZero : UInt8 := 0x30 -- '0'

/-- the six bytes `serializeString` escapes -/
def isSpecial (b : UInt8) : Bool :=
  b == 0x5c || b == 0x7b || b == 0x7d || b == 0x5b || b == 0x5d || b == 0x2e

/-- `serializeString` -/
def serString : Bytes → Bytes
  | [] => []
  | b :: r => if isSpecial b then 0x5c :: b :: serString r else b :: serString r

/-- decimal digits of a natural, most significant first (`strconv.FormatInt`) -/
def natDecAux : Nat → Nat → Bytes → Bytes
  | 0, _, acc => acc
  | fuel + 1, n, acc =>
    let acc' := UInt8.ofNat (48 + n % 10) :: acc
    if n / 10 = 0 then acc' else natDecAux fuel (n / 10) acc'

def natDec (n : Nat) : Bytes := natDecAux (n + 1) n []

def intDec (i : Int) : Bytes :=
  if i < 0 then 0x2d :: natDec i.natAbs else natDec i.natAbs

/-- `serializeList` buffer loop: a '.' is written before a fragment only when the buffer is
    non-empty (so leading empty fragments vanish). -/
def joinListFrom (buf : Bytes) : List Bytes → Bytes
  | [] => buf
  | f :: fs => joinListFrom ((if buf.isEmpty then buf else buf ++ [cDot]) ++ f) fs

/-- `serializeDict` buffer loop over (key, serialized value) in key order. -/
def joinDictFrom (buf : Bytes) : List (Bytes × Bytes) → Bytes
  | [] => buf
  | (k, f) :: r =>
    joinDictFrom ((if buf.isEmpty then buf else buf ++ [cDot]) ++ serString k ++ [cDot] ++ f) r

/-- bytewise lexicographic `<` (Go string comparison, `sort.Strings`) -/
def bytesLt : Bytes → Bytes → Bool
  | [], [] => false
  | [], _ :: _ => true
  | _ :: _, [] => false
  | a :: as, b :: bs => if a < b then true else if b < a then false else bytesLt as bs

def insertPair {α : Type} (p : Bytes × α) : List (Bytes × α) → List (Bytes × α)
  | [] => [p]
  | q :: r => if bytesLt p.1 q.1 then p :: q :: r else q :: insertPair p r

/-- keys of a Go map are unique; sorting them = insertion sort of the pairs by key -/
def sortPairs {α : Type} : List (Bytes × α) → List (Bytes × α)
  | [] => []
  | p :: r => insertPair p (sortPairs r)

mutual
/-- `serializeValue`; `none` = SerializeError (bool is the only unsupported JSON type) -/
def serValue : JV → Option Bytes
  | .null => some [cBsl, cZero]
  | .bool _ => none
  | .num n => some (intDec n)
  | .str s => some (serString s)
  | .list xs =>
    match serFrags xs with
    | some fs => some (cLBr :: (joinListFrom [] fs ++ [cRBr]))
    | none => none
  | .dict kvs =>
    match serPairs kvs with
    | some ps => some (cLBc :: (joinDictFrom [] (sortPairs ps) ++ [cRBc]))
    | none => none
def serFrags : List JV → Option (List Bytes)
  | [] => some []
  | v :: r =>
    match serValue v, serFrags r with
    | some f, some fs => some (f :: fs)
    | _, _ => none
def serPairs : List (Bytes × JV) → Option (List (Bytes × Bytes))
  | [] => some []
  | (k, v) :: r =>
    match serValue v, serPairs r with
    | some f, some ps => some ((k, f) :: ps)
    | _, _ => none
end

/-- `serializeDict(d, nil, ex)` at top level: excluded keys are skipped before their value is
    looked at. -/
def serDictTop (kvs : List (Bytes × JV)) (ex : List Bytes) : Option Bytes :=
  match serPairs (kvs.filter (fun kv => !ex.contains kv.1)) with
  | some ps => some (joinDictFrom [] (sortPairs ps))
  | none => none

/-! ## explicit inverse of `serValue` (not in the Go code) -/

/-- read an escaped string up to (not including) the first unescaped special byte, or the end -/
def unserString : Bytes → Bytes × Bytes
  | [] => ([], [])
  | [b] => if isSpecial b then ([], [b]) else ([b], [])
  | b :: c :: r =>
    if b == cBsl then ((c :: (unserString r).1), (unserString r).2)
    else if isSpecial b then ([], b :: c :: r)
    else ((b :: (unserString (c :: r)).1), (unserString (c :: r)).2)

mutual
def unserValue : Nat → Bytes → Option (JV × Bytes)
  | 0, _ => none
  | fuel + 1, bs =>
    match bs with
    | b :: c :: rest =>
      if b == cBsl && c == cZero then some (.null, rest)
      else if b == cLBr then
        if c == cRBr then some (.list [], rest)
        else match unserItems fuel (c :: rest) with
          | some (xs, r) => some (.list xs, r)
          | none => none
      else if b == cLBc then
        if c == cRBc then some (.dict [], rest)
        else match unserEntries fuel (c :: rest) with
          | some (kvs, r) => some (.dict kvs, r)
          | none => none
      else some (.str (unserString bs).1, (unserString bs).2)
    | _ => some (.str (unserString bs).1, (unserString bs).2)
/-- one or more items separated by '.', closed by ']' (consumed) -/
def unserItems : Nat → Bytes → Option (List JV × Bytes)
  | 0, _ => none
  | fuel + 1, bs =>
    match unserValue fuel bs with
    | none => none
    | some (v, rest) =>
      match rest with
      | [] => none
      | c :: rest' =>
        if c == cDot then
          match unserItems fuel rest' with
          | some (vs, r) => some (v :: vs, r)
          | none => none
        else if c == cRBr then some ([v], rest')
        else none
/-- one or more `key.value` entries separated by '.', closed by '}' (consumed) -/
def unserEntries : Nat → Bytes → Option (List (Bytes × JV) × Bytes)
  | 0, _ => none
  | fuel + 1, bs =>
    match (unserString bs).2 with
    | [] => none
    | d :: r1 =>
      if d == cDot then
        match unserValue fuel r1 with
        | none => none
        | some (v, rest) =>
          match rest with
          | [] => none
          | c :: rest' =>
            if c == cDot then
              match unserEntries fuel rest' with
              | some (kvs, r) => some (((unserString bs).1, v) :: kvs, r)
              | none => none
            else if c == cRBc then some ([((unserString bs).1, v)], rest')
            else none
      else none
end

/-- the inverse parser: the whole input must be one value -/
def unser (bs : Bytes) : Option JV :=
  match unserValue (2 * bs.length + 2) bs with
  | some (v, []) => some v
  | _ => none

/-- strictly increasing keys (the canonical listing of a Go map) -/
def keysSorted {α : Type} : List (Bytes × α) → Bool
  | [] => true
  | [_] => true
  | p :: q :: r => bytesLt p.1 q.1 && keysSorted (q :: r)

/-- first element is not the empty string -/
def headOk : List JV → Bool
  | .str [] :: _ => false
  | _ => true

mutual
/-- values on which `serValue` is injective: no numbers (they collide with strings), no bools
    (not serializable), lists do not start with an empty string (it would vanish), dict keys
    listed in increasing order (maps have no order). -/
def canon : JV → Bool
  | .null => true
  | .bool _ => false
  | .num _ => false
  | .str _ => true
  | .list xs => headOk xs && canonList xs
  | .dict kvs => keysSorted kvs && canonDict kvs
def canonList : List JV → Bool
  | [] => true
  | v :: r => canon v && canonList r
def canonDict : List (Bytes × JV) → Bool
  | [] => true
  | (_, v) :: r => canon v && canonDict r
end

mutual
def sz : JV → Nat
  | .list xs => 1 + szList xs
  | .dict kvs => 1 + szDict kvs
  | _ => 1
def szList : List JV → Nat
  | [] => 0
  | v :: r => 1 + sz v + szList r
def szDict : List (Bytes × JV) → Nat
  | [] => 0
  | (_, v) :: r => 1 + sz v + szDict r
end

/-! ## integer / address text and byte forms (common/intconv, common/address.go; see C24) -/

def asc (s : String) : Bytes := s.toUTF8.toList

def byteOfNat (v : Nat) : UInt8 := UInt8.ofNat (v % 256)

/-- minimal unsigned big-endian bytes (`big.Int.Bytes`): empty for 0. -/
def natBytesAux : Nat → Nat → Bytes → Bytes
  | 0, _, acc => acc
  | fuel + 1, v, acc => if v = 0 then acc else natBytesAux fuel (v / 256) (byteOfNat v :: acc)
def natBytes (v : Nat) : Bytes := natBytesAux (v + 1) v []

def hexDigit (n : Nat) : UInt8 := if n < 10 then UInt8.ofNat (48 + n) else UInt8.ofNat (87 + n)
def hexOfBytes (bs : Bytes) : Bytes := bs.flatMap fun b => [hexDigit (b.toNat / 16), hexDigit (b.toNat % 16)]

/-- `encodeHexNumber` -/
def encodeHexNumber (neg : Bool) (b : Bytes) : Bytes :=
  match hexOfBytes b with
  | [] => asc "0x0"
  | c :: rest =>
    let s' := if c = 0x30 then rest else c :: rest
    (if neg then asc "-0x" else asc "0x") ++ s'

/-- `HexInt.String`, `HexInt64.String`, `HexUint16.String` (all: sign, `0x`, minimal hex digits) -/
def hexStr (i : Int) : Bytes := encodeHexNumber (i < 0) (natBytes i.natAbs)

def bitLen (v : Nat) : Nat := if v = 0 then 0 else Nat.log2 v + 1

/-- `BigIntToBytes`: minimal two's complement big-endian -/
def bigIntToBytes (i : Int) : Bytes :=
  if i = 0 then [0]
  else if i > 0 then
    let n := i.toNat
    if bitLen n % 8 = 0 then 0 :: natBytes n else natBytes n
  else
    let ti := i + 1
    let bl := bitLen ti.natAbs
    let nb : Int := (2 : Int) ^ ((bl + 8) / 8 * 8) + i
    natBytes nb.toNat

/-- `BigIntSetBytes` -/
def bigIntSetBytes (bs : Bytes) : Int :=
  match bs with
  | [] => 0
  | b :: _ => if b.toNat ≥ 128 then (beNat bs : Int) - (256 : Int) ^ bs.length else beNat bs

/-- `Int64ToBytes` = minimal two's complement of an int64 (same bytes as `BigIntToBytes`) -/
def int64ToBytes (v : Int) : Bytes := bigIntToBytes v

/-- `SafeBytesToInt64` -/
def safeBytesToInt64 (bs : Bytes) : Option Int :=
  if bs.length > 8 then none else some (bigIntSetBytes bs)

/-- `SafeBytesToUint64` -/
def safeBytesToUint64 (bs : Bytes) : Option Nat :=
  match bs with
  | [] => some 0
  | b :: rest =>
    if b = 0 then (if rest.length > 8 then none else some (beNat rest))
    else if b.toNat ≥ 128 then none
    else if bs.length > 8 then none else some (beNat bs)

/-- `Address.String` of the 21-byte form -/
def addrStr (a : Bytes) : Bytes :=
  match a with
  | [] => asc "hx"
  | t :: id => (if t = 1 then asc "cx" else asc "hx") ++ hexOfBytes id

/-! ## transactionV3Data and its struct-order hash preimage -/

structure TxData where
  version : Nat
  from_ : Bytes              -- 21 bytes: type (0/1), 20-byte id
  to : Bytes
  value : Option Int
  stepLimit : Int
  timestamp : Int
  nid : Option Int
  nonce : Option Int
  signature : Bytes          -- raw [R|S|V] (65), [R|S] (64) or empty (no signature)
  dataType : Option Bytes
  data : Option Bytes        -- json.RawMessage (nil = none)
  deriving DecidableEq, Inhabited

def optPart (label : String) : Option Bytes → Bytes
  | none => []
  | some s => asc label ++ s

/-- `transactionV3Data.calcHash` preimage; `pj` = `json.Unmarshal` into `interface{}`.
    `none` = the function returns an error. -/
def structPreimage (pj : Bytes → Option JV) (d : TxData) : Option Bytes :=
  let dataPart : Option Bytes :=
    match d.data with
    | none => some []
    | some raw =>
      if raw.isEmpty then some (asc ".data.")
      else match pj raw with
        | none => none
        | some v => match serValue v with
          | none => none
          | some bs => some (asc ".data." ++ bs)
  match dataPart with
  | none => none
  | some dp =>
    some (asc "icx_sendTransaction" ++ dp
      ++ optPart ".dataType." d.dataType
      ++ asc ".from." ++ addrStr d.from_
      ++ optPart ".nid." (d.nid.map hexStr)
      ++ optPart ".nonce." (d.nonce.map hexStr)
      ++ asc ".stepLimit." ++ hexStr d.stepLimit
      ++ asc ".timestamp." ++ hexStr d.timestamp
      ++ asc ".to." ++ addrStr d.to
      ++ optPart ".value." (d.value.map hexStr)
      ++ asc ".version." ++ hexStr d.version)

def saltBytes : Bytes := asc "icx_sendTransaction."
def exclV3 : List Bytes := [asc "signature", asc "txHash"]

/-- `calcHashOfTransactionJSMap(data, 3)` preimage -/
def mapPreimage (top : Option JV) : Option Bytes :=
  match top with
  | some (.dict kvs) =>
    match serDictTop kvs exclV3 with
    | some body => some (saltBytes ++ body)
    | none => none
  | _ => none

/-! ## RLP framing of the binary form (common/codec/rlp.go) -/

def sizeBytes (n : Nat) : Bytes := if n = 0 then [0] else natBytes n

def rlpBytes (b : Bytes) : Bytes :=
  match b with
  | [] => [0x80]
  | [x] => if x < 0x80 then [x] else [0x81, x]
  | _ =>
    if b.length ≤ 55 then UInt8.ofNat (0x80 + b.length) :: b
    else UInt8.ofNat (0xb7 + (sizeBytes b.length).length) :: (sizeBytes b.length ++ b)

def rlpNull : Bytes := [0xf8, 0x00]

def rlpOpt : Option Bytes → Bytes
  | none => rlpNull
  | some b => rlpBytes b

def rlpList (payload : Bytes) : Bytes :=
  if payload.length = 0 then [0xc0]
  else if payload.length ≤ 55 then UInt8.ofNat (0xc0 + payload.length) :: payload
  else UInt8.ofNat (0xf7 + (sizeBytes payload.length).length) :: (sizeBytes payload.length ++ payload)

/-- `readBytes`: one item; `some (none, rest)` is the nil value -/
def rlpReadItem (bs : Bytes) : Option (Option Bytes × Bytes) :=
  match bs with
  | [] => none
  | t :: r =>
    let tag := t.toNat
    if tag < 0x80 then some (some [t], r)
    else if tag ≤ 0xb7 then
      let n := tag - 0x80
      if r.length < n then none else some (some (r.take n), r.drop n)
    else if tag < 0xc0 then
      let k := tag - 0xb7
      if r.length < k then none
      else
        let n := beNat (r.take k)
        let r2 := r.drop k
        if r2.length < n then none else some (some (r2.take n), r2.drop n)
    else if tag = 0xf8 then
      match r with
      | z :: r2 => if z = 0 then some (none, r2) else none
      | [] => none
    else none

/-- `readList` header: payload of the list and what follows -/
def rlpReadList (bs : Bytes) : Option (Bytes × Bytes) :=
  match bs with
  | [] => none
  | t :: r =>
    let tag := t.toNat
    if tag < 0xc0 then none
    else if tag ≤ 0xf7 then
      let n := tag - 0xc0
      if r.length < n then none else some (r.take n, r.drop n)
    else
      let k := tag - 0xf7
      if r.length < k then none
      else
        let n := beNat (r.take k)
        let r2 := r.drop k
        if k = 1 ∧ n = 0 then none
        else if r2.length < n then none else some (r2.take n, r2.drop n)

/-- the 11 items of `transactionV3Data` in field order, as byte strings (nil = none) -/
def txItems (d : TxData) : List (Option Bytes) :=
  [ some (int64ToBytes d.version),
    some d.from_,
    some d.to,
    d.value.map bigIntToBytes,
    some (bigIntToBytes d.stepLimit),
    some (int64ToBytes d.timestamp),
    d.nid.map int64ToBytes,
    d.nonce.map bigIntToBytes,
    some d.signature,
    d.dataType,
    d.data ]

/-- `codec.MarshalToBytes(&tx.transactionV3Data)`; fails (Go: Bytes() = nil) for a 64-byte
    signature, which has no [R|S|V] form. -/
def encodeTx (d : TxData) : Option Bytes :=
  if d.signature.length = 64 then none
  else some (rlpList ((txItems d).flatMap rlpOpt))

def rlpReadItems : Nat → Bytes → Option (List (Option Bytes))
  | 0, bs => if bs.isEmpty then some [] else none
  | n + 1, bs =>
    match rlpReadItem bs with
    | none => none
    | some (it, rest) =>
      match rlpReadItems n rest with
      | some its => some (it :: its)
      | none => none

/-- `Address.SetBytes` -/
def addrOfBytes (b : Bytes) : Option Bytes :=
  if b.length = 21 then
    match b with
    | t :: _ => if t = 0 ∨ t = 1 then some b else none
    | [] => none
  else if b.length = 20 then some (0 :: b)
  else none

/-- `codec.UnmarshalFromBytes(bs, &tx.transactionV3Data)` for inputs with exactly the 11 items
    (shorter lists, trailing items and trailing bytes are accepted by Go and not modelled: `none`
    here then means "not modelled", the drivers never feed such inputs) -/
def decodeTx (bs : Bytes) : Option TxData :=
  match rlpReadList bs with
  | none => none
  | some (payload, _) =>
    match rlpReadItems 11 payload with
    | some [some ver, some fr, some to, val, some step, some ts, nid, nonce, some sg, dt, data] =>
      match safeBytesToUint64 ver, addrOfBytes fr, addrOfBytes to, safeBytesToInt64 ts,
            (match nid with | none => some none | some b => (safeBytesToInt64 b).map some) with
      | some v, some f, some t, some tsv, some nidv =>
        if v ≥ 65536 then none
        else if sg.length ≠ 0 ∧ sg.length ≠ 64 ∧ sg.length ≠ 65 then none
        else some { version := v, from_ := f, to := t, value := val.map bigIntSetBytes,
                    stepLimit := bigIntSetBytes step, timestamp := tsv, nid := nidv,
                    nonce := nonce.map bigIntSetBytes, signature := sg, dataType := dt,
                    data := data }
      | _, _, _, _, _ => none
    | _ => none

/-! ## transactionV3: id, bytes, construction paths -/

structure TxV3 where
  d : TxData
  txHash : Option Bytes     -- cached id (Go: nil = not yet computed)
  bytes : Option Bytes
  raw : Bool
  deriving DecidableEq, Inhabited

/-- the environment: hash, `json.Unmarshal` to `interface{}`, `json.Unmarshal` to the struct,
    `json.Compact` -/
structure Env where
  H : Bytes → Bytes
  pj : Bytes → Option JV
  um : Bytes → Option TxData
  compact : Bytes → Option Bytes

/-- `calcHashOfTransactionJSON(bs, 3)` -/
def mapHash (e : Env) (js : Bytes) : Option Bytes := (mapPreimage (e.pj js)).map e.H

/-- `transactionV3.calcHash` -/
def calcHash (e : Env) (tx : TxV3) : Option Bytes :=
  if tx.raw then mapHash e (tx.bytes.getD []) else (structPreimage e.pj tx.d).map e.H

/-- `TxHash()` / `ID()`: cached value, else computed; an error yields the empty id -/
def txID (e : Env) (tx : TxV3) : Bytes :=
  match tx.txHash with
  | some h => h
  | none => (calcHash e tx).getD []

/-- `parseV3JSON(js, jsm, raw)` with `jsm = pj js` -/
def parseV3JSON (e : Env) (js : Bytes) (raw : Bool) : Option TxV3 :=
  match e.um js with
  | none => none
  | some d =>
    let tx0 : TxV3 := { d := d, txHash := none, bytes := none, raw := false }
    if raw then some { d := d, txHash := none, bytes := some js, raw := true }
    else
      match (mapPreimage (e.pj js)).map e.H with
      | none => none
      | some id =>
        if id = txID e tx0 then some { tx0 with txHash := some (txID e tx0) }
        else some { d := d, txHash := some id, bytes := some js, raw := true }

/-- `checkV3JSON` -/
def checkV3JSON (top : Option JV) : Bool :=
  match top with
  | some (.dict kvs) =>
    (match kvs.find? (fun kv => kv.1 == asc "version") with
     | some (_, .str s) => s == asc "0x3"
     | _ => false) &&
    (kvs.find? (fun kv => kv.1 == asc "from")).isSome
  | _ => false

/-- `newTransactionFromJSON` restricted to version-3 JSON (other factories: `none`) -/
def newTransactionFromJSON (e : Env) (js : Bytes) (raw : Bool) : Option TxV3 :=
  match (if raw then some js else e.compact js) with
  | none => none
  | some js' =>
    if checkV3JSON (e.pj js') then parseV3JSON e js' raw else none

/-- `SetBytes` / `parseV3Binary` -/
def parseV3Binary (bs : Bytes) : Option TxV3 :=
  match decodeTx bs with
  | none => none
  | some d => if d.version ≠ 3 then none
              else some { d := d, txHash := none, bytes := some bs, raw := false }

/-- `newTransaction` -/
def newTransaction (e : Env) (b : Bytes) : Option TxV3 :=
  match b with
  | [] => none
  | c :: _ => if c = cLBc then newTransactionFromJSON e b true else parseV3Binary b

/-- `Bytes()`; `none` = Go returns nil (marshal error) -/
def txBytes (tx : TxV3) : Option Bytes :=
  match tx.bytes with
  | some b => some b
  | none => encodeTx tx.d

/-- one pass through the stored form: `NewTransaction(tx.Bytes())` -/
def reparse (e : Env) (tx : TxV3) : Option TxV3 :=
  match txBytes tx with
  | some b => newTransaction e b
  | none => none

/-- n passes -/
def reparseN (e : Env) : Nat → TxV3 → Option TxV3
  | 0, tx => some tx
  | n + 1, tx => (reparse e tx).bind (reparseN e n)

end Goloop.C12
