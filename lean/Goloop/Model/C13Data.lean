/-
  Model/C13Data: the dataType-specific checks of transactionV3.Verify that run BEFORE
  verifySignature (transaction_v3.go: `switch *tx.DataType`), as one boolean `dataOk`.
  They can only reject.  The struct decoding of contract.ParseCallData / ParseDeployData /
  ParsePatchData is written over the JSON value tree of `tx.Data` (same standard-library glue as
  C12: encoding/json, hex, base64), compared with the real code by the correspondence run.
-/
import Goloop.Model.C12Glue
namespace Goloop.C13
open Goloop Goloop.C12 Goloop.C12.Glue

def jfield (kvs : List (Bytes × JV)) (k : String) : Option JV :=
  (kvs.find? (fun kv => kv.1 == asc k)).map (·.2)

/-- decoding into a Go `string` field: absent / null leave "", a string sets it, else error -/
def strField (kvs : List (Bytes × JV)) (k : String) : Option Bytes :=
  match jfield kvs k with
  | none => some []
  | some .null => some []
  | some (.str s) => some s
  | some _ => none

/-- `contract.ParseCallData`: object (or null) whose "method" is a non-empty string -/
def parseCallOk (v : JV) : Bool :=
  match v with
  | .dict kvs =>
    match strField kvs "method" with
    | some m => !m.isEmpty
    | none => false
  | _ => false

/-- `ContentBytes.UnmarshalJSON` on a present, non-null member: a string of hex digits with
    optional `0x` -/
def contentOk (v : JV) : Bool :=
  match v with
  | .str s =>
    let body := match s with
      | 0x30 :: 0x78 :: r => r
      | r => r
    (hexPairs body).isSome
  | _ => false

/-- `contract.ParseDeployData` -/
def parseDeployOk (v : JV) : Bool :=
  match v with
  | .null => true
  | .dict kvs =>
    (strField kvs "contentType").isSome &&
    (match jfield kvs "content" with
     | none => true
     | some .null => true
     | some c => contentOk c)
  | _ => false

/-- `contract.ParsePatchData`: {type: "skip_txs", data: base64 or null} -/
def parsePatchOk (v : JV) : Bool :=
  match v with
  | .dict kvs =>
    (match strField kvs "type" with
     | some t => t == asc "skip_txs"
     | none => false) &&
    (match jfield kvs "data" with
     | none => true
     | some .null => true
     | some (.str s) => (b64Decode s).isSome
     | some _ => false)
  | _ => false

/-- the `switch *tx.DataType` of `Verify`: `data` is tx.Data (nil = none), `dv` its JSON value -/
def dataOk (dataType : Option Bytes) (data : Option Bytes) (value : Option Int) : Bool :=
  match dataType with
  | none => true
  | some t =>
    let dv : Option JV := data.bind pj
    if t == asc "call" then
      match data, dv with
      | some _, some v => parseCallOk v
      | _, _ => false
    else if t == asc "deploy" then
      match data, dv with
      | some _, some v =>
        parseDeployOk v && (match value with | some x => x == 0 | none => true)
      | _, _ => false
    else if t == asc "patch" then
      match data, dv with
      | some _, some v => parsePatchOk v
      | _, _ => false
    else if t == asc "deposit" then
      data.isSome          -- the parse of the deposit data is commented out (IC2-315)
    else true

end Goloop.C13
