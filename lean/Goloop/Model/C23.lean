/-
  Model/C23: the typed layer of the RLP codec (`common/codec/rlp.go` reader/writer and the
  type-directed encoder/decoder of `common/codec/codec.go`), transcribed branch by branch.

  * `Ty`  — the Go types the codec supports (what `encodeValue`/`decodeValue` switch on).
  * `Val` — Go values; `Val.nil` is a nil slice / map / pointer / `[]byte`.
  * `enc : Val → Bytes` — `encoderImpl.encodeValue` + `rlpWriter` (maps: keys sorted).
  * `dec : Ty → Rd → Bytes → Res Val` — `decoderImpl.decodeValue` + `rlpReader`.

  The reader is *streaming*: a list reader is a `limitReader` over its parent.  All readers
  read from one shared buffer, so the state is the remaining buffer `inp`; a reader is
  described by static "floors" measured in remaining bytes:
    `lim`  : the reader reports io.EOF when `inp.length ≤ lim` (may be negative: declared
             size runs past the end of the buffer),
    `hard` : enclosing readers (and the buffer itself) are exhausted when
             `inp.length ≤ hard`; hitting that below one's own limit is ErrInvalidFormat,
    `maxSB`: rlpReader.maxSB (limit for long-form byte strings).
  Error classes that the Go code distinguishes by identity (`err == io.EOF`,
  `err == ErrNilValue`) are distinct results: `eof`, `nil`; every other error is `err`.
  A struct whose field decoding returns ErrNilValue closes its list reader and returns
  ErrNilValue itself (the caller - slice element, pointer, ... - then takes the whole struct
  as nil).  This is the code *after* fix F10 (fixes/F10_codec_stale_list_reader.diff); before
  it the list reader was left open, the caller continued in the middle of the list's content
  and a pooled top-level decoder kept the stale reader across calls.
-/
import Goloop.Base.Rlp
import Goloop.Model.C24
namespace Goloop.C23
open Goloop Goloop.Rlp

inductive Ty where
  | bool
  | uint (w : Nat)        -- uint8/16/32/64 (and uint = 64)
  | int (w : Nat)         -- int8/16/32/64 (and int = 64)
  | str
  | bytes                 -- []byte
  | barr (n : Nat)        -- [n]byte
  | big                   -- big.Int (reached through *big.Int, decoderImpl.tryCustom)
  | slice (e : Ty)
  | arr (n : Nat) (e : Ty)
  | ptr (e : Ty)
  | struct (fs : List Ty)
  | map (k v : Ty)
  deriving Repr, Inhabited

inductive Val where
  | nil
  | bool (b : Bool)
  | uint (n : Nat)
  | int (i : Int)
  | str (s : Bytes)
  | bytes (b : Bytes)
  | big (i : Int)
  | ptr (v : Val)                      -- non-nil pointer
  | list (xs : List Val)               -- non-nil slice, array, struct fields
  | map (kvs : List (Val × Val))       -- non-nil map
  deriving Repr, Inhabited

/-! ### map keys: `sort.Slice` by string / int / uint order -/

def bytesLt : Bytes → Bytes → Bool
  | [], [] => false
  | [], _ :: _ => true
  | _ :: _, [] => false
  | a :: as, b :: bs => if a.toNat < b.toNat then true else if b.toNat < a.toNat then false else bytesLt as bs

/-- strict key order used by encodeValue's sort (false across kinds / for non-key values) -/
def keyLt : Val → Val → Bool
  | .str a, .str b => bytesLt a b
  | .int a, .int b => decide (a < b)
  | .uint a, .uint b => decide (a < b)
  | _, _ => false

/-- insertion into a list sorted by key; an equal key is overwritten (`SetMapIndex`) -/
def insertKV {β : Type} (k : Val) (v : β) : List (Val × β) → List (Val × β)
  | [] => [(k, v)]
  | (k', v') :: rest =>
    if keyLt k k' then (k, v) :: (k', v') :: rest
    else if keyLt k' k then (k', v') :: insertKV k v rest
    else (k, v) :: rest

def sortKVs {β : Type} (kvs : List (Val × β)) : List (Val × β) :=
  kvs.foldl (fun acc kv => insertKV kv.1 kv.2 acc) []

/-! ### encoder -/

mutual
def enc : Val → Bytes
  | .nil => encodeNil
  | .bool b => encodeBytes [if b then 1 else 0]
  | .uint n => encodeBytes (C24.uint64ToBytes n)
  | .int i => encodeBytes (C24.int64ToBytes i)
  | .str s => encodeBytes s
  | .bytes b => encodeBytes b
  | .big i => encodeBytes (C24.bigIntToBytes i)
  | .ptr v => enc v
  | .list xs => encodeList (encs xs)
  | .map kvs => encodeList ((sortKVs (encKVs kvs)).flatMap (·.2))
def encs : List Val → Bytes
  | [] => []
  | x :: xs => enc x ++ encs xs
/-- each entry with the bytes of `key value` -/
def encKVs : List (Val × Val) → List (Val × Bytes)
  | [] => []
  | (k, v) :: rest => (k, enc k ++ enc v) :: encKVs rest
end

/-! ### reader -/

structure Rd where
  lim : Int
  hard : Nat
  maxSB : Nat
  deriving Repr

inductive Res (α : Type) where
  | ok (v : α) (inp : Bytes)
  | nil (inp : Bytes)      -- ErrNilValue, raised after consuming `f8 00`
  | eof                    -- io.EOF from the first header byte, nothing consumed
  | err
  deriving Repr

/-- bytes that one read can still deliver through the whole chain of limit readers -/
def Rd.avail (r : Rd) (inp : Bytes) : Nat := inp.length - max r.lim.toNat r.hard

/-- `io.ReadFull(r.reader, header[0:1])` -/
def readTag (r : Rd) (inp : Bytes) : Res UInt8 :=
  if (inp.length : Int) ≤ r.lim then .eof
  else
    match inp with
    | [] => .err
    | t :: rest => if r.avail inp = 0 then .err else .ok t rest

/-- `readAll` (io.EOF and io.ErrUnexpectedEOF both become a plain error) -/
def readAll (r : Rd) (k : Nat) (inp : Bytes) : Res Bytes :=
  if k ≤ r.avail inp then .ok (inp.take k) (inp.drop k) else .err

def readSize (r : Rd) (k : Nat) (inp : Bytes) : Res Nat :=
  match readAll r k inp with
  | .ok bs inp' =>
    match bytesToSize bs with
    | some n => .ok n inp'
    | none => .err
  | _ => .err

/-- `rlpReader.readBytes` -/
def readBytes (r : Rd) (inp : Bytes) : Res Bytes :=
  match readTag r inp with
  | .eof => .eof
  | .err => .err
  | .nil _ => .err
  | .ok t inp1 =>
    let tag := t.toNat
    if tag < 0x80 then .ok [t] inp1
    else if tag ≤ 0xB7 then readAll r (tag - 0x80) inp1
    else if tag < 0xC0 then
      match readSize r (tag - 0xB7) inp1 with
      | .ok n inp2 => if n > r.maxSB then .err else readAll r n inp2
      | _ => .err
    else if tag = 0xF8 then
      match readSize r 1 inp1 with
      | .ok n inp2 => if n = 0 then .nil inp2 else .err
      | _ => .err
    else .err

/-- the limit reader created by `readList` for a list of `size` bytes starting at `inp` -/
def child (r : Rd) (size : Nat) (inp : Bytes) : Rd :=
  { lim := (inp.length : Int) - size, hard := max r.lim.toNat r.hard, maxSB := min r.maxSB size }

/-- `rlpReader.readList` (= ReadMap) -/
def readList (r : Rd) (inp : Bytes) : Res Rd :=
  match readTag r inp with
  | .eof => .eof
  | .err => .err
  | .nil _ => .err
  | .ok t inp1 =>
    let tag := t.toNat
    if tag < 0xC0 then .err
    else if tag ≤ 0xF7 then .ok (child r (tag - 0xC0) inp1) inp1
    else
      match readSize r (tag - 0xF7) inp1 with
      | .ok n inp2 => if tag = 0xF8 ∧ n = 0 then .nil inp2 else .ok (child r n inp2) inp2
      | _ => .err

/-- `rlpReader.Close` of a list reader (`decoderImpl.flush`): drain up to the limit;
    fails when the enclosing readers end before the declared size. -/
def close (c : Rd) (inp : Bytes) : Option Bytes :=
  if (inp.length : Int) ≤ c.lim then some inp
  else if (c.hard : Int) ≤ c.lim then some (inp.drop (inp.length - c.lim.toNat))
  else none

/-! ### type-directed decoder -/

mutual
/-- `reflect.Zero` -/
def zero : Ty → Val
  | .bool => .bool false
  | .uint _ => .uint 0
  | .int _ => .int 0
  | .str => .str []
  | .bytes => .nil
  | .barr n => .bytes (List.replicate n 0)
  | .big => .big 0
  | .slice _ => .nil
  | .arr n e => .list (List.replicate n (zero e))
  | .ptr _ => .nil
  | .struct fs => .list (zeros fs)
  | .map _ _ => .nil
def zeros : List Ty → List Val
  | [] => []
  | f :: fs => zero f :: zeros fs
end

/-- slice loop: `decodeNullableValue` per element until io.EOF -/
def decElems (f : Bytes → Res Val) (z : Val) : Nat → Bytes → Option (List Val × Bytes)
  | 0, _ => none
  | fuel + 1, inp =>
    match f inp with
    | .ok v inp' => (decElems f z fuel inp').map (fun p => (v :: p.1, p.2))
    | .nil inp' => (decElems f z fuel inp').map (fun p => (z :: p.1, p.2))
    | .eof => some ([], inp)
    | .err => none

/-- array loop: at most `n` elements, stops at io.EOF; the rest keep their zero value -/
def decArr (f : Bytes → Res Val) (z : Val) : Nat → Bytes → Option (List Val × Bytes)
  | 0, inp => some ([], inp)
  | n + 1, inp =>
    match f inp with
    | .ok v inp' => (decArr f z n inp').map (fun p => (v :: p.1, p.2))
    | .nil inp' => (decArr f z n inp').map (fun p => (z :: p.1, p.2))
    | .eof => some (List.replicate (n + 1) z, inp)
    | .err => none

/-- map loop; entries in decoding order -/
def decEntries (fk fv : Bytes → Res Val) (zv : Val) : Nat → Bytes → Option (List (Val × Val) × Bytes)
  | 0, _ => none
  | fuel + 1, inp =>
    match fk inp with
    | .eof => some ([], inp)
    | .nil _ => none            -- InvalidFormat(NilKey)
    | .err => none
    | .ok k inp1 =>
      match fv inp1 with
      | .eof => none            -- InvalidFormat(NoValue)
      | .err => none
      | .ok v inp2 => (decEntries fk fv zv fuel inp2).map (fun p => ((k, v) :: p.1, p.2))
      | .nil inp2 => (decEntries fk fv zv fuel inp2).map (fun p => ((k, zv) :: p.1, p.2))

def inIntRange (w : Nat) (v : Int) : Bool := decide (-(2 : Int) ^ (w - 1) ≤ v) && decide (v < (2 : Int) ^ (w - 1))

/-- `[n]byte` target: `reflect.Copy` copies min(len) bytes into the zeroed array -/
def fitBytes (n : Nat) (bs : Bytes) : Bytes := (bs ++ List.replicate n 0).take n

mutual
/-- `decoderImpl.decodeValue` on a pointer to a zero value of type `ty` -/
def dec : Ty → Rd → Bytes → Res Val
  | .bool, r, inp =>
    match readBytes r inp with
    | .ok bs inp' =>
      match C24.safeBytesToUint64 bs with
      | none => .err
      | some v => if v = 0 then .ok (.bool false) inp' else if v = 1 then .ok (.bool true) inp' else .err
    | .nil i => .nil i
    | .eof => .eof
    | .err => .err
  | .uint w, r, inp =>
    match readBytes r inp with
    | .ok bs inp' =>
      match C24.safeBytesToUint64 bs with
      | none => .err
      | some v => if v < 2 ^ w then .ok (.uint v) inp' else .err
    | .nil i => .nil i
    | .eof => .eof
    | .err => .err
  | .int w, r, inp =>
    match readBytes r inp with
    | .ok bs inp' =>
      match C24.safeBytesToInt64 bs with
      | none => .err
      | some v => if inIntRange w v then .ok (.int v) inp' else .err
    | .nil i => .nil i
    | .eof => .eof
    | .err => .err
  | .str, r, inp =>
    match readBytes r inp with
    | .ok bs inp' => .ok (.str bs) inp'
    | .nil i => .nil i
    | .eof => .eof
    | .err => .err
  | .bytes, r, inp =>
    match readBytes r inp with
    | .ok bs inp' => .ok (.bytes bs) inp'
    | .nil i => .ok .nil i
    | .eof => .eof
    | .err => .err
  | .barr n, r, inp =>
    match readBytes r inp with
    | .ok bs inp' => .ok (.bytes (fitBytes n bs)) inp'
    | .nil i => .nil i
    | .eof => .eof
    | .err => .err
  | .big, r, inp =>
    match readBytes r inp with
    | .ok bs inp' => .ok (.big (C24.bigIntSetBytes bs)) inp'
    | .nil i => .nil i
    | .eof => .eof
    | .err => .err
  | .ptr e, r, inp =>
    match dec e r inp with
    | .ok v inp' => .ok (.ptr v) inp'
    | .nil i => .ok .nil i
    | .eof => .eof
    | .err => .err
  | .slice e, r, inp =>
    match readList r inp with
    | .nil i => .ok .nil i
    | .eof => .eof
    | .err => .err
    | .ok c inp1 =>
      match decElems (fun i => dec e c i) (zero e) (inp1.length + 1) inp1 with
      | none => .err
      | some (xs, inp2) =>
        match close c inp2 with
        | none => .err
        | some inp3 => .ok (.list xs) inp3
  | .arr n e, r, inp =>
    match readList r inp with
    | .nil i => .nil i
    | .eof => .eof
    | .err => .err
    | .ok c inp1 =>
      match decArr (fun i => dec e c i) (zero e) n inp1 with
      | none => .err
      | some (xs, inp2) =>
        match close c inp2 with
        | none => .err
        | some inp3 => .ok (.list xs) inp3
  | .struct fs, r, inp =>
    match readList r inp with
    | .nil i => .nil i
    | .eof => .eof
    | .err => .err
    | .ok c inp1 =>
      match decFields fs c inp1 with
      | .ok xs inp2 =>
        match close c inp2 with
        | none => .err
        | some inp3 => .ok (.list xs) inp3
      | .nil i =>                 -- ErrNilValue of a field: the list reader is closed, then
        match close c i with      -- ErrNilValue is returned for the whole struct (fix F10)
        | none => .err
        | some i' => .nil i'
      | .eof => .err
      | .err => .err
  | .map k v, r, inp =>
    match readList r inp with
    | .nil i => .ok .nil i
    | .eof => .eof
    | .err => .err
    | .ok c inp1 =>
      match decEntries (fun i => dec k c i) (fun i => dec v c i) (zero v) (inp1.length + 1) inp1 with
      | none => .err
      | some (kvs, inp2) =>
        match close c inp2 with
        | none => .err
        | some inp3 => .ok (.map (sortKVs kvs)) inp3
/-- `decodeRecursiveFields`: io.EOF zeroes the field and goes on -/
def decFields : List Ty → Rd → Bytes → Res (List Val)
  | [], _, inp => .ok [] inp
  | f :: fs, c, inp =>
    match dec f c inp with
    | .ok v inp' =>
      match decFields fs c inp' with
      | .ok vs inp'' => .ok (v :: vs) inp''
      | .nil i => .nil i
      | .eof => .err
      | .err => .err
    | .eof =>
      match decFields fs c inp with
      | .ok vs inp'' => .ok (zero f :: vs) inp''
      | .nil i => .nil i
      | .eof => .err
      | .err => .err
    | .nil i => .nil i
    | .err => .err
end

/-- `bytesWrapper.UnmarshalFromBytes`: top-level reader over the whole buffer with
    `maxSB = len(b)`; any error class is a failure; returns value and remaining bytes. -/
def unmarshal (ty : Ty) (b : Bytes) : Option (Val × Bytes) :=
  match dec ty { lim := 0, hard := 0, maxSB := b.length } b with
  | .ok v rest => some (v, rest)
  | _ => none

/-- `MarshalToBytes` -/
def marshal (v : Val) : Bytes := enc v

end Goloop.C23
