/-
  Model/C21: common/containerdb — key parts (`ToBytes`), composite keys
  (`AppendKeys` / `AppendRawKeys` / `SplitKeys` with containerdb's own RLP string
  coding), the four key builders (keybuilder.go) and VarDB / ArrayDB / DictDB
  (vardb.go, arraydb.go, dictdb.go) over a byte store, transcribed branch by branch.

  The hash (`crypto.SHA3Sum256`) is the parameter `H`.  The store is a finite map
  `Bytes → Bytes` (`BytesStoreState` over a Go map in the harness): `GetValue`
  of an absent key is `nil` (= `none`), stored values are non-nil.
  Go `int` is 64 bit; `Int` values are kept in range by the driver / by hypotheses.
-/
import Goloop.Base.Bytes
namespace Goloop.C21

def maxInt : Nat := 2 ^ 63 - 1

def byteOfInt (v : Int) : UInt8 := UInt8.ofNat (v.emod 256).toNat
def byteOfNat (v : Nat) : UInt8 := UInt8.ofNat (v % 256)

/-! ### intconv (the parts of it that `ToBytes` and `ArrayDB.Size` use) -/

/-- `Int64ToBytes` loop: `(v & -0x80) == target` keeps bits 7..63; `>>` is arithmetic. -/
def int64Loop (target : Int) : Nat → Int → Bytes → Bytes
  | 0, _, acc => acc
  | fuel + 1, v, acc =>
    let acc' := byteOfInt v :: acc
    if v - v.emod 128 = target then acc' else int64Loop target fuel (v / 256) acc'

def int64ToBytes (v : Int) : Bytes :=
  if v = 0 then [0] else int64Loop (if v < 0 then -128 else 0) 8 v []

/-- `SafeBytesToInt64` -/
def safeBytesToInt64 (bs : Bytes) : Option Int :=
  match bs with
  | [] => some 0
  | b :: _ =>
    if bs.length > 8 then none
    else if b.toNat ≥ 128 then
      some (-(beNat (bs.map (fun x => x ^^^ 0xff)) : Int) - 1)
    else some (beNat bs)

def natBytesAux : Nat → Nat → Bytes → Bytes
  | 0, _, acc => acc
  | fuel + 1, v, acc => if v = 0 then acc else natBytesAux fuel (v / 256) (byteOfNat v :: acc)

/-- `big.Int.Bytes` of a natural -/
def natBytes (v : Nat) : Bytes := natBytesAux (v + 1) v []

def bitLen (v : Nat) : Nat := if v = 0 then 0 else Nat.log2 v + 1

/-- `BigIntToBytes` -/
def bigIntToBytes (i : Int) : Bytes :=
  if i = 0 then [0]
  else if i > 0 then
    let n := i.toNat
    if bitLen n % 8 = 0 then 0 :: natBytes n else natBytes n
  else
    let ti := i + 1
    let bl := bitLen ti.natAbs
    let nb : Int := (2 : Int) ^ ((bl + 8) / 8 * 8) + i
    natBytes nb.toNat

/-! ### key parts -/

/-- the dynamic types `ToBytes` accepts -/
inductive Part where
  | bool (b : Bool)
  /-- `int`, `int16`, `int32`, `int64` (value in the int64 range) -/
  | int (v : Int)
  /-- `*big.Int`, `*common.HexInt` -/
  | big (v : Int)
  /-- `string` (its bytes) or `[]byte` -/
  | str (s : Bytes)
  | byte (b : UInt8)
  /-- `module.Address`: 21 bytes, type prefix 0 (EOA) / 1 (contract) then the 20 byte id -/
  | addr (contract : Bool) (id : Bytes)
  /-- `containerdb.Value`: its `Bytes()` -/
  | value (bs : Bytes)
  deriving Repr, DecidableEq

/-- `ToBytes` -/
def toBytes : Part → Bytes
  | .bool b => if b then [1] else [0]
  | .int v => int64ToBytes v
  | .big v => bigIntToBytes v
  | .str s => s
  | .byte b => [b]
  | .addr c id => (if c then 1 else 0) :: id
  | .value bs => bs

/-! ### AppendKeys / SplitKeys -/

/-- `rlpCountBytesForSize`: `cnt := 1; for b >>= 8; b > 0; cnt++ { b >>= 8 }` -/
def countLoop : Nat → Nat → Nat → Nat
  | 0, _, cnt => cnt
  | fuel + 1, b, cnt => if b > 0 then countLoop fuel (b / 256) (cnt + 1) else cnt

def countBytesForSize (b : Nat) : Nat := countLoop 8 (b / 256) 1

/-- `for tsidx := tslen; tsidx > 0; tsidx-- { buf[tsidx] = byte(blen); blen >>= 8 }` -/
def beFixed : Nat → Nat → Bytes
  | 0, _ => []
  | n + 1, v => beFixed n (v / 256) ++ [byteOfNat v]

/-- `rlpEncodeBytes` -/
def rlpEncodeBytes (b : Bytes) : Bytes :=
  match b with
  | [x] => if x.toNat < 0x80 then [x] else UInt8.ofNat (0x80 + 1) :: b
  | _ =>
    if b.length ≤ 55 then UInt8.ofNat (0x80 + b.length) :: b
    else
      let tslen := countBytesForSize b.length
      UInt8.ofNat (0x80 + 55 + tslen) :: (beFixed tslen b.length ++ b)

def encodeParts : List Bytes → Bytes
  | [] => []
  | p :: ps => rlpEncodeBytes p ++ encodeParts ps

/-- `AppendKeys` on already converted parts -/
def appendKeysB (key : Bytes) (parts : List Bytes) : Bytes := key ++ encodeParts parts

/-- `AppendKeys` -/
def appendKeys (key : Bytes) (parts : List Part) : Bytes := appendKeysB key (parts.map toBytes)

def concatParts : List Bytes → Bytes
  | [] => []
  | p :: ps => p ++ concatParts ps

/-- `AppendRawKeys` -/
def appendRawKeysB (key : Bytes) (parts : List Bytes) : Bytes := key ++ concatParts parts
def appendRawKeys (key : Bytes) (parts : List Part) : Bytes := appendRawKeysB key (parts.map toBytes)

/-- `rlpReadSize` -/
def rlpReadSize (b : Bytes) (slen : Nat) : Option Nat :=
  if slen > b.length then none
  else
    let s := beNat (b.take slen)
    if s < 56 ∨ b.head? = some 0 ∨ s > maxInt then none else some s

/-- `rlpParseBytes`: (part, remain) or an error -/
def rlpParseBytes (bs : Bytes) : Option (Bytes × Bytes) :=
  match bs with
  | [] => none
  | tag :: data =>
    if tag.toNat < 0x80 then some ([tag], data)
    else if tag.toNat < 0xB8 then
      let size := tag.toNat - 0x80
      if data.length < size then none else some (data.take size, data.drop size)
    else if tag.toNat < 0xC0 then
      let ts := tag.toNat - 0xb7
      match rlpReadSize data ts with
      | none => none
      | some size =>
        let data := data.drop ts
        if data.length < size then none else some (data.take size, data.drop size)
    else none

/-- `SplitKeys` (the loop runs at most `len(key)` times) -/
def splitKeysF : Nat → Bytes → Option (List Bytes)
  | _, [] => some []
  | 0, _ :: _ => none
  | fuel + 1, key@(_ :: _) =>
    match rlpParseBytes key with
    | none => none
    | some (part, remain) =>
      match splitKeysF fuel remain with
      | none => none
      | some ps => some (part :: ps)

def splitKeys (key : Bytes) : Option (List Bytes) := splitKeysF key.length key

/-! ### key builders -/

inductive KB where
  | hash (pre : Bytes)
  | phash (rawPrefix hashPrefix : Bytes)
  | rlp (b : Bytes)
  | raw (b : Bytes)
  deriving Repr, DecidableEq

/-- `KeyBuilder.Append` (parts already through `ToBytes`) -/
def KB.append : KB → List Bytes → KB
  | .hash pre, ps => .hash (appendKeysB pre ps)
  | .phash rp hp, ps => .phash rp (appendKeysB hp ps)
  | .rlp b, ps => .rlp (appendKeysB b ps)
  | .raw b, ps => .raw (appendRawKeysB b ps)

/-- `KeyBuilder.Build` -/
def KB.build (H : Bytes → Bytes) : KB → Bytes
  | .hash pre => H pre
  | .phash rp hp => appendKeysB rp [H hp]
  | .rlp b => b
  | .raw b => b

inductive KBType where
  | hash | phash | rlp | raw
  deriving Repr, DecidableEq

/-- `ToKey`; `none` = the index panic of `keys[0]` for `PrefixedHashBuilder` without keys -/
def toKey : KBType → List Bytes → Option KB
  | .hash, ps => some (.hash (appendKeysB [] ps))
  | .phash, [] => none
  | .phash, p :: ps => some (.phash p (appendKeysB [] ps))
  | .rlp, ps => some (.rlp (appendKeysB [] ps))
  | .raw, ps => some (.raw (appendRawKeysB [] ps))

/-- `NewHashKey(prefix, keys...)` -/
def newHashKey (pre : Bytes) (ps : List Bytes) : KB := .hash (appendKeysB pre ps)

/-! ### the store -/

abbrev Store := List (Bytes × Bytes)

def sget : Store → Bytes → Option Bytes
  | [], _ => none
  | (k', v) :: r, k => if k' = k then some v else sget r k

def sdel (s : Store) (k : Bytes) : Store := s.filter (fun e => decide (e.1 ≠ k))
def sset (s : Store) (k : Bytes) (v : Bytes) : Store := (k, v) :: sdel s k

/-! ### VarDB -/

def varGet (H : Bytes → Bytes) (s : Store) (kb : KB) : Option Bytes := sget s (kb.build H)
def varSet (H : Bytes → Bytes) (s : Store) (kb : KB) (v : Bytes) : Store := sset s (kb.build H) v
/-- `Delete`: new store and the old value -/
def varDel (H : Bytes → Bytes) (s : Store) (kb : KB) : Store × Option Bytes :=
  (sdel s (kb.build H), sget s (kb.build H))

/-! ### ArrayDB -/

def sizeKey (H : Bytes → Bytes) (kb : KB) : Bytes := kb.build H
def elemKey (H : Bytes → Bytes) (kb : KB) (i : Int) : Bytes := (kb.append [int64ToBytes i]).build H

/-- `ArrayDB.Size`; `none` = the `Int64Overflow` panic on a size slot longer than 8 bytes -/
def arrSize (H : Bytes → Bytes) (s : Store) (kb : KB) : Option Int :=
  safeBytesToInt64 ((sget s (sizeKey H kb)).getD [])

/-- `ArrayDB.Get` (no bounds check in the Go code) -/
def arrGet (H : Bytes → Bytes) (s : Store) (kb : KB) (i : Int) : Option Bytes := sget s (elemKey H kb i)

/-- `ArrayDB.Set`: `none` = panic, Boolean = no error -/
def arrSet (H : Bytes → Bytes) (s : Store) (kb : KB) (i : Int) (v : Bytes) : Option (Store × Bool) :=
  match arrSize H s kb with
  | none => none
  | some sz =>
    if i < 0 ∨ i ≥ sz then some (s, false)
    else some (sset s (elemKey H kb i) v, true)

/-- `ArrayDB.Put` -/
def arrPut (H : Bytes → Bytes) (s : Store) (kb : KB) (v : Bytes) : Option Store :=
  match arrSize H s kb with
  | none => none
  | some idx =>
    let s1 := sset s (elemKey H kb idx) v
    some (sset s1 (sizeKey H kb) (int64ToBytes (idx + 1)))

/-- `ArrayDB.Pop`: `none` = panic; result `none` = nil Value, `some ov` = Value with bytes `ov` -/
def arrPop (H : Bytes → Bytes) (s : Store) (kb : KB) : Option (Store × Option (Option Bytes)) :=
  match arrSize H s kb with
  | none => none
  | some idx =>
    if idx = 0 then some (s, none)
    else
      let key := elemKey H kb (idx - 1)
      let ov := sget s key
      let s1 := sdel s key
      if idx > 1 then some (sset s1 (sizeKey H kb) (int64ToBytes (idx - 1)), some ov)
      else some (sdel s1 (sizeKey H kb), some ov)

/-! ### DictDB -/

structure Dict where
  kb : KB
  depth : Int
  deriving Repr

/-- `DictDB.GetDB` -/
def dictGetDB (d : Dict) (keys : List Bytes) : Option Dict :=
  if (keys.length : Int) ≥ d.depth then none
  else some { kb := d.kb.append keys, depth := d.depth - keys.length }

/-- `DictDB.Get`: nil Value (`none`) on a wrong number of keys or an absent entry -/
def dictGet (H : Bytes → Bytes) (s : Store) (d : Dict) (keys : List Bytes) : Option Bytes :=
  if (keys.length : Int) ≠ d.depth then none else sget s ((d.kb.append keys).build H)

/-- `DictDB.Set(keys..., value)`: Boolean = no error -/
def dictSet (H : Bytes → Bytes) (s : Store) (d : Dict) (keys : List Bytes) (v : Bytes) : Store × Bool :=
  if (keys.length : Int) + 1 ≠ d.depth + 1 then (s, false)
  else (sset s ((d.kb.append keys).build H) v, true)

/-- `DictDB.Delete` -/
def dictDel (H : Bytes → Bytes) (s : Store) (d : Dict) (keys : List Bytes) : Store × Bool :=
  if (keys.length : Int) ≠ d.depth then (s, false)
  else (sdel s ((d.kb.append keys).build H), true)

/-! ### specifications used by the theorems -/

/-- the storage keys of one array do not collide with each other (indices a Go int can hold) -/
def ArrKeysOk (H : Bytes → Bytes) (kb : KB) : Prop :=
  (∀ i j : Nat, i < 2 ^ 63 → j < 2 ^ 63 → elemKey H kb (i : Int) = elemKey H kb (j : Int) → i = j) ∧
  (∀ i : Nat, i < 2 ^ 63 → elemKey H kb (i : Int) ≠ sizeKey H kb)

/-- the store holds the array `l` under builder `kb` -/
def ArrRep (H : Bytes → Bytes) (kb : KB) (s : Store) (l : List Bytes) : Prop :=
  arrSize H s kb = some (l.length : Int) ∧ ∀ i : Nat, i < l.length → arrGet H s kb (i : Int) = l[i]?

/-- keys that do not belong to the array -/
def ArrForeign (H : Bytes → Bytes) (kb : KB) (k : Bytes) : Prop :=
  k ≠ sizeKey H kb ∧ ∀ i : Nat, i < 2 ^ 63 → k ≠ elemKey H kb (i : Int)

inductive ArrOp where
  | put (v : Bytes)
  | pop
  | set (i : Int) (v : Bytes)

inductive ArrOut where
  | ok
  | err
  | popped (v : Option (Option Bytes))
  | panic
  deriving DecidableEq, Repr

def arrStep (H : Bytes → Bytes) (kb : KB) (s : Store) : ArrOp → Store × ArrOut
  | .put v => match arrPut H s kb v with
    | some s' => (s', .ok)
    | none => (s, .panic)
  | .pop => match arrPop H s kb with
    | some (s', r) => (s', .popped r)
    | none => (s, .panic)
  | .set i v => match arrSet H s kb i v with
    | some (s', b) => (s', if b then .ok else .err)
    | none => (s, .panic)

/-- the same operations on a plain list -/
def listStep (l : List Bytes) : ArrOp → List Bytes × ArrOut
  | .put v => (l ++ [v], .ok)
  | .pop => match l.getLast? with
    | none => (l, .popped none)
    | some x => (l.dropLast, .popped (some (some x)))
  | .set i v => if i < 0 ∨ i ≥ (l.length : Int) then (l, .err) else (l.set i.toNat v, .ok)

def arrRun (H : Bytes → Bytes) (kb : KB) : Store → List ArrOp → Store × List ArrOut
  | s, [] => (s, [])
  | s, o :: r => let x := arrStep H kb s o; let y := arrRun H kb x.1 r; (y.1, x.2 :: y.2)

def listRun : List Bytes → List ArrOp → List Bytes × List ArrOut
  | l, [] => (l, [])
  | l, o :: r => let x := listStep l o; let y := listRun x.1 r; (y.1, x.2 :: y.2)

/-- storage key of a dictionary entry -/
def entryKey (H : Bytes → Bytes) (d : Dict) (keys : List Bytes) : Bytes := (d.kb.append keys).build H

/-- entry keys of one dictionary do not collide -/
def DictKeysOk (H : Bytes → Bytes) (d : Dict) (P : List Bytes → Prop) : Prop :=
  ∀ ks ks', P ks → P ks' → entryKey H d ks = entryKey H d ks' → ks = ks'

/-- container paths in the layout of service/scoredb: `ToKey(HashBuilder, tag[, name]).Append(keys...)`
    with tag 0 = ArrayDB, 1 = DictDB, 2 = VarDB; parts are already through `ToBytes` -/
inductive Path where
  | var (keys : List Bytes)
  | arrSize (keys : List Bytes)
  | arrElem (keys : List Bytes) (i : Nat)
  | dictEntry (name : Bytes) (keys : List Bytes)

def Path.parts : Path → List Bytes
  | .var ks => [2] :: ks
  | .arrSize ks => [0] :: ks
  | .arrElem ks i => [0] :: (ks ++ [int64ToBytes (i : Int)])
  | .dictEntry n ks => [1] :: n :: ks

/-- the byte string that is hashed (`pre` = the prefix of `NewHashKey`, empty for `ToKey`) -/
def Path.preKey (pre : Bytes) (p : Path) : Bytes := appendKeysB pre p.parts

/-- the storage key -/
def Path.key (H : Bytes → Bytes) (pre : Bytes) (p : Path) : Bytes := H (p.preKey pre)

inductive DictOp where
  | set (keys : List Bytes) (v : Bytes)
  | del (keys : List Bytes)

def dictStep (H : Bytes → Bytes) (d : Dict) (s : Store) : DictOp → Store
  | .set ks v => (dictSet H s d ks v).1
  | .del ks => (dictDel H s d ks).1

def mapStep (m : List Bytes → Option Bytes) : DictOp → (List Bytes → Option Bytes)
  | .set ks v => fun ks' => if ks = ks' then some v else m ks'
  | .del ks => fun ks' => if ks = ks' then none else m ks'

/-- `H` has no collision among the byte strings satisfying `P` -/
def HInjOn (H : Bytes → Bytes) (P : Bytes → Prop) : Prop :=
  ∀ x y, P x → P y → H x = H y → x = y

end Goloop.C21
