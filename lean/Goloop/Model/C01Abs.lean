/-
  Model/C01Abs — L-abs: the abstract message soup for one height of the
  goloop (old-Tendermint style) consensus.  Core Lean only.

  A *history* is the list of all votes ever cast at this height, in the order
  they were cast (signed).  The soup at time `t` is `H.take t`.  Delivery is
  not modelled at all: what a validator has *seen* is always a subset of the
  soup, so loss / delay / duplication / reordering are all covered by
  quantifying over arbitrary histories.  Byzantine validators may put anything
  into the history (any number of conflicting votes).
-/
namespace Goloop.C01

inductive VType where
  | prevote | precommit
deriving DecidableEq, Repr, Inhabited

/-- A signed vote.  `val = none` is the nil vote, `some b` a vote for block `b`
    (`b` stands for the round-decision digest = (block id, part-set id)). -/
structure Vote where
  signer : Nat
  typ    : VType
  round  : Nat
  val    : Option Nat
deriving DecidableEq, Repr, Inhabited

/-- number of validators `i < n` that have a vote `(t, r, v)` in `S` -/
def voters (n : Nat) (S : List Vote) (t : VType) (r : Nat) (v : Option Nat) : Nat :=
  (List.range n).countP (fun i => decide ((⟨i, t, r, v⟩ : Vote) ∈ S))

/-- the Go threshold, literally: `count > len(validators)*2/3` (voteset.go) -/
def over23 (n k : Nat) : Prop := k > n * 2 / 3

instance (n k : Nat) : Decidable (over23 n k) := by unfold over23; infer_instance

/-- +2/3 prevotes for `v` (nil or a block) in round `r` -/
def polka (n : Nat) (S : List Vote) (r : Nat) (v : Option Nat) : Prop :=
  over23 n (voters n S .prevote r v)

/-- +2/3 precommits for block `b` in round `r`: the only thing that lets a
    validator finalize `b` (enterCommit). -/
def commitQ (n : Nat) (S : List Vote) (r : Nat) (b : Nat) : Prop :=
  over23 n (voters n S .precommit r (some b))

instance (n S r v) : Decidable (polka n S r v) := by unfold polka; infer_instance
instance (n S r b) : Decidable (commitQ n S r b) := by unfold commitQ; infer_instance

/-- fewer than one third of the `n` validators are Byzantine -/
def fewByz (n : Nat) (byz : Nat → Bool) : Prop :=
  3 * (List.range n).countP byz < n

instance (n : Nat) (byz : Nat → Bool) : Decidable (fewByz n byz) := by unfold fewByz; infer_instance

/-- The guarantees a *correct* validator gives (proved for the transcribed
    single-validator model in Proofs/C01Val). -/
structure Guarantees (n : Nat) (byz : Nat → Bool) (H : List Vote) : Prop where
  /-- G0: a correct validator casts its votes in non-decreasing round order -/
  g0 : ∀ (s t : Nat) (v w : Vote), s < t → H[s]? = some v → H[t]? = some w →
        v.signer = w.signer → byz v.signer = false → v.round ≤ w.round
  /-- G1: never two different votes of one type in one round -/
  g1 : ∀ (v w : Vote), v ∈ H → w ∈ H → v.signer = w.signer → byz v.signer = false →
        v.typ = w.typ → v.round = w.round → v.val = w.val
  /-- G2: a non-nil precommit (r,b) only after a polka (r,b) is in the soup -/
  g2 : ∀ (t : Nat) (v : Vote) (b : Nat), H[t]? = some v → byz v.signer = false → v.typ = .precommit → v.val = some b →
        polka n (H.take t) v.round (some b)
  /-- G3: after precommit (r,b), a prevote for anything else (nil included) in a
      later round r' only after a polka for something else (nil included) in a
      round r'' with r < r'' ≤ r' is in the soup -/
  g3 : ∀ (s t : Nat) (v w : Vote) (b : Nat), s < t → H[s]? = some v → H[t]? = some w →
        v.signer = w.signer → byz v.signer = false →
        v.typ = .precommit → v.val = some b →
        w.typ = .prevote → v.round < w.round → w.val ≠ some b →
        ∃ r'' y, v.round < r'' ∧ r'' ≤ w.round ∧ y ≠ some b ∧ polka n (H.take t) r'' y

end Goloop.C01
