/-
  Model/C24: integer <-> byte encodings of common/intconv (bytes.go, string.go)
  transcribed function by function. Go `int64`/`uint64` values are modelled as
  `Int`/`Nat` restricted to their range by the theorems' hypotheses; the 8/9
  iteration Go loops are modelled with an explicit fuel so that the bound is
  part of the model.  `>>` on int64 is arithmetic shift = floor division.
-/
import Goloop.Base.Bytes
namespace Goloop.C24

def byteOfInt (v : Int) : UInt8 := UInt8.ofNat (v.emod 256).toNat
def byteOfNat (v : Nat) : UInt8 := UInt8.ofNat (v % 256)

/-- `Int64ToBytes` loop: `fuel` iterations left, `acc` = bytes already produced (bs[idx+1:]). -/
def int64Loop (target : Int) : Nat → Int → Bytes → Bytes
  | 0, _, acc => acc
  | fuel + 1, v, acc =>
    let acc' := byteOfInt v :: acc
    -- (v & mask) == target with mask = -0x80: keeps bits 7..63
    if v - v.emod 128 = target then acc' else int64Loop target fuel (v / 256) acc'

def int64ToBytes (v : Int) : Bytes :=
  if v = 0 then [0] else int64Loop (if v < 0 then -128 else 0) 8 v []

/-- `Uint64ToBytes`: 9 slots, stops when rest is zero and the top bit of the last byte is clear. -/
def uint64Loop : Nat → Nat → Bytes → Bytes
  | 0, _, acc => acc
  | fuel + 1, v, acc =>
    let tv := v % 256
    let acc' := byteOfNat v :: acc
    let v' := v / 256
    if v' = 0 ∧ tv < 128 then acc' else uint64Loop fuel v' acc'

def uint64ToBytes (v : Nat) : Bytes :=
  if v = 0 then [0] else uint64Loop 9 v []

/-- `SizeToBytes` -/
def sizeLoop : Nat → Nat → Bytes → Bytes
  | 0, _, acc => acc
  | fuel + 1, v, acc =>
    let acc' := byteOfNat v :: acc
    let v' := v / 256
    if v' = 0 then acc' else sizeLoop fuel v' acc'

def sizeToBytes (v : Nat) : Bytes :=
  if v = 0 then [0] else sizeLoop 8 v []

/-- `SafeBytesToUint64` -/
def safeBytesToUint64 (bs : Bytes) : Option Nat :=
  match bs with
  | [] => some 0
  | b :: rest =>
    if b = 0 then
      if rest.length > 8 then none else some (beNat rest)
    else if b.toNat ≥ 128 then none
    else if bs.length > 8 then none else some (beNat bs)

/-- `SafeBytesToSize64` -/
def safeBytesToSize64 (bs : Bytes) : Option Nat :=
  if bs.length > 8 then none else some (beNat bs)

/-- signed value of a big-endian two's complement string (any length). -/
def beInt (bs : Bytes) : Int :=
  match bs with
  | [] => 0
  | b :: _ => if b.toNat ≥ 128 then (beNat bs : Int) - (256 : Int) ^ bs.length else (beNat bs : Int)

/-- `SafeBytesToInt64`: the Go code complements every byte and returns `-v-1` for negatives. -/
def safeBytesToInt64 (bs : Bytes) : Option Int :=
  match bs with
  | [] => some 0
  | b :: _ =>
    if bs.length > 8 then none
    else if b.toNat ≥ 128 then
      some (-(beNat (bs.map (fun x => x ^^^ 0xff)) : Int) - 1)
    else some (beNat bs)

/-- minimal unsigned big-endian bytes (`big.Int.Bytes`): empty for 0. -/
def natBytesAux : Nat → Nat → Bytes → Bytes
  | 0, _, acc => acc
  | fuel + 1, v, acc => if v = 0 then acc else natBytesAux fuel (v / 256) (byteOfNat v :: acc)

def natBytes (v : Nat) : Bytes := natBytesAux (v + 1) v []

/-- `big.Int.BitLen` of a natural. -/
def bitLen (v : Nat) : Nat := if v = 0 then 0 else Nat.log2 v + 1

/-- `BigIntToBytes` -/
def bigIntToBytes (i : Int) : Bytes :=
  if i = 0 then [0]
  else if i > 0 then
    let n := i.toNat
    if bitLen n % 8 = 0 then 0 :: natBytes n else natBytes n
  else
    let ti := i + 1
    let bl := bitLen ti.natAbs
    let nb : Int := (2 : Int) ^ ((bl + 8) / 8 * 8) + i
    natBytes nb.toNat

/-- `BigIntSetBytes` -/
def bigIntSetBytes (bs : Bytes) : Int :=
  let n := beNat bs
  match bs with
  | [] => 0
  | b :: _ => if b.toNat ≥ 128 then (n : Int) - (2 : Int) ^ bitLen n else n

/-- `encodeHexNumber` -/
def encodeHexNumber (neg : Bool) (b : Bytes) : String :=
  let s := (Hex.encode b).toList
  match s with
  | [] => "0x0"
  | c :: rest =>
    let s' := if c = '0' then rest else s
    String.ofList ((if neg then "-0x".toList else "0x".toList) ++ s')

def formatBigInt (i : Int) : String := encodeHexNumber (i < 0) (natBytes i.natAbs)

/-- `FormatInt` (int64): SizeToBytes of |v| -/
def formatInt (v : Int) : String := encodeHexNumber (v < 0) (sizeToBytes v.natAbs)
def formatUint (v : Nat) : String := encodeHexNumber false (sizeToBytes v)

def hexDigitsVal : List Char → Option Nat
  | cs => cs.foldl (fun acc c => match acc, Hex.val c with
      | some a, some d => some (a * 16 + d)
      | _, _ => none) (some 0)

def decDigitsVal (cs : List Char) : Option Nat :=
  cs.foldl (fun acc c => match acc with
      | some a => if '0' ≤ c ∧ c ≤ '9' then some (a * 10 + (c.toNat - 48)) else none
      | none => none) (some 0)

/-- the part of `ParseBigInt` the check exercises: optional '-', then `0x`+hex digits, or decimal digits. -/
def parseBigInt (s : String) : Option Int :=
  let cs := s.toList
  let (neg, body) := match cs with
    | '-' :: r => (true, r)
    | r => (false, r)
  let mag : Option Nat := match body with
    | '0' :: 'x' :: ds => if ds.isEmpty then none else hexDigitsVal ds
    | [] => none
    | ds => decDigitsVal ds
  match mag with
  | some m => some (if neg then -(m : Int) else m)
  | none => none

end Goloop.C24
