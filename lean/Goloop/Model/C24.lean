/-
  Model/C24: integer <-> byte encodings of common/intconv (bytes.go, string.go)
  transcribed function by function. Go `int64`/`uint64` values are modelled as
  `Int`/`Nat` restricted to their range by the theorems' hypotheses; the 8/9
  iteration Go loops are modelled with an explicit fuel so that the bound is
  part of the model.  `>>` on int64 is arithmetic shift = floor division.
-/
import Goloop.Base.Bytes
namespace Goloop.C24

def byteOfInt (v : Int) : UInt8 := UInt8.ofNat (v.emod 256).toNat
def byteOfNat (v : Nat) : UInt8 := UInt8.ofNat (v % 256)

/-- `Int64ToBytes` loop: `fuel` iterations left, `acc` = bytes already produced (bs[idx+1:]). -/
def int64Loop (target : Int) : Nat → Int → Bytes → Bytes
  | 0, _, acc => acc
  | fuel + 1, v, acc =>
    let acc' := byteOfInt v :: acc
    -- (v & mask) == target with mask = -0x80: keeps bits 7..63
    if v - v.emod 128 = target then acc' else int64Loop target fuel (v / 256) acc'

def int64ToBytes (v : Int) : Bytes :=
  if v = 0 then [0] else int64Loop (if v < 0 then -128 else 0) 8 v []

/-- `Uint64ToBytes`: 9 slots, stops when rest is zero and the top bit of the last byte is clear. -/
def uint64Loop : Nat → Nat → Bytes → Bytes
  | 0, _, acc => acc
  | fuel + 1, v, acc =>
    let tv := v % 256
    let acc' := byteOfNat v :: acc
    let v' := v / 256
    if v' = 0 ∧ tv < 128 then acc' else uint64Loop fuel v' acc'

def uint64ToBytes (v : Nat) : Bytes :=
  if v = 0 then [0] else uint64Loop 9 v []

/-- `SizeToBytes` -/
def sizeLoop : Nat → Nat → Bytes → Bytes
  | 0, _, acc => acc
  | fuel + 1, v, acc =>
    let acc' := byteOfNat v :: acc
    let v' := v / 256
    if v' = 0 then acc' else sizeLoop fuel v' acc'

def sizeToBytes (v : Nat) : Bytes :=
  if v = 0 then [0] else sizeLoop 8 v []

/-- `SafeBytesToUint64` -/
def safeBytesToUint64 (bs : Bytes) : Option Nat :=
  match bs with
  | [] => some 0
  | b :: rest =>
    if b = 0 then
      if rest.length > 8 then none else some (beNat rest)
    else if b.toNat ≥ 128 then none
    else if bs.length > 8 then none else some (beNat bs)

/-- `SafeBytesToSize64` -/
def safeBytesToSize64 (bs : Bytes) : Option Nat :=
  if bs.length > 8 then none else some (beNat bs)

/-- signed value of a big-endian two's complement string (any length). -/
def beInt (bs : Bytes) : Int :=
  match bs with
  | [] => 0
  | b :: _ => if b.toNat ≥ 128 then (beNat bs : Int) - (256 : Int) ^ bs.length else (beNat bs : Int)

/-- `SafeBytesToInt64`: the Go code complements every byte and returns `-v-1` for negatives. -/
def safeBytesToInt64 (bs : Bytes) : Option Int :=
  match bs with
  | [] => some 0
  | b :: _ =>
    if bs.length > 8 then none
    else if b.toNat ≥ 128 then
      some (-(beNat (bs.map (fun x => x ^^^ 0xff)) : Int) - 1)
    else some (beNat bs)

/-- minimal unsigned big-endian bytes (`big.Int.Bytes`): empty for 0. -/
def natBytesAux : Nat → Nat → Bytes → Bytes
  | 0, _, acc => acc
  | fuel + 1, v, acc => if v = 0 then acc else natBytesAux fuel (v / 256) (byteOfNat v :: acc)

def natBytes (v : Nat) : Bytes := natBytesAux (v + 1) v []

/-- `big.Int.BitLen` of a natural. -/
def bitLen (v : Nat) : Nat := if v = 0 then 0 else Nat.log2 v + 1

/-- `BigIntToBytes` -/
def bigIntToBytes (i : Int) : Bytes :=
  if i = 0 then [0]
  else if i > 0 then
    let n := i.toNat
    if bitLen n % 8 = 0 then 0 :: natBytes n else natBytes n
  else
    let ti := i + 1
    let bl := bitLen ti.natAbs
    let nb : Int := (2 : Int) ^ ((bl + 8) / 8 * 8) + i
    natBytes nb.toNat

/-- `BigIntSetBytes` -/
def bigIntSetBytes (bs : Bytes) : Int :=
  let n := beNat bs
  match bs with
  | [] => 0
  | b :: _ => if b.toNat ≥ 128 then (n : Int) - (2 : Int) ^ bitLen n else n

/-- `encodeHexNumber` -/
def encodeHexNumber (neg : Bool) (b : Bytes) : String :=
  let s := (Hex.encode b).toList
  match s with
  | [] => "0x0"
  | c :: rest =>
    let s' := if c = '0' then rest else s
    String.ofList ((if neg then "-0x".toList else "0x".toList) ++ s')

def formatBigInt (i : Int) : String := encodeHexNumber (i < 0) (natBytes i.natAbs)

/-- `FormatInt` (int64): SizeToBytes of |v| -/
def formatInt (v : Int) : String := encodeHexNumber (v < 0) (sizeToBytes v.natAbs)
def formatUint (v : Nat) : String := encodeHexNumber false (sizeToBytes v)

/-! ### text parsers

`ParseBigInt` hands the text to `big.Int.SetString`, `ParseInt`/`ParseUint` to `strconv`.
Both library scanners are transcribed (sign, base prefixes, `_` separators, digit loop) so that
the correspondence run can feed arbitrary ASCII text, not only well-formed numbers. -/

/-- digit value in `big.nat.scan` (bases ≤ 36); 63 = `MaxBase+1` = "not a digit". -/
def scanDigit (c : Char) : Nat :=
  if '0' ≤ c ∧ c ≤ '9' then c.toNat - 48
  else if 'a' ≤ c ∧ c ≤ 'z' then c.toNat - 97 + 10
  else if 'A' ≤ c ∧ c ≤ 'Z' then c.toNat - 65 + 10
  else 63

/-- digit loop of `big.nat.scan`; state = (value, digit count, prev, invalSep).
    `none` = a character that does not belong to the number was met: `SetString` then fails
    because input is left over. -/
def scanLoop (b : Nat) (sepOk : Bool) : List Char → Nat → Nat → Char → Bool → Option (Nat × Nat × Char × Bool)
  | [], v, cnt, prev, inv => some (v, cnt, prev, inv)
  | c :: r, v, cnt, prev, inv =>
    if c = '_' ∧ sepOk then scanLoop b sepOk r v cnt '_' (inv || prev != '0')
    else
      let d := scanDigit c
      if d ≥ b then none
      else scanLoop b sepOk r (v * b + d) (cnt + 1) '0' inv

def scanFinish : Option (Nat × Nat × Char × Bool) → Option Nat
  | some (v, cnt, prev, inv) => if inv ∨ prev = '_' then none else if cnt = 0 then none else some v
  | none => none

/-- `big.nat.scan` + "entire content must be consumed"; `base0` = called with base 0, else base 10. -/
def bigScanNat (base0 : Bool) (cs : List Char) : Option Nat :=
  if base0 then
    match cs with
    | '0' :: c :: r =>
      if c = 'b' ∨ c = 'B' then scanFinish (scanLoop 2 true r 0 0 '0' false)
      else if c = 'o' ∨ c = 'O' then scanFinish (scanLoop 8 true r 0 0 '0' false)
      else if c = 'x' ∨ c = 'X' then scanFinish (scanLoop 16 true r 0 0 '0' false)
      else scanFinish (scanLoop 8 true (c :: r) 0 0 '0' false)
    | _ => scanFinish (scanLoop 10 true cs 0 0 '.' false)
  else scanFinish (scanLoop 10 false cs 0 0 '.' false)

/-- `big.Int.SetString(s, base)` for base 0 / 10 -/
def bigSetString (base0 : Bool) (cs : List Char) : Option Int :=
  match cs with
  | [] => none
  | '-' :: r => (bigScanNat base0 r).map (fun m => -(m : Int))
  | '+' :: r => (bigScanNat base0 r).map (fun m => (m : Int))
  | r => (bigScanNat base0 r).map (fun m => (m : Int))

def isDecDigit (c : Char) : Bool := '0' ≤ c ∧ c ≤ '9'

/-- `regexp("_([0-9]+)").ReplaceAllString(s, "$1")`: drops every `_` that is directly followed by a digit. -/
def nextIsDigit : List Char → Bool
  | d :: _ => isDecDigit d
  | [] => false

def underDigitReplace : List Char → List Char
  | [] => []
  | c :: rest =>
    if c = '_' ∧ nextIsDigit rest then underDigitReplace rest
    else c :: underDigitReplace rest

/-- `ParseBigInt` -/
def parseBigInt (s : String) : Option Int :=
  let cs := s.toList
  let s2 := match cs with
    | '-' :: r => r
    | r => r
  match s2 with
  | '0' :: c :: _ =>
    if c = 'o' ∨ c = 'O' ∨ c = 'X' ∨ c = 'b' ∨ c = 'B' then none
    else if c = 'x' then bigSetString true cs
    else bigSetString false (underDigitReplace cs)
  | _ => bigSetString true cs

/-- digit value in `strconv.ParseUint` (`lower(c) = c | 0x20`) -/
def puDigit (c : Char) : Option Nat :=
  if '0' ≤ c ∧ c ≤ '9' then some (c.toNat - 48)
  else if c.toNat < 128 ∧ 97 ≤ (c.toNat ||| 32) ∧ (c.toNat ||| 32) ≤ 122 then some ((c.toNat ||| 32) - 97 + 10)
  else none

/-- digit loop of `strconv.ParseUint` with the uint64 wrap-around made explicit. -/
def puLoop (base : Nat) (base0 : Bool) (cutoff maxVal : Nat) : List Char → Nat → Bool → Option (Nat × Bool)
  | [], n, us => some (n, us)
  | c :: r, n, us =>
    if c = '_' ∧ base0 then puLoop base base0 cutoff maxVal r n true
    else match puDigit c with
      | none => none
      | some d =>
        if d ≥ base then none
        else if n ≥ cutoff then none
        else
          let n' := (n * base) % 2 ^ 64
          let n1 := (n' + d) % 2 ^ 64
          if n1 < n' ∨ n1 > maxVal then none else puLoop base base0 cutoff maxVal r n1 us

/-- `strconv.underscoreOK`; `saw` ∈ {'^','0','_','!'} -/
def underscoreLoop (hex : Bool) : List Char → Char → Bool
  | [], saw => saw != '_'
  | c :: r, saw =>
    if ('0' ≤ c ∧ c ≤ '9') ∨ (hex ∧ c.toNat < 128 ∧ 97 ≤ (c.toNat ||| 32) ∧ (c.toNat ||| 32) ≤ 102) then
      underscoreLoop hex r '0'
    else if c = '_' then
      if saw != '0' then false else underscoreLoop hex r '_'
    else if saw = '_' then false
    else underscoreLoop hex r '!'

def underscoreOK (cs : List Char) : Bool :=
  let s := match cs with
    | '-' :: r => r
    | '+' :: r => r
    | r => r
  match s with
  | '0' :: c :: r =>
    if c = 'b' ∨ c = 'B' ∨ c = 'o' ∨ c = 'O' then underscoreLoop false r '0'
    else if c = 'x' ∨ c = 'X' then underscoreLoop true r '0'
    else underscoreLoop false s '^'
  | _ => underscoreLoop false s '^'

/-- `strconv.ParseUint(s, 0, bits)` on the characters of `s` (1 ≤ bits ≤ 64). -/
def parseUintChars (cs : List Char) (bits : Nat) : Option Nat :=
  match cs with
  | [] => none
  | c0 :: _ =>
    let (base, body) : Nat × List Char :=
      if c0 = '0' then
        match cs with
        | _ :: c1 :: c2 :: r =>
          if c1 = 'b' ∨ c1 = 'B' then (2, c2 :: r)
          else if c1 = 'o' ∨ c1 = 'O' then (8, c2 :: r)
          else if c1 = 'x' ∨ c1 = 'X' then (16, c2 :: r)
          else (8, c1 :: c2 :: r)
        | _ :: r => (8, r)
        | [] => (8, [])
      else (10, cs)
    let cutoff := (2 ^ 64 - 1) / base + 1
    let maxVal := 2 ^ bits - 1
    match puLoop base true cutoff maxVal body 0 false with
    | none => none
    | some (n, us) => if us ∧ ¬ underscoreOK cs then none else some n

def parseUint (s : String) (bits : Nat) : Option Nat := parseUintChars s.toList bits

/-- `strconv.ParseInt(s, 0, bits)`: a range error of `ParseUint` is a range error here too. -/
def parseInt (s : String) (bits : Nat) : Option Int :=
  match s.toList with
  | [] => none
  | c :: r =>
    let (neg, body) := if c = '+' then (false, r) else if c = '-' then (true, r) else (false, c :: r)
    match parseUintChars body bits with
    | none => none
    | some un =>
      let cutoff := 2 ^ (bits - 1)
      if ¬ neg ∧ un ≥ cutoff then none
      else if neg ∧ un > cutoff then none
      else some (if neg then -(un : Int) else (un : Int))

end Goloop.C24
