/-
  Model/C01 — L-val: ONE correct validator of the goloop consensus engine,
  transcribed branch by branch from /repo/consensus/consensus.go
  (ReceiveProposalMessage, ReceiveBlockPartMessage, ReceiveVoteMessage,
  handlePrevoteMessage, handlePrecommitMessage, enterPropose, enterPrevote,
  enterPrevoteWait, enterPrecommit, enterPrecommitWait, enterCommit,
  commitAndEnterNewHeight, enterNewHeight, enterTransactionWait, enterNewRound,
  resetForNewHeight/Round/Step, beginStep/isValidTransition, doSendVote,
  doSendProposal, isProposer, isProposalAndPOLPrevotesComplete,
  proposalHasValidProposer, applyRoundWAL, applyLockWAL, applyCommitWAL, Start)
  and voteset.go (voteSet.add, hasOverTwoThirds, getOverTwoThirdsPartSetID,
  heightVoteSet.add/votesFor/removeLowerRoundExcept).  Core Lean only.

  Abstractions (stated in the registry as assumptions):
  * a block is a label `Blk = Nat`; block id, part-set id and round-decision
    digest determine each other; every block has ONE part; `b % 8` is the index
    of the validator recorded as the block's proposer; every candidate block
    imports successfully (ImportBlock error paths are not modelled);
  * the validator set does not change; no BTP network sections;
  * timers are explicit `timeout` events (fire only if the code armed a timer in
    the current step); asynchronous BlockManager callbacks (Propose, ImportBlock)
    are explicit `async` events;
  * every externally visible / durable effect (WAL write, WAL sync, signed
    message handed to the network, Finalize) is appended to the effect trace
    `eff`; WAL contents and the set of sent messages are *derived* from the trace,
    so a crash may cut the trace at ANY effect boundary.
-/
import Goloop.Model.C01Abs
namespace Goloop.C01

abbrev Blk := Nat
def proposerOf (b : Blk) : Nat := b % 8

/-! ### steps (step.go) -/
def stNewHeight : Nat := 0
def stTransactionWait : Nat := 1
def stNewRound : Nat := 2
def stPropose : Nat := 3
def stPrevote : Nat := 4
def stPrevoteWait : Nat := 5
def stPrecommit : Nat := 6
def stPrecommitWait : Nat := 7
def stCommit : Nat := 8

/-- isValidTransition -/
def validTransition (frm to : Nat) : Bool :=
  if to == stNewHeight then frm == stNewHeight || frm == stCommit
  else if to == stNewRound then true
  else frm < to

/-! ### messages and WAL records -/
structure VoteRec where
  signer : Nat
  height : Nat
  typ    : VType
  round  : Nat
  val    : Option Blk
deriving DecidableEq, Repr, Inhabited

inductive Msg where
  | proposal (signer height round : Nat) (b : Blk) (pol : Int)
  | vote (v : VoteRec)
deriving DecidableEq, Repr, Inhabited

inductive Rec where
  | msg (m : Msg)                       -- a signed proposal / vote
  | voteList (vs : List VoteRec)
  | blockPart (height : Nat) (b : Blk)
deriving DecidableEq, Repr, Inhabited

inductive Wal where
  | round | lock | commit
deriving DecidableEq, Repr, Inhabited

/-- externally visible / durable effects, in program order -/
inductive Eff where
  | write (w : Wal) (r : Rec)
  | sync (w : Wal)
  | send (m : Msg)                 -- signed message handed to the network
  | finalize (height : Nat) (b : Blk)
  | crash (k : Nat)                -- process dies; `k` unsynced records of every WAL survive
deriving DecidableEq, Repr, Inhabited

/-- (synced, buffered) contents of WAL `w` after the effects `es` -/
def walGo (w : Wal) (st : List Rec × List Rec) : List Eff → List Rec × List Rec
  | [] => st
  | .write w' r :: es => if w' = w then walGo w (st.1, st.2 ++ [r]) es else walGo w st es
  | .sync w' :: es => if w' = w then walGo w (st.1 ++ st.2, []) es else walGo w st es
  | .crash k :: es => walGo w (st.1 ++ st.2.take k, []) es
  | _ :: es => walGo w st es

def walState (w : Wal) (es : List Eff) : List Rec × List Rec := walGo w ([], []) es

/-- what a reader of WAL `w` sees after a (re)start: every record that survived -/
def walDurable (w : Wal) (es : List Eff) : List Rec := (walState w es).1

def sentOf : List Eff → List Msg
  | [] => []
  | .send m :: es => m :: sentOf es
  | _ :: es => sentOf es

def finalizedOf : List Eff → List (Nat × Blk)
  | [] => []
  | .finalize h b :: es => (h, b) :: finalizedOf es
  | _ :: es => finalizedOf es

/-! ### vote sets (voteset.go) -/
structure VoteSet where
  votes : List (Nat × Option Blk) := []     -- (validator index, value); one entry per index
deriving Repr, Inhabited, DecidableEq

def VoteSet.get (vs : VoteSet) (i : Nat) : Option (Option Blk) := vs.votes.lookup i
def VoteSet.count (vs : VoteSet) : Nat := vs.votes.length
def VoteSet.countFor (vs : VoteSet) (v : Option Blk) : Nat := vs.votes.countP (fun e => e.2 == v)

/-- hasOverTwoThirds -/
def VoteSet.hasOverTwoThirds (n : Nat) (vs : VoteSet) : Bool := vs.count > n * 2 / 3

/-- getOverTwoThirdsPartSetID: `none` = (nil,false); `some none` = (nil,true): +2/3 nil;
    `some (some b)` = +2/3 for block b -/
def VoteSet.decision (n : Nat) (vs : VoteSet) : Option (Option Blk) :=
  vs.votes.findSome? (fun e => if vs.countFor e.2 > n * 2 / 3 then some e.2 else none)

/-- voteSet.add: returns (added, new set) -/
def VoteSet.add (n : Nat) (vs : VoteSet) (i : Nat) (v : Option Blk) : Bool × VoteSet :=
  match vs.get i with
  | some old =>
    if old == v then (false, vs)                       -- EqualExceptSigs
    else if vs.decision n == some old then (false, vs)  -- old vote is part of a +2/3 decision
    else (true, ⟨(vs.votes.filter (fun e => e.1 != i)) ++ [(i, v)]⟩)
  | none => (true, ⟨vs.votes ++ [(i, v)]⟩)

abbrev HVS := List ((Nat × VType) × VoteSet)

def votesFor (h : HVS) (r : Nat) (t : VType) : VoteSet := (h.lookup (r, t)).getD {}

def hvsPut (h : HVS) (r : Nat) (t : VType) (vs : VoteSet) : HVS :=
  ((r, t), vs) :: h.filter (fun e => e.1 != (r, t))

/-- removeLowerRoundExcept(lower, except) -/
def removeLowerRoundExcept (h : HVS) (lower : Int) (except : Int) : HVS :=
  h.filter (fun e => !(decide ((e.1.1 : Int) < lower) && decide ((e.1.1 : Int) ≠ except)))

/-! ### currentBlockParts / lockedBlockParts (blockpartset.go), one part per block -/
inductive Cur where
  | zero
  | idOnly (b : Blk)                    -- part set created from an id, no part yet
  | full (b : Blk) (validated : Bool)   -- complete, block data present
deriving DecidableEq, Repr, Inhabited

def Cur.isZero : Cur → Bool | .zero => true | _ => false
def Cur.id : Cur → Option Blk | .zero => none | .idOnly b => some b | .full b _ => some b
def Cur.isComplete : Cur → Bool | .full _ _ => true | _ => false
def Cur.hasBlockData : Cur → Bool | .full _ _ => true | _ => false
def Cur.hasValidated : Cur → Bool | .full _ v => v | _ => false
/-- SetByPartSetID -/
def Cur.setByID (c : Cur) (b : Blk) : Cur := if c.id == some b then c else .idOnly b

inductive Pend where
  | none
  | propose (h r : Nat)          -- BlockManager.Propose callback outstanding (captured hrs, step = propose)
  | import_ (h r : Nat) (b : Blk) -- enterPrevote's ImportBlock callback outstanding
  | commit (h r : Nat)           -- commitAndEnterNewHeight's ImportBlock callback (step = commit)
deriving DecidableEq, Repr, Inhabited

structure S where
  n : Nat := 4
  me : Nat := 0
  started : Bool := false
  height : Nat := 1
  round : Nat := 0
  step : Nat := 0
  lockedRound : Int := -1
  locked : Option (Blk × Bool) := none
  cur : Cur := .zero
  polRound : Int := -1
  commitRound : Int := -1
  hvs : HVS := []
  bpm : List Blk := []
  pend : Pend := .none
  timer : Bool := false
  /-- durable: height of the last finalized block (block DB) -/
  dbHeight : Nat := 0
  /-- every externally visible / durable effect so far -/
  eff : List Eff := []
  /-- fuel exhausted, or a Go panic (bad step transition / unreachable branch) -/
  stuck : Bool := false
deriving Repr, Inhabited

def S.emit (s : S) (e : Eff) : S := { s with eff := s.eff ++ [e] }

/-! ### small helpers -/
def S.isProposer (s : S) : Bool := s.n != 0 && (s.height + s.round) % s.n == s.me

def S.unlock (s : S) : S := { s with lockedRound := -1, locked := none }

/-- isProposalAndPOLPrevotesComplete -/
def S.isPropAndPOLComplete (s : S) : Bool :=
  if !s.cur.isComplete then false
  else if s.polRound ≥ 0 then
    match (votesFor s.hvs s.polRound.toNat .prevote).decision s.n with
    | some (some _) => true
    | _ => false
  else true

/-- proposalHasValidProposer -/
def S.proposalHasValidProposer (s : S) : Bool :=
  if !s.isPropAndPOLComplete then false
  else if s.polRound == -1 then
    match s.cur.id with
    | some b => proposerOf b < s.n && (s.height + s.round) % s.n == proposerOf b
    | none => false
  else true

def S.endStep (s : S) : S := { s with timer := false }

/-- beginStep (panics on an invalid transition) -/
def S.beginStep (s : S) (to : Nat) : S :=
  if validTransition s.step to then { s with step := to } else { s with stuck := true }

def S.resetForNewStep (s : S) (to : Nat) : S := (s.endStep).beginStep to

/-- _resetForNewRound -/
def S.resetRound_ (s : S) (r : Nat) : S :=
  { s with polRound := -1, cur := .zero, round := r,
           hvs := removeLowerRoundExcept s.hvs ((r : Int) - 1) s.lockedRound }

def S.resetForNewRound (s : S) (r : Nat) : S := ((s.endStep).resetRound_ r).beginStep stNewRound

/-- resetForNewHeight (validator set unchanged) -/
def S.resetForNewHeight (s : S) (h : Nat) : S :=
  let s := s.endStep
  let s := { s with height := h, hvs := [], lockedRound := -1, locked := none, commitRound := -1 }
  (s.resetRound_ 0).beginStep stNewHeight

def voteListOf (s : S) (r : Nat) (t : VType) : List VoteRec :=
  (votesFor s.hvs r t).votes.map (fun e => ⟨e.1, s.height, t, r, e.2⟩)

/-- hvs.add -/
def S.hvsAdd (s : S) (m : VoteRec) : Bool × S :=
  let (added, vs) := (votesFor s.hvs m.round m.typ).add s.n m.signer m.val
  (added, if added then { s with hvs := hvsPut s.hvs m.round m.typ vs } else s)

/-- doSendProposal: WAL write + sync, then broadcast (the relayed POL vote list and the
    block parts are not signed by this validator and are not recorded) -/
def S.sendProposal (s : S) (b : Blk) (pol : Int) : S :=
  if s.stuck then s else          -- (a Go panic in beginStep aborts the caller before this point)
  let m := Msg.proposal s.me s.height s.round b pol
  ((s.emit (.write .round (.msg m))).emit (.sync .round)).emit (.send m)

/-- handlePrevoteMessage, first part: unlock on a polka for something else in a later round;
    remember the part-set id of a polka of the current round -/
def S.prevoteDecision (s : S) (mr : Nat) (d : Option (Option Blk)) : S :=
  match d with
  | some psid =>
    let s := if s.lockedRound < (mr : Int) && s.locked.isSome && (s.locked.map (·.1)) != psid
             then s.unlock else s
    match psid with
    | some b => if s.round == mr then { s with cur := s.cur.setByID b } else s
    | none => s
  | none => s

/-! ### the step machine.  All `enterX` functions are mutually recursive in the Go
    code (sendVote feeds the own vote back into ReceiveVoteMessage); every call
    strictly advances (height, round, step), the model uses a fuel argument. -/
mutual

/-- ReceiveVoteMessage for a vote of the current height (after Verify) -/
def recvVote : Nat → S → VoteRec → S
  | 0, s, _ => { s with stuck := true }
  | f+1, s, m =>
    if s.stuck then s else
    if m.height != s.height then s
    else if m.signer ≥ s.n then s                       -- "bad voter"
    else
      let (added, s) := s.hvsAdd m
      if !added then s
      else
        let votes := votesFor s.hvs m.round m.typ
        if !votes.hasOverTwoThirds s.n then s
        else match m.typ with
          | .prevote => handlePrevote f s m.round
          | .precommit => handlePrecommit f s m.round

/-- doSendVote -/
def sendVote : Nat → S → VType → Option Blk → S
  | 0, s, _, _ => { s with stuck := true }
  | f+1, s, t, v =>
    if s.stuck then s else
    if s.me ≥ s.n then s                                 -- not a validator
    else
      let m : VoteRec := ⟨s.me, s.height, t, s.round, v⟩
      let s := ((s.emit (.write .round (.msg (.vote m)))).emit (.sync .round)).emit (.send (.vote m))
      recvVote f s m

def handlePrevote : Nat → S → Nat → S
  | 0, s, _ => { s with stuck := true }
  | f+1, s, mr =>
    if s.stuck then s else
    if s.step ≥ stCommit then s
    else
      let d := (votesFor s.hvs mr .prevote).decision s.n
      let s := s.prevoteDecision mr d
      if s.round > mr && s.step < stPrevote && (mr : Int) == s.polRound && s.isPropAndPOLComplete then
        enterPrevote f s
      else if s.round == mr && s.step < stPrevote then enterPrevote f s
      else if s.round == mr && s.step == stPrevote then enterPrevoteWait f s
      else if s.round == mr && s.step == stPrevoteWait then
        (if d.isSome then enterPrecommit f s else s)
      else if s.round < mr && s.step < stCommit then enterPrevote f (s.resetForNewRound mr)
      else s

def handlePrecommit : Nat → S → Nat → S
  | 0, s, _ => { s with stuck := true }
  | f+1, s, mr =>
    if s.stuck then s else
    let d := (votesFor s.hvs mr .precommit).decision s.n
    if mr < s.round && s.step < stCommit then
      match d with
      | some (some b) => enterCommit f s b mr
      | _ => s
    else if s.round == mr && s.step < stPrecommit then enterPrecommit f s
    else if s.round == mr && s.step == stPrecommit then enterPrecommitWait f s
    else if s.round == mr && s.step == stPrecommitWait then
      match d with
      | some (some b) => enterCommit f s b mr
      | some none => enterNewRound f s
      | none => s
    else if s.round < mr && s.step < stCommit then enterPrecommit f (s.resetForNewRound mr)
    else s

def enterPropose : Nat → S → S
  | 0, s => { s with stuck := true }
  | f+1, s =>
    if s.stuck then s else
    let s := s.resetForNewStep stPropose
    let s := { s with timer := true }
    if s.isProposer then
      match s.locked with
      | some (b, v) =>
        let s := s.sendProposal b s.lockedRound
        { s with cur := .full b v }
      | none => { s with pend := .propose s.height s.round }
    else if s.isPropAndPOLComplete then enterPrevote f s
    else s

def enterPrevote : Nat → S → S
  | 0, s => { s with stuck := true }
  | f+1, s =>
    if s.stuck then s else
    let s := s.resetForNewStep stPrevote
    let s :=
      match s.locked with
      | some (b, _) => sendVote f s .prevote (some b)
      | none =>
        match s.cur with
        | .full b validated =>
          if validated then sendVote f s .prevote (some b)
          else if !s.proposalHasValidProposer then sendVote f s .prevote none
          else { s with pend := .import_ s.height s.round b }
        | _ => sendVote f s .prevote none
    if s.step == stPrevote then
      if (votesFor s.hvs s.round .prevote).hasOverTwoThirds s.n then enterPrevoteWait f s else s
    else s

def enterPrevoteWait : Nat → S → S
  | 0, s => { s with stuck := true }
  | f+1, s =>
    if s.stuck then s else
    let s := s.resetForNewStep stPrevoteWait
    let s := s.emit (.write .round (.voteList (voteListOf s s.round .prevote)))
    if ((votesFor s.hvs s.round .prevote).decision s.n).isSome then enterPrecommit f s
    else { s with timer := true }

def enterPrecommit : Nat → S → S
  | 0, s => { s with stuck := true }
  | f+1, s =>
    if s.stuck then s else
    let s := s.resetForNewStep stPrecommit
    let s :=
      match (votesFor s.hvs s.round .prevote).decision s.n with
      | none => sendVote f s .precommit none
      | some none => sendVote f s.unlock .precommit none
      | some (some b) =>
        if (s.locked.map (·.1)) == some b then
          -- "update lock round": lockedRound is raised, NOTHING is written to the lock WAL
          sendVote f { s with lockedRound := s.round } .precommit (some b)
        else if s.cur.id == some b && s.cur.hasBlockData then
          let s := { s with lockedRound := s.round, locked := some (b, s.cur.hasValidated) }
          let s := s.emit (.write .lock (.voteList (voteListOf s s.round .prevote)))
          let s := s.emit (.write .lock (.blockPart s.height b))
          let s := s.emit (.sync .lock)
          sendVote f s .precommit (some b)
        else
          -- polka for a block we do not have
          sendVote f ({ s with cur := s.cur.setByID b }).unlock .precommit none
    if s.step == stPrecommit then
      if (votesFor s.hvs s.round .precommit).hasOverTwoThirds s.n then enterPrecommitWait f s else s
    else s

def enterPrecommitWait : Nat → S → S
  | 0, s => { s with stuck := true }
  | f+1, s =>
    if s.stuck then s else
    let s := s.resetForNewStep stPrecommitWait
    let s := s.emit (.write .round (.voteList (voteListOf s s.round .precommit)))
    match (votesFor s.hvs s.round .precommit).decision s.n with
    | some (some b) => enterCommit f s b s.round
    | some none => enterNewRound f s
    | none => { s with timer := true }

def enterCommit : Nat → S → Blk → Nat → S
  | 0, s, _, _ => { s with stuck := true }
  | f+1, s, b, r =>
    if s.stuck then s else
    let s := s.resetForNewStep stCommit
    let s := { s with commitRound := (r : Int) }
    let s := (s.emit (.write .commit (.voteList (voteListOf s r .precommit)))).emit (.sync .commit)
    let s := { s with cur := s.cur.setByID b }
    let s := if !s.cur.isComplete && s.bpm.contains b then { s with cur := .full b false } else s
    if s.cur.isComplete then commitAndEnterNewHeight f s else s

def commitAndEnterNewHeight : Nat → S → S
  | 0, s => { s with stuck := true }
  | f+1, s =>
    if s.stuck then s else
    match s.cur with
    | .full b validated =>
      if !validated then { s with pend := .commit s.height s.round }
      else enterNewHeight f ({ s.emit (.finalize s.height b) with dbHeight := s.height })
    | _ => { s with stuck := true }

/-- enterNewHeight; the commit-timeout wait before enterTransactionWait is collapsed
    (the harness fires that timer at once) -/
def enterNewHeight : Nat → S → S
  | 0, s => { s with stuck := true }
  | f+1, s =>
    if s.stuck then s else
    let s := s.resetForNewHeight (s.height + 1)
    -- enterTransactionWait (minimizeBlockGen off)
    let s := s.resetForNewStep stTransactionWait
    enterPropose f s

def enterNewRound : Nat → S → S
  | 0, s => { s with stuck := true }
  | f+1, s =>
    if s.stuck then s else
    let s := s.resetForNewRound (s.round + 1)
    enterPropose f s

end

def fuel0 : Nat := 64

/-! ### events -/

/-- ReceiveProposalMessage (after Verify) -/
def recvProposal (s : S) (signer h r : Nat) (b : Blk) (pol : Int) : S :=
  if !s.started then s
  else if pol < -1 || pol ≥ (r : Int) then s          -- ProposalMessage.Verify: "bad field value"
  else if h != s.height || r != s.round || s.step ≥ stCommit then s
  else if signer ≥ s.n then s
  else if (s.height + s.round) % s.n != signer then s
  else if !s.cur.isZero then s
  else
    let s := { s with polRound := pol, cur := .idOnly b }
    let s := if s.bpm.contains b then { s with cur := .full b false } else s
    if (s.step == stTransactionWait || s.step == stPropose) && s.isPropAndPOLComplete then
      enterPrevote fuel0 s
    else s

/-- ReceiveBlockPartMessage for the single part of block `b` -/
def recvBlockPart (s : S) (h : Nat) (b : Blk) : S :=
  if !s.started then s
  else
    let s := if s.height ≤ h && h < s.height + 3 && !s.bpm.contains b then { s with bpm := s.bpm ++ [b] } else s
    if h != s.height then s
    else if s.cur.isZero || s.cur.isComplete then s
    else if s.cur.id != some b then s
    else
      let s := { s with cur := .full b false }
      if (s.step == stTransactionWait || s.step == stPropose) && s.isPropAndPOLComplete then
        enterPrevote fuel0 s
      else if s.step == stCommit && s.cur.isComplete then commitAndEnterNewHeight fuel0 s
      else s

/-- OnReceive of a vote -/
def recvVoteEv (s : S) (m : VoteRec) : S :=
  if !s.started then s else recvVote fuel0 s m

/-- a step timer fires (the closure bodies armed by enterPropose / enterPrevoteWait /
    enterPrecommitWait) -/
def timeout (s : S) (st : Nat) : S :=
  if !s.started || s.step != st || !s.timer then s
  else if st == stPropose then enterPrevote fuel0 s
  else if st == stPrevoteWait then enterPrecommit fuel0 s
  else if st == stPrecommitWait then enterNewRound fuel0 s
  else s

/-- own block label for a proposal made by this validator at height h.  BlockManager.Propose is a
    function of the parent block, its commit votes and the transaction pool: the same block in every
    round of one process life; the pool is volatile, so after a restart (the harness puts a fresh
    transaction into the pool of every new life) a different block — the label depends on the number
    of crashes so far. -/
def crashCount : List Eff → Nat
  | [] => 0
  | .crash _ :: es => crashCount es + 1
  | _ :: es => crashCount es

def ownBlk (s : S) (h _r : Nat) : Blk := 8 * (100 + 50 * h + crashCount s.eff) + s.me

/-- SetByValidatedBlock, only if currentBlockParts still holds the imported block -/
def S.markValidated (s : S) (ib : Blk) : S :=
  match s.cur with
  | .full b _ => if b == ib then { s with cur := .full b true } else s
  | _ => s

/-- BlockManager.Propose callback (captured hrs = (h, r, propose)) -/
def asyncPropose (s : S) (h r : Nat) : S :=
  if s.height != h || s.round != r || s.step != stPropose then s
  else
    let b := ownBlk s h r
    let s := s.sendProposal b (-1)
    let s := { s with cur := .full b true }
    enterPrevote fuel0 s

/-- enterPrevote's ImportBlock callback (err == nil) -/
def asyncImport (s : S) (h r : Nat) (ib : Blk) : S :=
  if s.height != h || s.round != r || s.step ≥ stCommit then s
  else
    let s := s.markValidated ib
    if s.step ≤ stPrevoteWait then
      match s.cur with
      | .full b _ => sendVote fuel0 s .prevote (some b)
      | _ => { s with stuck := true }     -- Go: nil dereference (unreachable)
    else s

/-- commitAndEnterNewHeight's ImportBlock callback -/
def asyncCommit (s : S) (h r : Nat) : S :=
  if s.height != h || s.round != r || s.step != stCommit then s
  else match s.cur with
    | .full b _ =>
      let s := { s with cur := .full b true }
      enterNewHeight fuel0 ({ s.emit (.finalize s.height b) with dbHeight := s.height })
    | _ => { s with stuck := true }

/-- an outstanding BlockManager callback runs -/
def async (s : S) : S :=
  if !s.started || s.stuck then s
  else match s.pend with
  | .none => s
  | .propose h r => asyncPropose { s with pend := .none } h r
  | .import_ h r ib => asyncImport { s with pend := .none } h r ib
  | .commit h r => asyncCommit { s with pend := .none } h r

/-! ### block sync: ReceiveBlockResult → ReceiveBlock → processBlock

    The engine is handed a block `b` of height `h` together with a commit vote list (precommits of
    round `r` by `signers`) through the fast-sync callback instead of gossip.  This entry point is part
    of the executable model (correspondence with the real engine is exact) but NOT an `Event`: the
    theorems about `run` do not cover it. -/

/-- the vote loop of processBlock: an unknown signer rejects the block (votes added so far stay) -/
def syncAddVotes (s : S) : List VoteRec → S × Bool
  | [] => (s, true)
  | v :: vs => if v.signer ≥ s.n then (s, false) else syncAddVotes (s.hvsAdd v).2 vs

def syncBlock (s : S) (h r : Nat) (b : Blk) (signers : List Nat) : S :=
  if s.height < h then s                      -- prefetchItems (not modelled; never generated)
  else if s.height > h || (s.step == stCommit && s.cur.isComplete) then s      -- Consume
  else
    let (s, ok) := syncAddVotes s (signers.map (fun sg => ⟨sg, h, .precommit, r, some b⟩))
    if !ok then s                              -- Reject
    else match (votesFor s.hvs r .precommit).decision s.n with
      | some (some b') =>
        if b' != b then s                      -- Reject: commit votes are for another part set
        else
          -- SetByPartSetAndBlock: the validated candidate is kept only if the part-set id is unchanged
          let keep := s.cur.id == some b && s.cur.hasValidated
          let s := { s with cur := .full b keep }
          if s.step < stCommit then enterCommit fuel0 s b r
          else commitAndEnterNewHeight fuel0 s
      | _ => s                                 -- Reject: no +2/3 precommits for a block

/-! ### restart: applyRoundWAL / applyLockWAL / applyCommitWAL / Start -/

def mstepOf (t : VType) : Nat := match t with | .prevote => stPrevote | .precommit => stPrecommit

/-- add a list of votes of the current height to hvs (the WAL vote-list loops) -/
def addVotes (s : S) : List VoteRec → S
  | [] => s
  | v :: vs =>
    if v.height != s.height then addVotes s vs
    else if v.signer ≥ s.n then addVotes s vs
    else addVotes (s.hvsAdd v).2 vs

/-- the "update round/step from a vote list" tail shared by the three apply functions;
    `strict` distinguishes `rstep <= mstep` (own message) from `rstep < mstep` (vote list) -/
def advanceByList (s : S) (v : VoteRec) : S :=
  if v.height != s.height then s
  else
    let mstep := mstepOf v.typ
    if s.round < v.round || (s.round == v.round && s.step < mstep) then
      if (votesFor s.hvs v.round v.typ).hasOverTwoThirds s.n then { s with round := v.round, step := mstep }
      else s
    else s

def applyRoundWAL (s : S) : List Rec → S
  | [] => s
  | .msg (.proposal signer h r _ _) :: rs =>
    if h != s.height then applyRoundWAL s rs
    else if signer != s.me then applyRoundWAL s rs
    else if s.round < r || (s.round == r && s.step ≤ stPropose) then
      applyRoundWAL { s with round := r, step := stPropose } rs
    else applyRoundWAL s rs
  | .msg (.vote m) :: rs =>
    if m.height != s.height then applyRoundWAL s rs
    else if m.signer != s.me then applyRoundWAL s rs
    else if m.signer ≥ s.n then applyRoundWAL s rs
    else
      let s := (s.hvsAdd m).2
      let mstep := mstepOf m.typ
      if s.round < m.round || (s.round == m.round && s.step ≤ mstep) then
        applyRoundWAL { s with round := m.round, step := mstep } rs
      else applyRoundWAL s rs
  | .voteList vl :: rs =>
    let s := addVotes s vl
    match vl with
    | [] => applyRoundWAL s rs          -- (the Go code would index out of range; never written)
    | v :: _ => applyRoundWAL (advanceByList s v) rs
  | .blockPart _ _ :: rs => applyRoundWAL s rs

/-- applyLockWAL: a vote list holding a polka for a block starts a new part set for it -/
def lockBp (s : S) (v : VoteRec) (bp : Option (Blk × Nat)) : Option (Blk × Nat) :=
  match (votesFor s.hvs v.round .prevote).decision s.n with
  | some (some b) => some (b, v.round)
  | _ => bp

/-- applyLockWAL; `bp` = (bpset, bpsetLockRound), `last` = (lastBPSet, lastBPSetLockRound) -/
def applyLockWAL (s : S) (bp : Option (Blk × Nat)) (last : Option (Blk × Nat)) : List Rec → S
  | [] =>
    match last with
    | some (b, r) => { s with cur := .full b false, locked := some (b, false), lockedRound := (r : Int) }
    | none => s
  | .voteList [] :: rs => applyLockWAL s bp last rs
  | .voteList (v :: vl) :: rs =>
    let s := addVotes s (v :: vl)
    if v.height != s.height then applyLockWAL s bp last rs
    else
      applyLockWAL (advanceByList s v) (lockBp s v bp) last rs
  | .blockPart h b :: rs =>
    if h != s.height then applyLockWAL s bp last rs
    else match bp with
      | none => applyLockWAL s bp last rs
      | some (b', r) =>
        if b' == b then applyLockWAL s bp (some (b', r)) rs   -- AddPart ok, complete
        else applyLockWAL s bp last rs                         -- AddPart error
  | _ :: rs => applyLockWAL s bp last rs

def applyCommitWAL (s : S) : List Rec → S
  | [] => s
  | .voteList (v :: vl) :: rs =>
    if v.height == s.height then
      let s := addVotesC s (v :: vl)
      applyCommitWAL (advanceByList s v) rs
    else applyCommitWAL s rs      -- height-1: lastVotes only (not modelled)
  | _ :: rs => applyCommitWAL s rs
where
  /-- the commit-WAL loop does not filter by height per vote -/
  addVotesC (s : S) : List VoteRec → S
    | [] => s
    | v :: vs => if v.signer ≥ s.n then addVotesC s vs else addVotesC (s.hvsAdd v).2 vs

/-- Start (fresh start and restart are the same code) -/
def start (s : S) : S :=
  if s.started then s else
  -- volatile state of a fresh `consensus` object, then resetForNewHeight(lastBlock)
  let s : S := { n := s.n, me := s.me, dbHeight := s.dbHeight, eff := s.eff, bpm := [], stuck := s.stuck }
  let s := s.resetForNewHeight (s.dbHeight + 1)
  let s := applyRoundWAL s (walDurable .round s.eff)
  let s := applyLockWAL s none none (walDurable .lock s.eff)
  let s := applyCommitWAL s (walDurable .commit s.eff)
  let s := { s with started := true }
  if s.step == stNewHeight && s.round == 0 then
    enterPropose fuel0 (s.resetForNewStep stTransactionWait)       -- enterTransactionWait
  else if s.step == stNewHeight && s.round > 0 then enterPropose fuel0 s
  else if s.step == stPropose then enterPrevote fuel0 s
  else if s.step == stPrevote then
    (if (votesFor s.hvs s.round .prevote).hasOverTwoThirds s.n then enterPrevoteWait fuel0 s else s)
  else if s.step == stPrecommit then
    (if (votesFor s.hvs s.round .precommit).hasOverTwoThirds s.n then enterPrecommitWait fuel0 s else s)
  else s

/-- The process dies.  `cut` effects of the trace are kept (everything after them never
    happened; a cut shorter than the trace at the beginning of the last event is raised to
    it by the driver), `k` unsynced records of every WAL survive on disk. -/
def lastFinalizedHeight (es : List Eff) : Nat := (finalizedOf es).foldl (fun a p => max a p.1) 0

def crash (s : S) (cut k : Nat) : S :=
  let es := s.eff.take cut
  { s with started := false, timer := false, pend := .none,
           dbHeight := lastFinalizedHeight es, eff := es ++ [.crash k] }

inductive Event where
  | start
  | proposal (signer h r : Nat) (b : Blk) (pol : Int)
  | blockPart (h : Nat) (b : Blk)
  | vote (m : VoteRec)
  | timeout (st : Nat)
  | async
  | crash (cut k : Nat)
deriving Repr, Inhabited

def vstep (s : S) : Event → S
  | .start => start s
  | .proposal sg h r b pol => recvProposal s sg h r b pol
  | .blockPart h b => recvBlockPart s h b
  | .vote m => recvVoteEv s m
  | .timeout st => timeout s st
  | .async => async s
  | .crash cut k => crash s cut k

def run (s : S) : List Event → S
  | [] => s
  | e :: es => run (vstep s e) es

end Goloop.C01
