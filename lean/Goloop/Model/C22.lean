/-
  Model/C22: transaction / receipt lists (service/transaction/transactionlist.go,
  service/txresult/receiptlist.go).

  * `intToKey i` = `codec.BC.MarshalToBytes(uint(i))` = `rlpWriter.writeBytes
    (intconv.Uint64ToBytes(uint64(i)))`, transcribed (common/codec/rlp.go,
    common/intconv/bytes.go).
  * `keyToInt` = what `transactionIterator.Get` does with the key
    (`codec.BC.UnmarshalFromBytes(key, &idx)`, idx uint): rlp string header,
    then `SafeBytesToUint64`.  Only the string forms with a one byte header are
    modelled (tag < 0xB8); other tags are outside the driver's domain.
  * the list itself is an MPT (`ompt`) keyed by `intToKey idx`.  The trie is
    represented by what C17 proves about it: a finite map whose iterator yields
    the entries in ascending order of the key's nibble string, a proper prefix
    first (ompt's iterator is a DFS that pushes children 15..0 on a stack and
    returns a branch's own value before its children).  `tset/tget/titer` are
    that sorted association list.
-/
import Goloop.Base.Bytes
namespace Goloop.C22

def byteOfNat (v : Nat) : UInt8 := UInt8.ofNat (v % 256)

/-- `intconv.Uint64ToBytes` loop: 9 slots, stops when the rest is zero and the top bit of
    the byte just written is clear. -/
def uint64Loop : Nat → Nat → Bytes → Bytes
  | 0, _, acc => acc
  | fuel + 1, v, acc =>
    let tv := v % 256
    let acc' := byteOfNat v :: acc
    let v' := v / 256
    if v' = 0 ∧ tv < 128 then acc' else uint64Loop fuel v' acc'

def uint64ToBytes (v : Nat) : Bytes :=
  if v = 0 then [0] else uint64Loop 9 v []

/-- `intconv.SizeToBytes` (only reached for strings longer than 55 bytes) -/
def sizeLoop : Nat → Nat → Bytes → Bytes
  | 0, _, acc => acc
  | fuel + 1, v, acc =>
    let acc' := byteOfNat v :: acc
    let v' := v / 256
    if v' = 0 then acc' else sizeLoop fuel v' acc'

def sizeToBytes (v : Nat) : Bytes := if v = 0 then [0] else sizeLoop 8 v []

/-- `rlpWriter.writeBytes` for a non-nil slice -/
def writeBytes (b : Bytes) : Bytes :=
  match b with
  | [] => [0x80]
  | [x] => if x.toNat < 0x80 then [x] else [0x81, x]
  | _ =>
    if b.length ≤ 55 then UInt8.ofNat (0x80 + b.length) :: b
    else
      let sz := sizeToBytes b.length
      UInt8.ofNat (0x80 + 55 + sz.length) :: (sz ++ b)

/-- `intToKey` of transactionlist.go; receiptlist.go inlines the same call -/
def intToKey (i : Nat) : Bytes := writeBytes (uint64ToBytes i)

/-- `intconv.SafeBytesToUint64` -/
def safeBytesToUint64 (bs : Bytes) : Option Nat :=
  match bs with
  | [] => some 0
  | b :: rest =>
    if b = 0 then
      if rest.length > 8 then none else some (beNat rest)
    else if b.toNat ≥ 128 then none
    else if bs.length > 8 then none else some (beNat bs)

/-- decoding of an iterator key into the index (string forms with a one byte header) -/
def keyToInt (k : Bytes) : Option Nat :=
  match k with
  | [] => none
  | t :: r =>
    if t.toNat < 0x80 then safeBytesToUint64 [t]
    else if t.toNat ≤ 0xB7 then
      let n := t.toNat - 0x80
      if r.length < n then none else safeBytesToUint64 (r.take n)
    else none

/-! ### key order of the trie -/

def nibs (b : Bytes) : List Nat := b.flatMap (fun x => [x.toNat / 16, x.toNat % 16])

/-- strict lexicographic order on nibble strings, a proper prefix is smaller -/
def nlt : List Nat → List Nat → Bool
  | [], [] => false
  | [], _ :: _ => true
  | _ :: _, [] => false
  | a :: as, b :: bs => decide (a < b) || (decide (a = b) && nlt as bs)

/-- order of two keys as the trie iterator sees them -/
def klt (a b : Bytes) : Bool := nlt (nibs a) (nibs b)

/-! ### the trie as a sorted finite map -/

abbrev Trie (α : Type) := List (Bytes × α)

def tset {α : Type} : Trie α → Bytes → α → Trie α
  | [], k, v => [(k, v)]
  | (k', v') :: r, k, v =>
    if k' = k then (k, v) :: r
    else if klt k k' then (k, v) :: (k', v') :: r
    else (k', v') :: tset r k v

def tget {α : Type} : Trie α → Bytes → Option α
  | [], _ => none
  | (k', v') :: r, k => if k' = k then some v' else tget r k

/-! ### the lists -/

/-- `for idx, tx := range list { mt.Set(intToKey(idx), tx) }` -/
def fromSliceAux {α : Type} (t : Trie α) (idx : Nat) : List α → Trie α
  | [] => t
  | x :: xs => fromSliceAux (tset t (intToKey idx) x) (idx + 1) xs

/-- `NewTransactionListFromSlice` / `NewReceiptListFromSlice` -/
def fromSlice {α : Type} (l : List α) : Trie α := fromSliceAux [] 0 l

/-- `transactionList.Iterator` drained: (item, decoded index) in iteration order -/
def iterate {α : Type} (t : Trie α) : List (α × Option Nat) := t.map (fun e => (e.2, keyToInt e.1))

/-- `receiptList.Iterator` drained (the receipt iterator does not report an index) -/
def iterateItems {α : Type} (t : Trie α) : List α := t.map (·.2)

/-- `transactionList.Get` / `receiptList.Get` -/
def get {α : Type} (t : Trie α) (i : Nat) : Option α := tget t (intToKey i)

end Goloop.C22
