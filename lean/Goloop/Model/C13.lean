/-
  Model/C13: who can authorise a transaction.
  * signature byte layouts of common/crypto/signature.go (ParseSignature, ParseSignatureVRS,
    SerializeRS/VRS/RSV, HasV, the ±27 recovery-flag offset), transcribed
  * `recoverPublicKey`, `addressOf`, `verifySignature`, `txVerify`: the decision logic of
    crypto.Signature.RecoverPublicKey, common.NewAccountAddressFromPublicKey and
    transactionV3.verifySignature / Verify, with the curve operation a parameter
  * `Secp`: an executable reference of secp256k1 compact recovery / ECDSA verification
    (decred RecoverCompact, transcribed check by check) used by the driver as the instance of
    that parameter.  No theorem is about `Secp`; it is compared with the real library by the
    correspondence run.
-/
import Goloop.Base.Bytes
namespace Goloop.C13

/-! ## signature layouts (common/crypto/signature.go) -/

def recoverFlagToECDSA (f : UInt8) : UInt8 := f + 27
def recoverFlagToCompatible (f : UInt8) : UInt8 := f - 27

/-- `parseSignature`: 64 bytes [R|S] are kept, 65 bytes [R|S|V] become [V+27|R|S]; `none` = error -/
def parseSignature (sig : Bytes) : Option Bytes :=
  if sig.length = 0 then none
  else if sig.length = 65 then some (recoverFlagToECDSA (sig.getD 64 0) :: sig.take 64)
  else if sig.length = 64 then some sig
  else none

/-- `ParseSignatureVRS`: exactly 65 bytes [V|R|S] -/
def parseSignatureVRS (sig : Bytes) : Option Bytes :=
  if sig.length ≠ 65 then none
  else match sig with
    | v :: rs => some (recoverFlagToECDSA v :: rs)
    | [] => none

def hasV (s : Bytes) : Bool := s.length == 65

def serializeRS (s : Bytes) : Option Bytes :=
  if s.length = 64 then some s
  else if s.length = 65 then some (s.drop 1)
  else none

def serializeVRS (s : Bytes) : Option Bytes :=
  if !hasV s then none
  else match s with
    | v :: rs => some (recoverFlagToCompatible v :: rs)
    | [] => none

def serializeRSV (s : Bytes) : Option Bytes :=
  if !hasV s then none
  else match s with
    | v :: rs => some (rs ++ [recoverFlagToCompatible v])
    | [] => none

/-! ## recover → address → compare (RecoverPublicKey, NewAccountAddressFromPublicKey,
       verifySignature, Verify) -/

/-- `crypto.Signature.RecoverPublicKey`; `rc sig65 hash` is `ecdsa.RecoverCompact` followed by
    `SerializeUncompressed` (65 bytes 04|X|Y) -/
def recoverPublicKey (rc : Bytes → Bytes → Option Bytes) (s hash : Bytes) : Option Bytes :=
  if !hasV s then none
  else if hash.length = 0 ∨ hash.length > 32 then none
  else rc s hash

/-- `common.NewAccountAddressFromPublicKey`: 21 bytes, type 0, last 20 bytes of H(pk[1:]) -/
def addressOf (H : Bytes → Bytes) (pk : Bytes) : Bytes :=
  let digest := H (pk.drop 1)
  0 :: digest.drop (digest.length - 20)

/-- `Address.Equal` on 21-byte forms: same type flag and same id -/
def addrEqual (a b : Bytes) : Bool :=
  (a.head? == some 1) == (b.head? == some 1) && a.drop 1 == b.drop 1

/-- `transactionV3.verifySignature`; `sig = none` is the nil `common.Signature` -/
def verifySignature (rc : Bytes → Bytes → Option Bytes) (H : Bytes → Bytes)
    (sig : Option Bytes) (id from_ : Bytes) : Bool :=
  match sig with
  | none => false
  | some s =>
    match recoverPublicKey rc s id with
    | none => false
    | some pk => addrEqual (addressOf H pk) from_

/-- `tx.Value != nil && tx.Value.Sign() < 0` -/
def valueNeg : Option Int → Bool
  | some v => decide (v < 0)
  | none => false

/-- `transactionV3.Verify`: sign checks, the data checks (abstracted as `dataOk`), then the
    signature -/
def txVerify (rc : Bytes → Bytes → Option Bytes) (H : Bytes → Bytes)
    (value : Option Int) (stepLimit : Int) (dataOk : Bool)
    (sig : Option Bytes) (id from_ : Bytes) : Bool :=
  if valueNeg value then false
  else if stepLimit < 0 then false
  else if !dataOk then false
  else verifySignature rc H sig id from_

/-! ## executable secp256k1 reference -/
namespace Secp

def p : Nat := 0xFFFFFFFFFFFFFFFFFFFFFFFFFFFFFFFFFFFFFFFFFFFFFFFFFFFFFFFEFFFFFC2F
def n : Nat := 0xFFFFFFFFFFFFFFFFFFFFFFFFFFFFFFFEBAAEDCE6AF48A03BBFD25E8CD0364141
def gx : Nat := 0x79BE667EF9DCBBAC55A06295CE870B07029BFCDB2DCE28D959F2815B16F81798
def gy : Nat := 0x483ADA7726A3C4655DA4FBFC0E1108A8FD17B448A68554199C47D08FFB10D4B8

def powMod (m : Nat) (b e : Nat) : Nat :=
  let rec go (fuel : Nat) (b e acc : Nat) : Nat :=
    match fuel with
    | 0 => acc
    | fuel + 1 =>
      if e = 0 then acc
      else go fuel (b * b % m) (e / 2) (if e % 2 = 1 then acc * b % m else acc)
  go 300 (b % m) e 1

def invMod (m a : Nat) : Nat := powMod m a (m - 2)

def subP (a b : Nat) : Nat := (a + p - b % p) % p

/-- Jacobian point; Z = 0 is the point at infinity -/
structure JP where
  x : Nat
  y : Nat
  z : Nat
  deriving Inhabited

def inf : JP := ⟨1, 1, 0⟩

def dbl (a : JP) : JP :=
  if a.z = 0 ∨ a.y = 0 then inf
  else
    let y2 := a.y * a.y % p
    let s := 4 * a.x % p * y2 % p
    let m := 3 * (a.x * a.x % p) % p
    let x' := subP (m * m % p) (2 * s % p)
    let y' := subP (m * subP s x' % p) (8 * (y2 * y2 % p) % p)
    let z' := 2 * a.y % p * a.z % p
    ⟨x', y', z'⟩

def add (a b : JP) : JP :=
  if a.z = 0 then b
  else if b.z = 0 then a
  else
    let z1z1 := a.z * a.z % p
    let z2z2 := b.z * b.z % p
    let u1 := a.x * z2z2 % p
    let u2 := b.x * z1z1 % p
    let s1 := a.y * (z2z2 * b.z % p) % p
    let s2 := b.y * (z1z1 * a.z % p) % p
    if u1 = u2 then
      if s1 = s2 then dbl a else inf
    else
      let h := subP u2 u1
      let r := subP s2 s1
      let h2 := h * h % p
      let h3 := h2 * h % p
      let u1h2 := u1 * h2 % p
      let x3 := subP (subP (r * r % p) h3) (2 * u1h2 % p)
      let y3 := subP (r * subP u1h2 x3 % p) (s1 * h3 % p)
      let z3 := h * a.z % p * b.z % p
      ⟨x3, y3, z3⟩

/-- double-and-add, most significant bit first, 256 bits -/
def mul (k : Nat) (a : JP) : JP :=
  (List.range 256).foldl (fun acc i =>
    let acc2 := dbl acc
    if (k >>> (255 - i)) % 2 = 1 then add acc2 a else acc2) inf

def toAffine (a : JP) : Option (Nat × Nat) :=
  if a.z = 0 then none
  else
    let zi := invMod p a.z
    let zi2 := zi * zi % p
    some (a.x * zi2 % p, a.y * (zi2 * zi % p) % p)

/-- `DecompressY` -/
def liftX (x : Nat) (odd : Bool) : Option Nat :=
  let rhs := (x * x % p * x + 7) % p
  let y := powMod p rhs ((p + 1) / 4)
  if y * y % p ≠ rhs then none
  else if (y % 2 = 1) = odd then some y else some (p - y)

def be32 (v : Nat) : Bytes :=
  (List.range 32).map fun i => UInt8.ofNat ((v >>> (8 * (31 - i))) % 256)

/-- `ecdsa.RecoverCompact(sig65, hash)` + `SerializeUncompressed` -/
def recoverCompact (sig hash : Bytes) : Option Bytes :=
  if sig.length ≠ 65 then none
  else
    let code0 := (sig.getD 0 0).toNat
    if code0 < 27 ∨ code0 > 34 then none
    else
      let code := (code0 - 27) % 4
      let r := beNat ((sig.drop 1).take 32)
      let s := beNat (sig.drop 33)
      if r ≥ n ∨ r = 0 ∨ s ≥ n ∨ s = 0 then none
      else
        let fr : Option Nat :=
          if code / 2 % 2 = 1 then (if r ≥ p - n then none else some (r + n)) else some r
        match fr with
        | none => none
        | some x =>
          match liftX x (code % 2 = 1) with
          | none => none
          | some y =>
            let e := beNat (hash.take 32) % n
            let w := invMod n r
            let u1 := (n - e * w % n) % n
            let u2 := s * w % n
            let q := add (mul u1 ⟨gx, gy, 1⟩) (mul u2 ⟨x, y, 1⟩)
            match toAffine q with
            | none => none
            | some (qx, qy) => some (0x04 :: (be32 qx ++ be32 qy))

/-- public key of a private scalar, uncompressed -/
def pubOf (d : Nat) : Option Bytes :=
  match toAffine (mul (d % n) ⟨gx, gy, 1⟩) with
  | none => none
  | some (x, y) => some (0x04 :: (be32 x ++ be32 y))

/-- `crypto.Signature.Verify(msg, pub)` on internal bytes (64 or 65) and an uncompressed key -/
def verify (sigBytes msg pub : Bytes) : Bool :=
  if msg.length = 0 ∨ msg.length > 32 ∨ sigBytes.length < 64 then false
  else
    let off := if sigBytes.length = 65 then 1 else 0
    let r := beNat ((sigBytes.drop off).take 32) % n
    let s := beNat (sigBytes.drop (off + 32)) % n
    if r = 0 ∨ s = 0 then false
    else
      let qx := beNat ((pub.drop 1).take 32)
      let qy := beNat (pub.drop 33)
      let e := beNat (msg.take 32) % n
      let w := invMod n s
      let u1 := e * w % n
      let u2 := r * w % n
      match toAffine (add (mul u1 ⟨gx, gy, 1⟩) (mul u2 ⟨qx, qy, 1⟩)) with
      | none => false
      | some (x, _) => x % n = r

end Secp
end Goloop.C13
