/-
  Model/C27: the Merkle accumulator of common/trie/mta/accumulator.go,
  transcribed function by function (repaired code: nil root slots are skipped
  by `Flush` and `WitnessFor`, see fixes/F6_mta_nil_roots.diff; the behaviour of
  the unrepaired code is `witnessLoopOld` / `flushRootsOld`).

  * The hash function is the parameter `H` (Go: crypto.SHA3Sum256).
  * `branchNode.hashValue` / `dataNode.hashValue` are lazily memoised in Go
    (`state < stateHashed`); the hash function is pure, so the model computes
    them eagerly when the node is created and keeps them in the field `hv`.
    A branch node obtained from `hashNode.resolve` carries the *key* it was
    looked up under as `hv`, exactly like the Go code.
  * Go `copy(dst, src)` on the 64 byte scratch buffers is `copyAt`.
  * The bucket is an association list (`DB`), newest binding first; `Set` never
    fails (MapDB). The persisted accumulator state (JSON under `KeyForState`)
    is modelled as the decoded value `Persisted` kept next to the bucket
    (assumption: `KeyForState` is not a 32 byte node key; JSON round trip of
    `[][]byte` + `HexInt64` is the Go standard library's).
  * Item indices are `Nat` (Go `int64 ≥ 0`).
-/
import Goloop.Base.Bytes
namespace Goloop.C27

def hashSize : Nat := 32

inductive Dir | left | right
  deriving DecidableEq, Repr

structure Witness where
  dir : Dir
  hv : Bytes
  deriving DecidableEq, Repr

/-- Go `copy(buf[off:], src)` for a fixed-length buffer `buf`. -/
def copyAt (buf : Bytes) (off : Nat) (src : Bytes) : Bytes :=
  buf.take off ++ src.take (min src.length (buf.length - off)) ++
    buf.drop (off + min src.length (buf.length - off))

/-- `bs := make([]byte, 64); copy(bs, l); copy(bs[32:], r)` -/
def ser (l r : Bytes) : Bytes :=
  copyAt (copyAt (List.replicate (2 * hashSize) 0) 0 l) hashSize r

abbrev DB := List (Bytes × Bytes)

def DB.get (db : DB) (k : Bytes) : Option Bytes :=
  match db with
  | [] => none
  | (k', v) :: rest => if k' = k then some v else DB.get rest k

def DB.set (db : DB) (k v : Bytes) : DB := (k, v) :: db

inductive Node where
  | hash (hv : Bytes)
  | branch (hv : Bytes) (flushed : Bool) (l r : Node)
  | data (hv : Bytes) (flushed : Bool) (d : Bytes)
  deriving Repr

/-- `Node.Hash()` -/
def Node.hashOf : Node → Bytes
  | .hash hv => hv
  | .branch hv _ _ _ => hv
  | .data hv _ _ => hv

/-- the `&branchNode{state: stateDirty, left: root, right: n}` of `addNode`, hash computed eagerly -/
def mkBranch (H : Bytes → Bytes) (l r : Node) : Node :=
  .branch (H (ser l.hashOf r.hashOf)) false l r

/-- the `&dataNode{state: stateDirty, data: d}` of `AddData` -/
def mkData (H : Bytes → Bytes) (d : Bytes) : Node := .data (H d) false d

/-- `hashNode.resolve`: children hashes, or none on `ResolveFailure`/`InvalidData` -/
def resolve (db : DB) (hv : Bytes) : Option (Bytes × Bytes) :=
  match db.get hv with
  | none => none
  | some bs => if bs.length ≠ 2 * hashSize then none else some (bs.take hashSize, bs.drop hashSize)

/-- `Node.Flush()` for the three node kinds. -/
def Node.flush : Node → DB → Node × DB
  | .hash hv, db => (.hash hv, db)
  | .data hv fl d, db => if fl then (.data hv fl d, db) else (.data hv true d, db.set hv d)
  | .branch hv fl l r, db =>
    if fl then (.branch hv fl l r, db)
    else
      let (l', db1) := l.flush db
      let (r', db2) := r.flush db1
      (.branch hv true l' r', db2.set hv (ser l'.hashOf r'.hashOf))

inductive Err | invalidDepth | resolveFailure | notFound
  deriving DecidableEq, Repr

/-- `Node.WitnessFor(depth, idx, w)`; the first component is the node to store
    back (`n.left, w, err = n.left.WitnessFor(...)`), with resolved children. -/
def witnessNode (db : DB) : Nat → Node → Nat → List Witness → Node × Except Err (List Witness)
  | 0, n, _, w =>
    match n with
    | .hash _ => (n, .ok w)
    | .data _ _ _ => (n, .ok w)
    | .branch _ _ _ _ => (n, .error .invalidDepth)
  | d + 1, n, idx, w =>
    let step (hv : Bytes) (fl : Bool) (l r : Node) : Node × Except Err (List Witness) :=
      let bound := 2 ^ d
      if idx < bound then
        match witnessNode db d l idx w with
        | (l', .ok w') => (.branch hv fl l' r, .ok (w' ++ [⟨.right, r.hashOf⟩]))
        | (l', .error e) => (.branch hv fl l' r, .error e)
      else
        match witnessNode db d r (idx - bound) w with
        | (r', .ok w') => (.branch hv fl l r', .ok (w' ++ [⟨.left, l.hashOf⟩]))
        | (r', .error e) => (.branch hv fl l r', .error e)
    match n with
    | .data _ _ _ => (n, .error .invalidDepth)
    | .hash hv =>
      match resolve db hv with
      | none => (n, .error .resolveFailure)
      | some (lh, rh) => step hv true (.hash lh) (.hash rh)
    | .branch hv fl l r => step hv fl l r

structure Acc where
  roots : List (Option Node) := []
  length : Nat := 0
  deriving Repr

/-- `addNode(h, n, w)` where `rs = a.roots[h:]`. Returns the new `roots[h:]` and the witness. -/
def addNode (H : Bytes → Bytes) : List (Option Node) → Node → List Witness → List (Option Node) × List Witness
  | [], n, w => ([some n], w)
  | none :: rest, n, w => (some n :: rest, w)
  | some root :: rest, n, w =>
    let (rest', w') := addNode H rest (mkBranch H root n) (w ++ [⟨.left, root.hashOf⟩])
    (none :: rest', w')

def Acc.addNode (H : Bytes → Bytes) (a : Acc) (n : Node) : Acc × List Witness :=
  let (rs, w) := C27.addNode H a.roots n []
  ({ roots := rs, length := a.length + 1 }, w)

def Acc.addHash (H : Bytes → Bytes) (a : Acc) (h : Bytes) : Acc × List Witness := a.addNode H (.hash h)
def Acc.addData (H : Bytes → Bytes) (a : Acc) (d : Bytes) : Acc × List Witness := a.addNode H (mkData H d)

def setAt {α} : List α → Nat → α → List α
  | [], _, _ => []
  | _ :: xs, 0, v => v :: xs
  | x :: xs, i + 1, v => x :: setAt xs i v

inductive WRes where
  | ok (w : List Witness)
  | err (e : Err)
  | panic
  deriving Repr

/-- the loop of `Accumulator.WitnessFor` (repaired): `offset` counts down, empty slots are skipped. -/
def witnessLoop (db : DB) (roots : List (Option Node)) : Nat → Nat → List (Option Node) × WRes
  | 0, _ => (roots, .err .notFound)
  | offset + 1, idx =>
    match roots[offset]? with
    | some (some root) =>
      let inbound := 2 ^ offset
      if idx < inbound then
        match witnessNode db offset root idx [] with
        | (root', .ok w) => (setAt roots offset (some root'), .ok w)
        | (root', .error e) => (setAt roots offset (some root'), .err e)
      else witnessLoop db roots offset (idx - inbound)
    | _ => witnessLoop db roots offset idx

/-- the loop as in the unrepaired code: an empty slot consumes index range and is dereferenced. -/
def witnessLoopOld (db : DB) (roots : List (Option Node)) : Nat → Nat → List (Option Node) × WRes
  | 0, _ => (roots, .err .notFound)
  | offset + 1, idx =>
    let inbound := 2 ^ offset
    if idx < inbound then
      match roots[offset]? with
      | some (some root) =>
        match witnessNode db offset root idx [] with
        | (root', .ok w) => (setAt roots offset (some root'), .ok w)
        | (root', .error e) => (setAt roots offset (some root'), .err e)
      | _ => (roots, .panic)
    else witnessLoopOld db roots offset (idx - inbound)

def Acc.witnessFor (db : DB) (a : Acc) (idx : Nat) : Acc × WRes :=
  if idx ≥ a.length then (a, .err .notFound)
  else
    let (rs, r) := witnessLoop db a.roots a.roots.length idx
    ({ a with roots := rs }, r)

def Acc.witnessForOld (db : DB) (a : Acc) (idx : Nat) : Acc × WRes :=
  if idx ≥ a.length then (a, .err .notFound)
  else
    let (rs, r) := witnessLoopOld db a.roots a.roots.length idx
    ({ a with roots := rs }, r)

/-- one iteration of the `Verify` loop: scratch buffer and running hash -/
def verifyStep (H : Bytes → Bytes) (st : Bytes × Bytes) (w : Witness) : Bytes × Bytes :=
  let (buf, h) := st
  let buf' := if w.dir = .left then copyAt (copyAt buf 0 w.hv) hashSize h
              else copyAt (copyAt buf 0 h) hashSize w.hv
  (buf', H buf')

def verifyFold (H : Bytes → Bytes) (ws : List Witness) (h : Bytes) : Bytes :=
  (ws.foldl (verifyStep H) (List.replicate (2 * hashSize) 0, h)).2

inductive VRes | ok | newer | invalid
  deriving DecidableEq, Repr

/-- `Accumulator.Verify` -/
def Acc.verify (H : Bytes → Bytes) (a : Acc) (ws : List Witness) (h : Bytes) : VRes :=
  let h' := verifyFold H ws h
  let height := ws.length
  if height ≥ a.roots.length then .newer
  else match a.roots[height]? with
    | some (some root) => if root.hashOf = h' then .ok else .invalid
    | _ => .newer

/-- decoded content of the JSON under `KeyForState` -/
structure Persisted where
  roots : List Bytes
  length : Nat
  deriving Repr

/-- the root loop of `Accumulator.Flush` (repaired: empty slot -> `null`) -/
def flushRoots : List (Option Node) → DB → List (Option Node) × List Bytes × DB
  | [], db => ([], [], db)
  | none :: rest, db =>
    let (rs, hs, db') := flushRoots rest db
    (none :: rs, [] :: hs, db')
  | some r :: rest, db =>
    let (r', db1) := r.flush db
    let (rs, hs, db') := flushRoots rest db1
    (some r' :: rs, r'.hashOf :: hs, db')

/-- unrepaired `Flush`: none when the nil slot is dereferenced (Go panics) -/
def flushRootsOld : List (Option Node) → DB → Option (List (Option Node) × List Bytes × DB)
  | [], db => some ([], [], db)
  | none :: _, _ => none
  | some r :: rest, db =>
    let (r', db1) := r.flush db
    match flushRootsOld rest db1 with
    | none => none
    | some (rs, hs, db') => some (some r' :: rs, r'.hashOf :: hs, db')

def Acc.flush (a : Acc) (db : DB) : Acc × DB × Persisted :=
  let (rs, hs, db') := flushRoots a.roots db
  ({ a with roots := rs }, db', { roots := hs, length := a.length })

/-- `Accumulator.Recover` from the stored state (none: key absent / empty value) -/
def recover (p : Option Persisted) : Acc :=
  match p with
  | none => {}
  | some s =>
    { roots := s.roots.map (fun hv =>
        if hv.length = 0 then none
        else if hv.length = hashSize then some (.hash hv) else none),
      length := s.length }

/-- `HashesToWitness` -/
def hashesToWitness : List Bytes → Nat → List Witness
  | [], _ => []
  | hv :: rest, idx => ⟨if idx % 2 = 0 then .right else .left, hv⟩ :: hashesToWitness rest (idx / 2)

def witnessesToHashes (ws : List Witness) : List Bytes := ws.map (·.hv)

end Goloop.C27
