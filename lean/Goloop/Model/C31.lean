/-
  Model/C31: the encrypted peer channel of network/secure.go, transcribed.

  `SecureAead.Write` cuts its argument into frames of at most 1024 bytes and
  sends, per frame, ONE `conn.Write` of
        len(2, big-endian)  0 0  Seal(nonce, frame)            (4 + len + Overhead bytes)
  then increments the nonce (big-endian counter with wrap-around).
  `SecureAead.Read(b)` (REPAIRED code, fix F7): serves the not yet returned rest
  of the last decrypted frame first; otherwise reads 4 header bytes (only the
  first two are used), `len+Overhead` sealed bytes, `Open`s them under the
  current nonce, increments the nonce, copies what fits into `b` and keeps the
  remainder.  `readOrig` is the code before the repair (returned the frame
  length and dropped what did not fit).

  The AEAD (cipher.AEAD: ChaCha20-Poly1305 / AES-GCM) is a parameter; its
  assumed behaviour appears as hypotheses of the theorems.  The connection is a
  flat byte string because both reads are `io.ReadFull` (chunking-independent).
-/
import Goloop.Base.Bytes
namespace Goloop.C31

structure Aead where
  sealF : Bytes → Bytes → Bytes → Bytes            -- key nonce plaintext ↦ ciphertext‖tag
  openF : Bytes → Bytes → Bytes → Option Bytes    -- key nonce sealed ↦ plaintext / authentication failure
  overhead : Nat
  nonceSize : Nat

def headerSize : Nat := 4
def frameSize : Nat := 1024

/-- `increaseNonce` on the reversed nonce (least significant byte first) -/
def incRev : Bytes → Bytes
  | [] => []
  | b :: r => if b + 1 ≠ 0 then (b + 1) :: r else 0 :: incRev r

/-- `increaseNonce` -/
def incNonce (n : Bytes) : Bytes := (incRev n.reverse).reverse

def nonceAt (n0 : Bytes) : Nat → Bytes
  | 0 => n0
  | j + 1 => incNonce (nonceAt n0 j)

/-- one direction of a SecureConn (`SecureAead`) -/
structure St where
  key : Bytes
  nonce : Bytes
  remain : Bytes     -- repaired code only: decrypted bytes of the current frame not yet returned
  deriving Repr, DecidableEq

def be16 (v : Nat) : Bytes := [UInt8.ofNat (v / 256 % 256), UInt8.ofNat (v % 256)]

/-- the bytes of one `conn.Write` of `SecureAead.Write` for the frame `fr` -/
def encodeFrame (A : Aead) (key nonce fr : Bytes) : Bytes :=
  be16 fr.length ++ [0, 0] ++ A.sealF key nonce fr

/-- the `for wn > n` loop of `Write` -/
def writeLoop (A : Aead) : Nat → St → Bytes → List Bytes → St × List Bytes
  | 0, st, _, acc => (st, acc)
  | fuel + 1, st, b, acc =>
    if b.isEmpty then (st, acc) else
    let fr := b.take frameSize
    writeLoop A fuel { st with nonce := incNonce st.nonce } (b.drop frameSize) (acc ++ [encodeFrame A st.key st.nonce fr])

/-- `SecureAead.Write(b)`: new state and the successive `conn.Write` arguments -/
def write (A : Aead) (st : St) (b : Bytes) : St × List Bytes := writeLoop A b.length st b []

inductive RErr where
  | eof     -- io.ReadFull failed (EOF / unexpected EOF)
  | auth    -- aead.Open failed
  deriving Repr, DecidableEq

/-- `SecureAead.Read(b)` with `len(b) = buflen`, repaired code. Result: bytes put into b, state, rest of the connection. -/
def read (A : Aead) (st : St) (wire : Bytes) (buflen : Nat) : Except RErr (Bytes × St × Bytes) :=
  if st.remain ≠ [] then
    .ok (st.remain.take buflen, { st with remain := st.remain.drop buflen }, wire)
  else if wire.length < headerSize then .error .eof
  else
    let n := beNat (wire.take 2)
    let rest := wire.drop headerSize
    if rest.length < n + A.overhead then .error .eof
    else match A.openF st.key st.nonce (rest.take (n + A.overhead)) with
      | none => .error .auth
      | some plain =>
        .ok (plain.take buflen, { st with nonce := incNonce st.nonce, remain := plain.drop buflen },
             rest.drop (n + A.overhead))

/-- the code before the repair: returns `n` = frame length (possibly > buflen) and the copied bytes; nothing is kept. -/
def readOrig (A : Aead) (st : St) (wire : Bytes) (buflen : Nat) : Except RErr (Nat × Bytes × St × Bytes) :=
  if wire.length < headerSize then .error .eof
  else
    let n := beNat (wire.take 2)
    let rest := wire.drop headerSize
    if rest.length < n + A.overhead then .error .eof
    else match A.openF st.key st.nonce (rest.take (n + A.overhead)) with
      | none => .error .auth
      | some plain =>
        .ok (n, (plain.take n).take buflen, { st with nonce := incNonce st.nonce }, rest.drop (n + A.overhead))

/-- successive writes through one `SecureAead`; the connection carries the concatenation -/
def writeMany (A : Aead) : St → List Bytes → St × Bytes
  | st, [] => (st, [])
  | st, b :: bs =>
    let (st1, ws) := write A st b
    let (st2, w) := writeMany A st1 bs
    (st2, ws.flatten ++ w)

structure ReadLog where
  outs : List Bytes
  err : Option RErr
  st : St
  wire : Bytes

/-- successive `Read`s with the given buffer sizes, stopping at the first error -/
def readMany (A : Aead) : St → Bytes → List Nat → ReadLog
  | st, wire, [] => ⟨[], none, st, wire⟩
  | st, wire, n :: ns =>
    match read A st wire n with
    | .error e => ⟨[], some e, st, wire⟩
    | .ok (out, st', wire') =>
      let r := readMany A st' wire' ns
      { r with outs := out :: r.outs }

/-! ### key direction (secureKey.setPeerPublicKey, NewSecureConn) -/

/-- `setPeerPublicKey`: the value of `k.isLower` afterwards (`init` = value before, false for a fresh key) -/
def isLowerAfter (own peer : Nat × Nat) (dflt : Bool) (init : Bool := false) : Bool :=
  if peer.1 > own.1 then true
  else if peer.1 = own.1 then
    if peer.2 > own.2 then true
    else if peer.2 = own.2 then dflt
    else init
  else init

/-- `NewSecureConn`: (inSecret, outSecret) -/
def selectSecrets (secrets : List Bytes) (isLower : Bool) : Option (Bytes × Bytes) :=
  match secrets with
  | s0 :: s1 :: _ => if isLower then some (s0, s1) else some (s1, s0)
  | [s0] => some (s0, s0)
  | [] => none

/-! ### a toy AEAD used by the executable driver and by the Go harness (injected into the real SecureAead) -/
namespace Toy

def sum64 (bs : Bytes) : UInt64 := bs.foldl (fun acc b => acc * 31 + b.toUInt64) 7

def be64 (v : UInt64) : Bytes :=
  [(v >>> 56).toUInt8, (v >>> 48).toUInt8, (v >>> 40).toUInt8, (v >>> 32).toUInt8,
   (v >>> 24).toUInt8, (v >>> 16).toUInt8, (v >>> 8).toUInt8, v.toUInt8]

def ks (key nonce : Bytes) (i : Nat) : UInt8 :=
  (if key.isEmpty then 0 else key.getD (i % key.length) 0) + nonce.getLastD 0

def tag (key nonce p : Bytes) : Bytes :=
  let t := be64 (sum64 (key ++ nonce ++ p))
  t ++ t

def sealF (key nonce p : Bytes) : Bytes := p.mapIdx (fun i b => b + ks key nonce i) ++ tag key nonce p

def openF (key nonce c : Bytes) : Option Bytes :=
  if c.length < 16 then none else
  let body := c.take (c.length - 16)
  let p := body.mapIdx (fun i b => b - ks key nonce i)
  if c.drop (c.length - 16) = tag key nonce p then some p else none

def aead : Aead := { sealF := sealF, openF := openF, overhead := 16, nonceSize := 12 }

end Toy
end Goloop.C31
