/-
  Base/Bytes: byte strings as `List UInt8`, hex text, big-endian naturals.
  Core-only (no Mathlib) so that drivers can be compiled as executables.
-/
namespace Goloop

abbrev Bytes := List UInt8

namespace Hex

def digit (n : Nat) : Char :=
  if n < 10 then Char.ofNat (48 + n) else Char.ofNat (87 + n)

def ofByte (b : UInt8) : List Char := [digit (b.toNat / 16), digit (b.toNat % 16)]

/-- lower-case hex of a byte string; the empty string is printed as "-" on the wire
    (see `encodeWire`) but as "" here. -/
def encode (bs : Bytes) : String := String.ofList (bs.flatMap ofByte)

def val (c : Char) : Option Nat :=
  if '0' ≤ c ∧ c ≤ '9' then some (c.toNat - 48)
  else if 'a' ≤ c ∧ c ≤ 'f' then some (c.toNat - 87)
  else if 'A' ≤ c ∧ c ≤ 'F' then some (c.toNat - 55)
  else none

def decodeChars : List Char → Option Bytes
  | [] => some []
  | [_] => none
  | a :: b :: rest =>
    match val a, val b, decodeChars rest with
    | some x, some y, some r => some (UInt8.ofNat (x * 16 + y) :: r)
    | _, _, _ => none

def decode (s : String) : Option Bytes := decodeChars s.toList

/-- wire form used by the line protocol: "-" stands for the empty byte string. -/
def encodeWire (bs : Bytes) : String := if bs.isEmpty then "-" else encode bs

def decodeWire (s : String) : Option Bytes := if s == "-" then some [] else decode s

end Hex

/-- big-endian value of a byte string -/
def beNat (bs : Bytes) : Nat := bs.foldl (fun acc b => acc * 256 + b.toNat) 0

theorem beNat_append_singleton (bs : Bytes) (b : UInt8) :
    beNat (bs ++ [b]) = beNat bs * 256 + b.toNat := by
  simp [beNat, List.foldl_append]

theorem foldl_beNat (acc : Nat) (bs : Bytes) :
    bs.foldl (fun acc b => acc * 256 + b.toNat) acc = acc * 256 ^ bs.length + beNat bs := by
  induction bs generalizing acc with
  | nil => simp [beNat]
  | cons x xs ih =>
    simp only [List.foldl_cons, List.length_cons, beNat]
    rw [ih, ih (0 * 256 + x.toNat)]
    simp [Nat.pow_succ, Nat.add_mul, Nat.mul_assoc, Nat.mul_comm 256, Nat.add_assoc]

theorem beNat_cons (b : UInt8) (bs : Bytes) :
    beNat (b :: bs) = b.toNat * 256 ^ bs.length + beNat bs := by
  have := foldl_beNat b.toNat bs
  simpa [beNat] using this

theorem beNat_lt (bs : Bytes) : beNat bs < 256 ^ bs.length := by
  induction bs with
  | nil => simp [beNat]
  | cons x xs ih =>
    rw [beNat_cons]
    simp only [List.length_cons, Nat.pow_succ]
    have := x.toNat_lt
    have h : x.toNat * 256 ^ xs.length ≤ 255 * 256 ^ xs.length := Nat.mul_le_mul_right _ (by omega)
    omega

end Goloop
