/-
  Base/Rlp: the byte-level RLP dialect of goloop (`common/codec/rlp.go`), core Lean only.

  ============================== API (stable) ==============================
  namespace Goloop.Rlp

  inductive Item | bytes (b : Bytes) | list (xs : List Item) | nil
      nil is this repo's null: the two bytes `f8 00` (rlp.go `nullSequence`); it is
      distinct from the empty string `80` and from the empty list `c0`.

  -- sizes (intconv.SizeToBytes / SafeBytesToSize as used by rlp.go)
  sizeToBytes  : Nat → Bytes          minimal big-endian, `[0]` for 0, 8-iteration loop
  bytesToSize  : Bytes → Option Nat   ≤ 8 bytes, any leading zeros, value ≤ maxInt = 2^63-1
  maxInt       : Nat := 2^63 - 1

  -- encoder (rlpWriter.writeBytes / writeList / writeNull)
  encodeLen    (base l : Nat) : Bytes    header for a payload of l bytes, base = 0x80 | 0xC0
  encodeBytes  (b : Bytes) : Bytes       `[x]` for one byte < 0x80, else header ++ b
  encodeList   (payload : Bytes) : Bytes header(0xC0) ++ payload (payload = concatenated items)
  encodeNil    : Bytes := [0xf8, 0]
  encode       : Item → Bytes
  encodeItems  : List Item → Bytes       concatenation of `encode`

  -- decoder (structure of rlpReader.readBytes / readList; accepts exactly the item forms the
  -- reader accepts, including non-minimal size bytes; `f8 00` is nil; split-first, i.e. an
  -- item whose declared size exceeds the input is rejected)
  inductive Hdr | single (b : UInt8) | str (n : Nat) | lst (n : Nat) | null
  decodeHdr    : Bytes → Option (Hdr × Bytes)       header, rest after header
  splitAt?     : Nat → Bytes → Option (Bytes × Bytes)
  decodeItem   : Bytes → Option (Item × Bytes)      one item, remaining input
  decodeItems  : Bytes → Option (List Item)         a whole payload
  decodeItemF / decodeItemsF : fuelled versions (fuel ≥ `need v`; `2 * length + 2` always suffices)

  -- size side condition: Go lengths are `int`s; the reader rejects sizes > maxInt
  Item.Small : Item → Prop     every byte string and every list payload is ≤ maxInt long
  ItemsSmall : List Item → Prop
  small_of_encode_length : (encode v).length ≤ maxInt → v.Small

  -- theorems
  sizeToBytes_spec        0 < v < 2^64 → 1 ≤ length ≤ 8 ∧ beNat = v ∧ no leading zero
  bytesToSize_sizeToBytes v ≤ maxInt → bytesToSize (sizeToBytes v) = some v
  encodeLen_length_le     (encodeLen base l).length ≤ 9 ; = 1 when l ≤ 55
  encodeLen_ne_nil / encode_ne_nil / encode_length_pos
  encodeBytes_length_le   (encodeBytes b).length ≤ b.length + 9
  encodeBytes_short       b.length ≤ 55 → (encodeBytes b).length ≤ b.length + 1
  encode_head_bytes       head of `encodeBytes b` is < 0xC0 ; encode_head_list: head of a list ≥ 0xC0
  decodeHdr_encodeLen_str / decodeHdr_encodeLen_lst   header round trips
  decodeItem_encode       v.Small → decodeItem (encode v ++ rest) = some (v, rest)
  decodeItems_encodeItems ItemsSmall xs → decodeItems (encodeItems xs) = some xs
  encode_prefix_free      Small a, Small b, encode a ++ r1 = encode b ++ r2 → a = b ∧ r1 = r2
  encode_injective        Small a, Small b, encode a = encode b → a = b
  encodeItems_injective   same for item sequences
  decodeItem_rest_length  decodeItem b = some (v, r) → r.length < b.length   (progress)
  ===========================================================================
-/
import Goloop.Base.Bytes
namespace Goloop.Rlp
open Goloop

inductive Item where
  | bytes (b : Bytes)
  | list (xs : List Item)
  | nil
  deriving Repr, Inhabited

def maxInt : Nat := 2 ^ 63 - 1

/-! ### sizes -/

def byteOfNat (v : Nat) : UInt8 := UInt8.ofNat (v % 256)

/-- `intconv.SizeToBytes` loop -/
def sizeLoop : Nat → Nat → Bytes → Bytes
  | 0, _, acc => acc
  | fuel + 1, v, acc =>
    let acc' := byteOfNat v :: acc
    let v' := v / 256
    if v' = 0 then acc' else sizeLoop fuel v' acc'

def sizeToBytes (v : Nat) : Bytes :=
  if v = 0 then [0] else sizeLoop 8 v []

/-- `intconv.SafeBytesToSize` (`int` is 64 bit) -/
def bytesToSize (bs : Bytes) : Option Nat :=
  if bs.length > 8 then none
  else if beNat bs > maxInt then none else some (beNat bs)

/-! ### encoder -/

def encodeLen (base l : Nat) : Bytes :=
  if l ≤ 55 then [UInt8.ofNat (base + l)]
  else
    let sz := sizeToBytes l
    UInt8.ofNat (base + 55 + sz.length) :: sz

/-- `rlpWriter.writeBytes` for a non-nil slice -/
def encodeBytes (b : Bytes) : Bytes :=
  match b with
  | [x] => if x.toNat < 0x80 then [x] else encodeLen 0x80 1 ++ [x]
  | _ => encodeLen 0x80 b.length ++ b

/-- `rlpWriter.writeList` -/
def encodeList (payload : Bytes) : Bytes := encodeLen 0xC0 payload.length ++ payload

/-- `nullSequence` -/
def encodeNil : Bytes := [0xf8, 0]

mutual
def encode : Item → Bytes
  | .bytes b => encodeBytes b
  | .nil => encodeNil
  | .list xs => encodeList (encodeItems xs)
def encodeItems : List Item → Bytes
  | [] => []
  | x :: xs => encode x ++ encodeItems xs
end

/-! ### decoder -/

inductive Hdr where
  | single (b : UInt8)
  | str (n : Nat)
  | lst (n : Nat)
  | null
  deriving Repr, DecidableEq

def splitAt? (n : Nat) (b : Bytes) : Option (Bytes × Bytes) :=
  if n ≤ b.length then some (b.take n, b.drop n) else none

/-- one item header: the tag switch shared by readBytes / readList / skipOne / ReadRaw -/
def decodeHdr : Bytes → Option (Hdr × Bytes)
  | [] => none
  | t :: r =>
    let tag := t.toNat
    if tag < 0x80 then some (.single t, r)
    else if tag ≤ 0xB7 then some (.str (tag - 0x80), r)
    else if tag < 0xC0 then
      match splitAt? (tag - 0xB7) r with
      | none => none
      | some (szb, r1) =>
        match bytesToSize szb with
        | none => none
        | some n => some (.str n, r1)
    else if tag ≤ 0xF7 then some (.lst (tag - 0xC0), r)
    else
      match splitAt? (tag - 0xF7) r with
      | none => none
      | some (szb, r1) =>
        match bytesToSize szb with
        | none => none
        | some n => if tag = 0xF8 ∧ n = 0 then some (.null, r1) else some (.lst n, r1)

mutual
def decodeItemF : Nat → Bytes → Option (Item × Bytes)
  | 0, _ => none
  | fuel + 1, b =>
    match decodeHdr b with
    | none => none
    | some (.single t, r) => some (.bytes [t], r)
    | some (.null, r) => some (.nil, r)
    | some (.str n, r) =>
      match splitAt? n r with
      | none => none
      | some (p, r') => some (.bytes p, r')
    | some (.lst n, r) =>
      match splitAt? n r with
      | none => none
      | some (p, r') =>
        match decodeItemsF fuel p with
        | none => none
        | some xs => some (.list xs, r')
def decodeItemsF : Nat → Bytes → Option (List Item)
  | _, [] => some []
  | 0, _ :: _ => none
  | fuel + 1, b@(_ :: _) =>
    match decodeItemF fuel b with
    | none => none
    | some (x, r) =>
      match decodeItemsF fuel r with
      | none => none
      | some xs => some (x :: xs)
end

def decodeItem (b : Bytes) : Option (Item × Bytes) := decodeItemF (2 * b.length + 2) b
def decodeItems (b : Bytes) : Option (List Item) := decodeItemsF (2 * b.length + 2) b

/-! ### size side condition -/

mutual
def Item.Small : Item → Prop
  | .bytes b => b.length ≤ maxInt
  | .nil => True
  | .list xs => ItemsSmall xs ∧ (encodeItems xs).length ≤ maxInt
def ItemsSmall : List Item → Prop
  | [] => True
  | x :: xs => x.Small ∧ ItemsSmall xs
end

mutual
def need : Item → Nat
  | .bytes _ => 1
  | .nil => 1
  | .list xs => 1 + needs xs
def needs : List Item → Nat
  | [] => 0
  | x :: xs => 1 + max (need x) (needs xs)
end

/-! ### size lemmas -/

theorem byteOfNat_toNat (v : Nat) : (byteOfNat v).toNat = v % 256 := by
  simp [byteOfNat]

theorem sizeLoop_spec : ∀ (f v : Nat) (acc : Bytes), v ≠ 0 → v < 256 ^ f →
    ∃ pre, sizeLoop f v acc = pre ++ acc ∧ pre.length ≤ f ∧ pre ≠ [] ∧ beNat pre = v ∧ pre.head? ≠ some 0
  | 0, v, acc, h0, hlt => by simp at hlt; omega
  | f + 1, v, acc, h0, hlt => by
    unfold sizeLoop
    by_cases hz : v / 256 = 0
    · simp only [hz, if_true]
      refine ⟨[byteOfNat v], rfl, by simp, by simp, ?_, ?_⟩
      · simp [beNat, byteOfNat_toNat]; omega
      · simp only [List.head?_cons]
        intro hc
        have : (byteOfNat v).toNat = 0 := by
          have := Option.some.inj hc; rw [this]; rfl
        rw [byteOfNat_toNat] at this; omega
    · simp only [hz, if_false]
      have hlt' : v / 256 < 256 ^ f := by
        rw [Nat.pow_succ] at hlt; omega
      obtain ⟨pre, he, hl, hne, hv, hh⟩ := sizeLoop_spec f (v / 256) (byteOfNat v :: acc) hz hlt'
      refine ⟨pre ++ [byteOfNat v], by simp [he], by simp; omega, by simp, ?_, ?_⟩
      · rw [beNat_append_singleton, hv, byteOfNat_toNat]; omega
      · cases pre with
        | nil => exact absurd rfl hne
        | cons a as => simpa using hh

theorem sizeToBytes_spec (v : Nat) (h0 : v ≠ 0) (h : v < 2 ^ 64) :
    1 ≤ (sizeToBytes v).length ∧ (sizeToBytes v).length ≤ 8 ∧ beNat (sizeToBytes v) = v ∧
      (sizeToBytes v).head? ≠ some 0 := by
  unfold sizeToBytes
  simp only [h0, if_false]
  have hlt : v < 256 ^ 8 := by
    have : (256 : Nat) ^ 8 = 2 ^ 64 := by decide
    omega
  obtain ⟨pre, he, hl, hne, hv, hh⟩ := sizeLoop_spec 8 v [] h0 hlt
  simp only [List.append_nil] at he
  rw [he]
  refine ⟨?_, hl, hv, hh⟩
  cases pre with
  | nil => exact absurd rfl hne
  | cons a as => simp

theorem sizeToBytes_length (v : Nat) (h : v < 2 ^ 64) :
    1 ≤ (sizeToBytes v).length ∧ (sizeToBytes v).length ≤ 8 := by
  by_cases h0 : v = 0
  · subst h0; simp [sizeToBytes]
  · have := sizeToBytes_spec v h0 h; omega

theorem maxInt_lt : maxInt < 2 ^ 64 := by decide

theorem bytesToSize_sizeToBytes (v : Nat) (h : v ≤ maxInt) :
    bytesToSize (sizeToBytes v) = some v := by
  have h64 : v < 2 ^ 64 := Nat.lt_of_le_of_lt h maxInt_lt
  by_cases h0 : v = 0
  · subst h0; simp [sizeToBytes, bytesToSize, beNat]
  · obtain ⟨_, hl, hv, _⟩ := sizeToBytes_spec v h0 h64
    unfold bytesToSize
    have h1 : ¬ (sizeToBytes v).length > 8 := by omega
    have h2 : ¬ beNat (sizeToBytes v) > maxInt := by omega
    rw [if_neg h1, if_neg h2, hv]

/-! ### header lemmas -/

theorem encodeLen_length_le (base l : Nat) (h : l < 2 ^ 64) : (encodeLen base l).length ≤ 9 := by
  unfold encodeLen
  split
  · simp
  · have := sizeToBytes_length l h
    simp; omega

theorem encodeLen_length_short (base l : Nat) (h : l ≤ 55) : (encodeLen base l).length = 1 := by
  simp [encodeLen, h]

theorem encodeLen_ne_nil (base l : Nat) : encodeLen base l ≠ [] := by
  unfold encodeLen; split <;> simp

theorem splitAt?_append (a b : Bytes) : splitAt? a.length (a ++ b) = some (a, b) := by
  simp [splitAt?]

theorem splitAt?_length {n : Nat} {b p r : Bytes} (h : splitAt? n b = some (p, r)) :
    p.length = n ∧ b = p ++ r := by
  unfold splitAt? at h
  split at h
  · simp only [Option.some.injEq, Prod.mk.injEq] at h
    obtain ⟨h1, h2⟩ := h
    subst h1; subst h2
    constructor
    · simp; omega
    · simp
  · simp at h

private theorem ofNat_toNat_lt (n : Nat) (h : n < 256) : (UInt8.ofNat n).toNat = n := by
  simp [Nat.mod_eq_of_lt h]

theorem decodeHdr_encodeLen_str (l : Nat) (h : l ≤ maxInt) (r : Bytes) :
    decodeHdr (encodeLen 0x80 l ++ r) = some (.str l, r) := by
  have h64 : l < 2 ^ 64 := Nat.lt_of_le_of_lt h maxInt_lt
  unfold encodeLen
  by_cases hs : l ≤ 55
  · simp only [hs, if_true, List.cons_append, List.nil_append, decodeHdr]
    have : (UInt8.ofNat (0x80 + l)).toNat = 0x80 + l := ofNat_toNat_lt _ (by omega)
    rw [this]
    have h1 : ¬ (0x80 + l < 0x80) := by omega
    have h2 : 0x80 + l ≤ 0xB7 := by omega
    have h5 : 0x80 + l - 0x80 = l := by omega
    simp only [h1, h2, if_true, if_false, h5]
  · simp only [hs, if_false, List.cons_append, decodeHdr]
    have hl := sizeToBytes_length l h64
    have : (UInt8.ofNat (0x80 + 55 + (sizeToBytes l).length)).toNat = 0x80 + 55 + (sizeToBytes l).length :=
      ofNat_toNat_lt _ (by omega)
    rw [this]
    have h1 : ¬ (0x80 + 55 + (sizeToBytes l).length < 0x80) := by omega
    have h2 : ¬ (0x80 + 55 + (sizeToBytes l).length ≤ 0xB7) := by omega
    have h3 : 0x80 + 55 + (sizeToBytes l).length < 0xC0 := by omega
    simp only [h1, h2, h3, if_true, if_false]
    have h4 : 0x80 + 55 + (sizeToBytes l).length - 0xB7 = (sizeToBytes l).length := by omega
    rw [h4, splitAt?_append]
    simp only [bytesToSize_sizeToBytes l h]

theorem decodeHdr_encodeLen_lst (l : Nat) (h : l ≤ maxInt) (r : Bytes) :
    decodeHdr (encodeLen 0xC0 l ++ r) = some (.lst l, r) := by
  have h64 : l < 2 ^ 64 := Nat.lt_of_le_of_lt h maxInt_lt
  unfold encodeLen
  by_cases hs : l ≤ 55
  · simp only [hs, if_true, List.cons_append, List.nil_append, decodeHdr]
    have : (UInt8.ofNat (0xC0 + l)).toNat = 0xC0 + l := ofNat_toNat_lt _ (by omega)
    rw [this]
    have h1 : ¬ (0xC0 + l < 0x80) := by omega
    have h2 : ¬ (0xC0 + l ≤ 0xB7) := by omega
    have h3 : ¬ (0xC0 + l < 0xC0) := by omega
    have h4 : 0xC0 + l ≤ 0xF7 := by omega
    have h5 : 0xC0 + l - 0xC0 = l := by omega
    simp only [h1, h2, h3, h4, if_true, if_false, h5]
  · simp only [hs, if_false, List.cons_append, decodeHdr]
    have hl := sizeToBytes_length l h64
    have : (UInt8.ofNat (0xC0 + 55 + (sizeToBytes l).length)).toNat = 0xC0 + 55 + (sizeToBytes l).length :=
      ofNat_toNat_lt _ (by omega)
    rw [this]
    have h1 : ¬ (0xC0 + 55 + (sizeToBytes l).length < 0x80) := by omega
    have h2 : ¬ (0xC0 + 55 + (sizeToBytes l).length ≤ 0xB7) := by omega
    have h3 : ¬ (0xC0 + 55 + (sizeToBytes l).length < 0xC0) := by omega
    have h4 : ¬ (0xC0 + 55 + (sizeToBytes l).length ≤ 0xF7) := by omega
    simp only [h1, h2, h3, h4, if_false]
    have h5 : 0xC0 + 55 + (sizeToBytes l).length - 0xF7 = (sizeToBytes l).length := by omega
    rw [h5, splitAt?_append]
    simp only [bytesToSize_sizeToBytes l h]
    have h6 : ¬ (0xC0 + 55 + (sizeToBytes l).length = 0xF8 ∧ l = 0) := by omega
    simp only [h6, if_false]

theorem decodeHdr_encodeNil (r : Bytes) : decodeHdr (encodeNil ++ r) = some (.null, r) := by
  simp [encodeNil, decodeHdr, splitAt?, bytesToSize, beNat, maxInt]

theorem decodeHdr_single (x : UInt8) (h : x.toNat < 0x80) (r : Bytes) :
    decodeHdr (x :: r) = some (.single x, r) := by
  simp [decodeHdr, h]


/-! ### encoder facts -/

theorem encodeBytes_cases (b : Bytes) :
    (∃ x, b = [x] ∧ x.toNat < 0x80 ∧ encodeBytes b = [x]) ∨
      encodeBytes b = encodeLen 0x80 b.length ++ b := by
  unfold encodeBytes
  split
  · rename_i x
    by_cases h : x.toNat < 0x80
    · left; exact ⟨x, rfl, h, by simp [h]⟩
    · right; simp [h]
  · right; rfl

theorem encodeBytes_ne_nil (b : Bytes) : encodeBytes b ≠ [] := by
  rcases encodeBytes_cases b with ⟨x, _, _, h⟩ | h
  · rw [h]; simp
  · rw [h]; intro hc
    have := encodeLen_ne_nil 0x80 b.length
    simp at hc; exact this hc.1

theorem encodeList_ne_nil (p : Bytes) : encodeList p ≠ [] := by
  unfold encodeList; intro hc
  have := encodeLen_ne_nil 0xC0 p.length
  simp at hc; exact this hc.1

theorem encode_ne_nil (v : Item) : encode v ≠ [] := by
  cases v with
  | bytes b => simp only [encode]; exact encodeBytes_ne_nil b
  | nil => simp [encode, encodeNil]
  | list xs => simp only [encode]; exact encodeList_ne_nil _

theorem encode_length_pos (v : Item) : 0 < (encode v).length := by
  have := encode_ne_nil v
  cases h : encode v with
  | nil => exact absurd h this
  | cons a as => simp

theorem encodeBytes_length_le (b : Bytes) (h : b.length < 2 ^ 64) :
    (encodeBytes b).length ≤ b.length + 9 := by
  rcases encodeBytes_cases b with ⟨x, hb, _, he⟩ | he
  · rw [he, hb]; simp
  · rw [he]; have := encodeLen_length_le 0x80 b.length h; simp; omega

theorem encodeBytes_short (b : Bytes) (h : b.length ≤ 55) :
    (encodeBytes b).length ≤ b.length + 1 := by
  rcases encodeBytes_cases b with ⟨x, hb, _, he⟩ | he
  · rw [he, hb]; simp
  · rw [he]; have := encodeLen_length_short 0x80 b.length h; simp; omega

theorem encodeList_length_le (p : Bytes) (h : p.length < 2 ^ 64) :
    (encodeList p).length ≤ p.length + 9 := by
  unfold encodeList
  have := encodeLen_length_le 0xC0 p.length h; simp; omega

theorem encodeList_short (p : Bytes) (h : p.length ≤ 55) :
    (encodeList p).length = p.length + 1 := by
  unfold encodeList
  have := encodeLen_length_short 0xC0 p.length h; simp; omega

theorem encodeList_length_ge (p : Bytes) : p.length + 1 ≤ (encodeList p).length := by
  unfold encodeList
  have := encodeLen_ne_nil 0xC0 p.length
  cases h : encodeLen 0xC0 p.length with
  | nil => exact absurd h this
  | cons a as => simp only [List.cons_append, List.length_cons, List.length_append]; omega

theorem encodeBytes_length_ge (b : Bytes) : b.length ≤ (encodeBytes b).length := by
  rcases encodeBytes_cases b with ⟨x, hb, _, he⟩ | he
  · rw [he, hb]; simp
  · rw [he]; simp

/-- the first byte of an encoded byte string is below 0xC0 -/
theorem encode_head_bytes (b : Bytes) (h : b.length < 2 ^ 64) :
    ∃ t r, encodeBytes b = t :: r ∧ t.toNat < 0xC0 := by
  rcases encodeBytes_cases b with ⟨x, hb, hx, he⟩ | he
  · exact ⟨x, [], he, by omega⟩
  · rw [he]; unfold encodeLen
    by_cases hs : b.length ≤ 55
    · refine ⟨_, _, by simp only [hs, if_true, List.cons_append]; rfl, ?_⟩
      rw [ofNat_toNat_lt _ (by omega)]; omega
    · have hl := sizeToBytes_length b.length h
      refine ⟨_, _, by simp only [hs, if_false, List.cons_append]; rfl, ?_⟩
      rw [ofNat_toNat_lt _ (by omega)]; omega

/-- the first byte of an encoded list is at least 0xC0 -/
theorem encode_head_list (p : Bytes) (h : p.length < 2 ^ 64) :
    ∃ t r, encodeList p = t :: r ∧ 0xC0 ≤ t.toNat := by
  unfold encodeList encodeLen
  by_cases hs : p.length ≤ 55
  · refine ⟨_, _, by simp only [hs, if_true, List.cons_append]; rfl, ?_⟩
    rw [ofNat_toNat_lt _ (by omega)]; omega
  · have hl := sizeToBytes_length p.length h
    refine ⟨_, _, by simp only [hs, if_false, List.cons_append]; rfl, ?_⟩
    rw [ofNat_toNat_lt _ (by omega)]; omega

/-! ### round trip -/

mutual
theorem need_le : ∀ v : Item, need v + 1 ≤ 2 * (encode v).length
  | .bytes b => by
    have := encode_length_pos (.bytes b); simp only [need]; omega
  | .nil => by simp [need, encode, encodeNil]
  | .list xs => by
    have h1 := needs_le xs
    have h2 := encodeList_length_ge (encodeItems xs)
    simp only [need, encode]; omega
theorem needs_le : ∀ xs : List Item, needs xs ≤ 2 * (encodeItems xs).length
  | [] => by simp [needs]
  | x :: xs => by
    have h1 := need_le x
    have h2 := needs_le xs
    have h3 := encode_length_pos x
    simp only [needs, encodeItems, List.length_append]; omega
end

mutual
theorem decodeItemF_encode : ∀ (v : Item) (fuel : Nat) (rest : Bytes), v.Small → need v ≤ fuel →
    decodeItemF fuel (encode v ++ rest) = some (v, rest)
  | .bytes b, fuel, rest, hs, hf => by
    cases fuel with
    | zero => simp [need] at hf
    | succ fuel =>
      simp only [Item.Small] at hs
      simp only [encode, decodeItemF]
      rcases encodeBytes_cases b with ⟨x, hb, hx, he⟩ | he
      · rw [he, hb]; simp only [List.cons_append, List.nil_append]
        rw [decodeHdr_single x hx]
      · rw [he, List.append_assoc, decodeHdr_encodeLen_str _ hs]
        simp only [splitAt?_append]
  | .nil, fuel, rest, _, hf => by
    cases fuel with
    | zero => simp [need] at hf
    | succ fuel =>
      simp only [encode, decodeItemF, decodeHdr_encodeNil]
  | .list xs, fuel, rest, hs, hf => by
    cases fuel with
    | zero => simp [need] at hf
    | succ fuel =>
      simp only [Item.Small] at hs
      simp only [need] at hf
      simp only [encode, encodeList, decodeItemF]
      rw [List.append_assoc, decodeHdr_encodeLen_lst _ hs.2]
      simp only [splitAt?_append]
      rw [decodeItemsF_encode xs fuel hs.1 (by omega)]
theorem decodeItemsF_encode : ∀ (xs : List Item) (fuel : Nat), ItemsSmall xs → needs xs ≤ fuel →
    decodeItemsF fuel (encodeItems xs) = some xs
  | [], fuel, _, _ => by simp [encodeItems, decodeItemsF]
  | x :: xs, fuel, hs, hf => by
    simp only [ItemsSmall] at hs
    simp only [needs] at hf
    cases fuel with
    | zero => omega
    | succ fuel =>
      simp only [encodeItems]
      have hne := encode_ne_nil x
      cases hx : encode x with
      | nil => exact absurd hx hne
      | cons a as =>
        simp only [List.cons_append, decodeItemsF]
        have h1 := decodeItemF_encode x fuel (encodeItems xs) hs.1 (by omega)
        rw [hx] at h1
        simp only [List.cons_append] at h1
        rw [h1]
        simp only [decodeItemsF_encode xs fuel hs.2 (by omega)]
end

/-- decode ∘ encode = id, with any trailing bytes left untouched. -/
theorem decodeItem_encode (v : Item) (rest : Bytes) (hs : v.Small) :
    decodeItem (encode v ++ rest) = some (v, rest) := by
  unfold decodeItem
  apply decodeItemF_encode v _ rest hs
  have := need_le v
  simp only [List.length_append]; omega

theorem decodeItems_encodeItems (xs : List Item) (hs : ItemsSmall xs) :
    decodeItems (encodeItems xs) = some xs := by
  unfold decodeItems
  apply decodeItemsF_encode xs _ hs
  have := needs_le xs
  omega

/-- prefix-freeness: an encoding followed by anything determines the item and the rest. -/
theorem encode_prefix_free (a b : Item) (r1 r2 : Bytes) (ha : a.Small) (hb : b.Small)
    (h : encode a ++ r1 = encode b ++ r2) : a = b ∧ r1 = r2 := by
  have h1 := decodeItem_encode a r1 ha
  have h2 := decodeItem_encode b r2 hb
  rw [h, h2] at h1
  simp only [Option.some.injEq, Prod.mk.injEq] at h1
  exact ⟨h1.1.symm, h1.2.symm⟩

theorem encode_injective (a b : Item) (ha : a.Small) (hb : b.Small) (h : encode a = encode b) :
    a = b := by
  have := encode_prefix_free a b [] [] ha hb (by simp [h])
  exact this.1

theorem encodeItems_injective (xs ys : List Item) (hx : ItemsSmall xs) (hy : ItemsSmall ys)
    (h : encodeItems xs = encodeItems ys) : xs = ys := by
  have h1 := decodeItems_encodeItems xs hx
  have h2 := decodeItems_encodeItems ys hy
  rw [h, h2] at h1
  exact (Option.some.inj h1).symm

/-- nil, the empty string and the empty list have three different encodings. -/
theorem nil_empty_distinct :
    encode .nil = [0xf8, 0] ∧ encode (.bytes []) = [0x80] ∧ encode (.list []) = [0xc0] := by
  refine ⟨rfl, ?_, ?_⟩
  · simp [encode, encodeBytes, encodeLen]
  · simp [encode, encodeItems, encodeList, encodeLen]

/-! ### size side condition from the encoded length -/

mutual
theorem small_of_encode_length : ∀ v : Item, (encode v).length ≤ maxInt → v.Small
  | .bytes b, h => by
    have := encodeBytes_length_ge b
    simp only [encode] at h; simp only [Item.Small]; omega
  | .nil, _ => by simp [Item.Small]
  | .list xs, h => by
    have h1 := encodeList_length_ge (encodeItems xs)
    simp only [encode] at h
    simp only [Item.Small]
    exact ⟨smalls_of_encode_length xs (by omega), by omega⟩
theorem smalls_of_encode_length : ∀ xs : List Item, (encodeItems xs).length ≤ maxInt → ItemsSmall xs
  | [], _ => by simp [ItemsSmall]
  | x :: xs, h => by
    simp only [encodeItems, List.length_append] at h
    simp only [ItemsSmall]
    exact ⟨small_of_encode_length x (by omega), smalls_of_encode_length xs (by omega)⟩
end

/-! ### progress of the decoder -/

theorem decodeHdr_rest_length {b r : Bytes} {h : Hdr} (hd : decodeHdr b = some (h, r)) :
    r.length < b.length := by
  cases b with
  | nil => simp [decodeHdr] at hd
  | cons t rr =>
    simp only [decodeHdr] at hd
    split at hd
    · simp only [Option.some.injEq, Prod.mk.injEq] at hd; rw [← hd.2]; simp
    · split at hd
      · simp only [Option.some.injEq, Prod.mk.injEq] at hd; rw [← hd.2]; simp
      · split at hd
        · split at hd
          · simp at hd
          · rename_i szb r1 hsp
            have := splitAt?_length hsp
            split at hd
            · simp at hd
            · simp only [Option.some.injEq, Prod.mk.injEq] at hd
              rw [← hd.2, this.2]; simp; omega
        · split at hd
          · simp only [Option.some.injEq, Prod.mk.injEq] at hd; rw [← hd.2]; simp
          · split at hd
            · simp at hd
            · rename_i szb r1 hsp
              have := splitAt?_length hsp
              split at hd
              · simp at hd
              · split at hd <;>
                · simp only [Option.some.injEq, Prod.mk.injEq] at hd
                  rw [← hd.2, this.2]; simp; omega

theorem decodeItemF_rest_length {fuel : Nat} {b r : Bytes} {v : Item}
    (hd : decodeItemF fuel b = some (v, r)) : r.length < b.length := by
  cases fuel with
  | zero => simp [decodeItemF] at hd
  | succ fuel =>
    simp only [decodeItemF] at hd
    split at hd
    · simp at hd
    · rename_i t r0 hh
      have := decodeHdr_rest_length hh
      simp only [Option.some.injEq, Prod.mk.injEq] at hd; rw [← hd.2]; exact this
    · rename_i r0 hh
      have := decodeHdr_rest_length hh
      simp only [Option.some.injEq, Prod.mk.injEq] at hd; rw [← hd.2]; exact this
    · rename_i n r0 hh
      have := decodeHdr_rest_length hh
      split at hd
      · simp at hd
      · rename_i p r' hsp
        have h2 := splitAt?_length hsp
        simp only [Option.some.injEq, Prod.mk.injEq] at hd
        rw [← hd.2]; rw [h2.2] at this; simp at this; omega
    · rename_i n r0 hh
      have := decodeHdr_rest_length hh
      split at hd
      · simp at hd
      · rename_i p r' hsp
        have h2 := splitAt?_length hsp
        split at hd
        · simp at hd
        · simp only [Option.some.injEq, Prod.mk.injEq] at hd
          rw [← hd.2]; rw [h2.2] at this; simp at this; omega

theorem decodeItem_rest_length {b r : Bytes} {v : Item} (hd : decodeItem b = some (v, r)) :
    r.length < b.length := decodeItemF_rest_length hd

end Goloop.Rlp
