/-
  Base/Proto: one-line-in / one-line-out loop used by every model driver.
-/
import Goloop.Base.Bytes
namespace Goloop.Proto

partial def loop {σ : Type} (hin hout : IO.FS.Stream) (step : σ → List String → σ × String) (s : σ) : IO Unit := do
  let line ← hin.getLine
  if line.isEmpty then
    hout.flush
    return ()
  let toks := (line.trimAscii.toString.splitOn " ").filter (· ≠ "")
  let (s', out) := step s toks
  hout.putStrLn out
  loop hin hout step s'

def run {σ : Type} (step : σ → List String → σ × String) (init : σ) : IO Unit := do
  let hin ← IO.getStdin
  let hout ← IO.getStdout
  loop hin hout step init

def natOf (s : String) : Option Nat := s.toNat?

def intOf (s : String) : Option Int := s.toInt?

end Goloop.Proto
