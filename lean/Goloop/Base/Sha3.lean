/-
  Base/Sha3: executable SHA3-256 (FIPS 202; Keccak-f[1600], rate 136, suffix 0x06)
  so that model drivers can compute the same digests as `crypto.SHA3Sum256`.
  API:  `Goloop.sha3_256 : Bytes → Bytes`   (32-byte digest)
  Core Lean only. No theorem depends on this file: in theorems the hash is a
  parameter; this instance is validated against the Go implementation by the
  correspondence runs that use it (and by the test vectors below).
-/
import Goloop.Base.Bytes
namespace Goloop
namespace Keccak

def rc : Array UInt64 := #[
  0x0000000000000001, 0x0000000000008082, 0x800000000000808A, 0x8000000080008000,
  0x000000000000808B, 0x0000000080000001, 0x8000000080008081, 0x8000000000008009,
  0x000000000000008A, 0x0000000000000088, 0x0000000080008009, 0x000000008000000A,
  0x000000008000808B, 0x800000000000008B, 0x8000000000008089, 0x8000000000008003,
  0x8000000000008002, 0x8000000000000080, 0x000000000000800A, 0x800000008000000A,
  0x8000000080008081, 0x8000000000008080, 0x0000000080000001, 0x8000000080008008]

/-- rotation offsets, index x + 5*y -/
def rot : Array Nat := #[
  0, 1, 62, 28, 27,
  36, 44, 6, 55, 20,
  3, 10, 43, 25, 39,
  41, 45, 15, 21, 8,
  18, 2, 61, 56, 14]

@[inline] def rotl (x : UInt64) (n : Nat) : UInt64 :=
  if n % 64 = 0 then x else (x <<< (UInt64.ofNat (n % 64))) ||| (x >>> (UInt64.ofNat (64 - n % 64)))

@[inline] def get (a : Array UInt64) (i : Nat) : UInt64 := a.getD i 0

def round (a : Array UInt64) (ir : Nat) : Array UInt64 :=
  -- theta
  let c : Array UInt64 := (Array.range 5).map fun x =>
    get a x ^^^ get a (x + 5) ^^^ get a (x + 10) ^^^ get a (x + 15) ^^^ get a (x + 20)
  let d : Array UInt64 := (Array.range 5).map fun x =>
    get c ((x + 4) % 5) ^^^ rotl (get c ((x + 1) % 5)) 1
  let a1 : Array UInt64 := (Array.range 25).map fun i => get a i ^^^ get d (i % 5)
  -- rho + pi : B[y, 2x+3y] = rot(A[x,y])
  let b : Array UInt64 := (Array.range 25).foldl (fun b i =>
    let x := i % 5
    let y := i / 5
    let nx := y
    let ny := (2 * x + 3 * y) % 5
    b.set! (nx + 5 * ny) (rotl (get a1 i) (rot.getD i 0))) (Array.replicate 25 0)
  -- chi
  let a2 : Array UInt64 := (Array.range 25).map fun i =>
    let x := i % 5
    let y := i / 5
    get b i ^^^ ((~~~ get b ((x + 1) % 5 + 5 * y)) &&& get b ((x + 2) % 5 + 5 * y))
  -- iota
  a2.set! 0 (get a2 0 ^^^ rc.getD ir 0)

def f1600 (a : Array UInt64) : Array UInt64 :=
  (List.range 24).foldl round a

def laneOfBytes (bs : List UInt8) : UInt64 :=
  (bs.reverse).foldl (fun acc b => (acc <<< 8) ||| b.toUInt64) 0

def bytesOfLane (l : UInt64) : List UInt8 :=
  (List.range 8).map fun i => (l >>> (UInt64.ofNat (8 * i))).toUInt8

/-- xor a 136-byte block into the state (17 lanes) -/
def absorbBlock (st : Array UInt64) (blk : List UInt8) : Array UInt64 :=
  let rec go (i : Nat) (bs : List UInt8) (st : Array UInt64) (fuel : Nat) : Array UInt64 :=
    match fuel with
    | 0 => st
    | fuel + 1 =>
      if bs.isEmpty then st
      else go (i + 1) (bs.drop 8) (st.set! i (get st i ^^^ laneOfBytes (bs.take 8))) fuel
  f1600 (go 0 blk st 17)

def rate : Nat := 136

def pad (tail : List UInt8) : List UInt8 :=
  -- tail.length < rate
  let n := rate - tail.length
  if n = 1 then tail ++ [0x86]
  else tail ++ [0x06] ++ List.replicate (n - 2) 0 ++ [0x80]

def absorb (st : Array UInt64) (bs : List UInt8) (fuel : Nat) : Array UInt64 :=
  match fuel with
  | 0 => st
  | fuel + 1 =>
    if bs.length < rate then absorbBlock st (pad bs)
    else absorb (absorbBlock st (bs.take rate)) (bs.drop rate) fuel

end Keccak

def sha3_256 (bs : Bytes) : Bytes :=
  let st := Keccak.absorb (Array.replicate 25 0) bs (bs.length / Keccak.rate + 2)
  ((List.range 4).flatMap fun i => Keccak.bytesOfLane (Keccak.get st i))

end Goloop
